#!/bin/bash
# Runs the repository's pinned test suite with the verification guard OFF and
# compares the set of passing tests with /root/.vp/BASELINE.json (stable_pass).
# usage: baseline_off.sh [repo_dir]
set -u
REPO=${1:-/repo}
export CARGO_NET_OFFLINE=true RUST_BACKTRACE=0
unset RUSTFLAGS
cd "$REPO" || exit 2
rm -f target/nextest/pb/junit.xml
cargo nextest run --workspace --no-fail-fast --tool-config-file pb:/w/lib/nextest.toml --profile pb --test-threads 8 --offline > "${BASELINE_LOG:-/tmp/baseline_off.log}" 2>&1
python3 - "$REPO" <<'PY'
import json, sys, xml.etree.ElementTree as ET
repo = sys.argv[1]
base = set(json.load(open('/root/.vp/BASELINE.json'))['stable_pass'])
try:
    root = ET.parse(f'{repo}/target/nextest/pb/junit.xml').getroot()
except Exception as e:
    print('baseline_off: no junit output:', e); sys.exit(2)
passed, failed = set(), set()
for tc in root.iter('testcase'):
    tid = (tc.get('classname') or '') + '::' + (tc.get('name') or '')
    if tc.find('failure') is not None or tc.find('error') is not None or tc.find('flakyFailure') is not None or tc.find('rerunFailure') is not None:
        failed.add(tid)
    elif tc.find('skipped') is None:
        passed.add(tid)
passed -= failed
missing = sorted(base - passed)
print(f'baseline_off: baseline={len(base)} passed_now={len(passed)} baseline_tests_not_passing={len(missing)}')
for m in missing[:40]:
    print('  NOT PASSING:', m)
sys.exit(1 if missing else 0)
PY
