#!/bin/bash
# try_seed_iso.sh <seed-dir> <check> [tier]: runs one check against a seeded change WITHOUT touching /repo:
# a scratch worktree of /repo's HEAD (/tmp/seediso/repo) gets the patch, a copy of the harness is pointed at it
# and built into /tmp/seediso/target; evidence/replays go to /tmp/seediso/verif. One trial at a time.
# (The registered way - git -C /repo apply, run, git checkout - is bin/try_seed.sh; this one lets the main
# tree keep building while a trial runs.)
set -u
seed="$(realpath "$1")"; chk="$2"; tier="${3:-quick}"
ISO=/tmp/seediso
mkdir -p $ISO/verif
exec 9>$ISO/lock; flock 9
if [ ! -d $ISO/repo ]; then git -C /repo worktree add --detach $ISO/repo HEAD >/dev/null 2>&1 || exit 2; fi
git -C $ISO/repo checkout -q --detach "$(git -C /repo rev-parse HEAD)" 2>/dev/null
git -C $ISO/repo checkout -q -- . ; git -C $ISO/repo clean -fdq -- crates
git -C $ISO/repo apply "$seed/patch.diff" || { echo "patch does not apply"; exit 2; }
rsync -a --delete --exclude target /verif/harness/ $ISO/harness/
sed -i "s#/repo/crates#$ISO/repo/crates#g" $ISO/harness/Cargo.toml
sed -i "s#/verif/target/hooks#$ISO/target#" $ISO/harness/.cargo/config.toml
rsync -a /verif/known_findings.jsonl /verif/properties.jsonl $ISO/verif/
rsync -a --delete /verif/models/ $ISO/verif/models/
log=$ISO/verif/seed_$(basename "$seed")_$chk.log
( cd $ISO/harness && CARGO_NET_OFFLINE=true RUST_BACKTRACE=0 cargo build --release --offline ) > $ISO/build.log 2>&1 || { echo "build failed"; tail -20 $ISO/build.log; git -C $ISO/repo checkout -q -- .; exit 2; }
if [ "$chk" = "C16" ]; then
  ( cd $ISO/harness && RUSTFLAGS="-Zsanitizer=address --cfg glaredb_verif --check-cfg cfg(glaredb_verif)" CARGO_TARGET_DIR=$ISO/verif/target/asan CARGO_NET_OFFLINE=true cargo +nightly build --release --offline --target x86_64-unknown-linux-gnu ) > $ISO/build_asan.log 2>&1 || { echo "asan build failed"; tail -5 $ISO/build_asan.log; git -C $ISO/repo checkout -q -- .; exit 2; }
fi
VERIF_ROOT=$ISO/verif timeout "${SEED_TIMEOUT:-2400}" $ISO/target/release/vcheck "$chk" --tier "$tier" > "$log" 2>&1
code=$?
git -C $ISO/repo checkout -q -- . ; git -C $ISO/repo clean -fdq -- crates
echo "seed=$(basename "$seed") check=$chk tier=$tier exit=$code violations=$(grep -c '^VIOLATION' "$log")"
grep -m3 "detail:" "$log" | cut -c1-500
exit 0
