#!/bin/bash
# confirm_seed2.sh <seed-dir>...: confirms each seeded change in ONE reusable scratch worktree (/tmp/seedconfirm,
# never /repo): the patch applies and builds, the repository's pinned test suite (guard off) still passes with
# it, and - when the demonstration is a stand-alone test file - the demonstration fails with the change and
# passes without it. Writes <seed>/confirmed.txt.
set -u
WT=/tmp/seedconfirm
export CARGO_NET_OFFLINE=true RUST_BACKTRACE=0
unset RUSTFLAGS
if [ ! -d $WT ]; then git -C /repo worktree add --detach $WT HEAD >/dev/null 2>&1 || { echo "cannot create worktree"; exit 2; }; fi
for seed in "$@"; do
  seed="$(realpath "$seed")"; name="$(basename "$seed")"
  git -C $WT checkout -q --detach "$(git -C /repo rev-parse HEAD)"; git -C $WT checkout -q -- .; git -C $WT clean -fdq -- crates test_bin 2>/dev/null
  out="$seed/confirmed.txt"
  { echo "repo_commit=$(git -C /repo rev-parse --short HEAD)"; } > "$out"
  if ! git -C $WT apply "$seed/patch.diff"; then echo "patch_applies=no" >> "$out"; continue; fi
  echo "patch_applies=yes" >> "$out"
  BASELINE_LOG=/tmp/seedconfirm_baseline.log nice -n 5 /verif/bin/baseline_off.sh $WT > /tmp/seedconfirm_base.out 2>&1
  echo "baseline_exit_with_change=$? ($(head -1 /tmp/seedconfirm_base.out))" >> "$out"
  grep "NOT PASSING" /tmp/seedconfirm_base.out | head -5 >> "$out"
  place="crates/glaredb_rt_native/tests/seed_demo.rs"; args="-p glaredb_rt_native --test seed_demo"
  if [ -f "$seed/demo_place.txt" ]; then place="$(sed -n 1p "$seed/demo_place.txt")"; args="$(sed -n 2p "$seed/demo_place.txt")"; fi
  if [ "$place" = "none" ] || [ ! -f "$seed/demo.rs" ]; then echo "demo=not a stand-alone test file (see README); not re-run here" >> "$out"; else
    mkdir -p "$WT/$(dirname "$place")"; cp "$seed/demo.rs" "$WT/$place"
    ( cd $WT && timeout 1800 nice -n 5 cargo test --offline $args ) > /tmp/seedconfirm_demo1.out 2>&1; c1=$?
    echo "demo_with_change_exit=$c1 ($(grep -m1 'test result' /tmp/seedconfirm_demo1.out))" >> "$out"
    git -C $WT apply -R "$seed/patch.diff"
    ( cd $WT && timeout 1800 nice -n 5 cargo test --offline $args ) > /tmp/seedconfirm_demo2.out 2>&1; c2=$?
    echo "demo_without_change_exit=$c2 ($(grep -m1 'test result' /tmp/seedconfirm_demo2.out))" >> "$out"
    rm -f "$WT/$place"
  fi
  git -C $WT checkout -q -- .; git -C $WT clean -fdq -- crates test_bin 2>/dev/null
  echo "$name: $(tr '\n' ' ' < "$out")"
done
rm -f /tmp/seedconfirm_*.out /tmp/seedconfirm_baseline.log
