#!/bin/bash
# confirm_seed.sh <seed-dir>...: for each seeded change, checks in a scratch worktree (never in /repo) that it
# applies, builds and that the repository's pinned test suite still passes with it; writes <seed>/confirmed.txt.
set -u
for seed in "$@"; do
  seed="$(realpath "$seed")"; name="$(basename "$seed")"; wt="/tmp/wt_confirm_$name"
  git -C /repo worktree remove --force "$wt" >/dev/null 2>&1
  git -C /repo worktree add --detach "$wt" HEAD >/dev/null 2>&1 || { echo "$name: cannot create worktree"; continue; }
  if git -C "$wt" apply "$seed/patch.diff"; then
    BASELINE_LOG="/tmp/baseline_$name.log" nice -n 5 /verif/bin/baseline_off.sh "$wt" > "/tmp/confirm_$name.out" 2>&1
    code=$?
    { echo "repo_commit=$(git -C /repo rev-parse --short HEAD)"; echo "baseline_exit=$code"; head -5 "/tmp/confirm_$name.out"; } > "$seed/confirmed.txt"
  else
    echo "patch does not apply" > "$seed/confirmed.txt"
  fi
  git -C /repo worktree remove --force "$wt"; rm -f "/tmp/baseline_$name.log" "/tmp/confirm_$name.out"
  echo "$name: $(tr '\n' ' ' < "$seed/confirmed.txt")"
done
git -C /repo worktree prune
