#!/bin/bash
# try_seed.sh <seed-dir> <check> [tier]: applies a seeded change to /repo, runs one check, undoes the change.
set -u
seed="$(realpath "$1")"; chk="$2"; tier="${3:-quick}"
cd /repo || exit 2
if [ -n "$(git status --porcelain)" ]; then echo "try_seed: /repo working tree is not clean" >&2; exit 2; fi
git apply "$seed/patch.diff" || { echo "try_seed: patch does not apply" >&2; exit 2; }
cp "/verif/evidence/$chk.json" "/verif/target/evidence_$chk.keep" 2>/dev/null
trap 'cp "/verif/target/evidence_$chk.keep" "/verif/evidence/$chk.json" 2>/dev/null; git -C /repo checkout -- . ; git -C /repo clean -fdq -- crates >/dev/null 2>&1' EXIT
timeout "${SEED_TIMEOUT:-1800}" /verif/bin/vcheck "$chk" --tier "$tier" > "/verif/target/seed_$(basename "$seed")_$chk.log" 2>&1
code=$?
grep -c "^VIOLATION" "/verif/target/seed_$(basename "$seed")_$chk.log" | sed "s/^/violations: /"
grep -m3 "detail:" "/verif/target/seed_$(basename "$seed")_$chk.log" | cut -c1-400
echo "exit=$code"
exit 0
