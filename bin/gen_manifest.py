#!/usr/bin/env python3
"""Regenerates /verif/MANIFEST.json from the table below (kept next to the checks)."""
import json, subprocess

CHECKS = {
 "C01": ("exploration", "bounded exhaustive enumeration of (program, database) pairs vs reference model",
   "Every algebra term up to depth 2 (filters, projections, aggregates, DISTINCT, sort+limit, joins, subquery predicates, scalar/lateral subqueries, UNION, CTEs, top-level ORDER BY/LIMIT) over every database of its scope (<=2 quick / <=3 thorough rows per mentioned table over 3-value column domains; TEMP-table and inline-VALUES sources) is executed and compared - bag, ordered sequence, column names and types - with the Rust reference model RM.",
   "Trusts RM (nested-loop evaluator with unit tests) and the SQL renderer; nothing beyond the enumerated scope."),
 "C02": ("exploration", "bounded exhaustive differential enumeration (optimizer off vs on)",
   "The C01 term space plus ~100 rewrite-forcing statements (one family per optimizer rule) over all databases with <=2 full rows, each executed with enable_optimizer=false and true; schema, bag and key sequence must agree; only a one-sided run-time evaluation error is tolerated.",
   "Differential oracle: a defect present in both plans is C01's subject; engine-internal plan nondeterminism (hash-map order) is part of what is compared."),
 "C03": ("exploration", "bounded exhaustive differential enumeration over physical configurations",
   "Barrier-containing terms x databases x the (partitions, batch_size, enable_hash_joins) alphabet (11 quick / 47 thorough configurations) vs the reference configuration; edge databases spanning several batches; CTAS / INSERT..SELECT row counts and contents.",
   "The worker-thread clause is decided by C04's schedule exploration; TEMP-table scans under small batch sizes are a separate family (known finding)."),
 "C04": ("model_checking", "stateless exhaustive exploration of poll-level schedules on the real operators",
   "The harness is GlareDB's PipelineRuntime: for 34 query shapes with cross-partition barriers it enumerates every poll-level interleaving of the partition pipelines and the result consumer (complete for most shapes, capped and reported otherwise), plus all schedules with <=2 (quick) / <=4 (thorough) deviations including spurious and repeated wake-ups; every execution runs to completion on the implementation and must terminate, return the sequential result, and deliver task errors to the client.",
   "Poll-atomic scheduling points (sequentially consistent); lock-level interleavings inside a poll and the rayon TaskState machine are outside this explorer."),
 "C05": ("exploration", "bounded exhaustive enumeration of (signature, argument tuple, evaluation context)",
   "Every non-volatile scalar signature of the engine's registry with arity <=3 over the full product of per-type value alphabets, evaluated on literals (optimizer on/off) and over VALUES tables flat / under a selection / inside CASE / duplicated (CSE) / batch sizes 1 and 3 / constant argument; all contexts must agree. Plus documented examples, all AND/OR/NOT expressions of depth <=2 over the 27 three-valued assignments in 6 clause positions, comparison/IS/BETWEEN/IN predicates for 15 types against RM, operator precedence.",
   "Context independence is differential; values are asserted only where RM or the documentation defines them; NaN comparisons and IS TRUE of NULL are not asserted (docs and SQL disagree)."),
 "C06": ("exploration", "bounded exhaustive enumeration of join forms x databases x configurations vs reference model",
   "About 80 join forms (cross, inner, left, right, semi, lateral, [NOT] EXISTS, [NOT] IN, ANY/ALL, mark, scalar subquery, USING, NATURAL; equality / inequality / OR / expression conditions) x key types x all pairs of bags with <=3 rows over {NULL,k1,k2} x (partitions, batch size, hash/nested-loop), against RM; many-to-many and hash-directory capacity families by exact counts.",
   "RM nested-loop join with SQL NULL semantics; float NaN keys not asserted."),
 "C07": ("exploration", "bounded exhaustive enumeration of aggregate forms x bags x row orders x splits vs reference model",
   "45 grouping/aggregate/duplicate-elimination forms (DISTINCT, FILTER, HAVING, ROLLUP, CUBE, GROUPING(), UNION) x all bags of <=3 (quick) / <=4 (thorough) rows over a 9-value row domain x every row order x (partitions, batch size), against RM; every aggregate signature of the registry under reordered input and partition splits (homomorphism); many-group families crossing the hash directory capacities.",
   "Float accumulators compared with a relative tolerance; the schedule side of the homomorphism clause is C04's."),
 "C08": ("exploration", "bounded exhaustive enumeration of sort inputs / limit-offset pairs with a sortedness+permutation oracle",
   "All 65 536 values of SMALLINT and USMALLINT keys in three input arrangements x ASC/DESC x NULLS FIRST/LAST/default; the boundary alphabet of every sortable type under small batches and several partitions; all strings of length <=2/3 over a byte-order-sensitive alphabet with shared prefixes of 0/11/12/13/40 bytes; 3-key sorts with ties in all direction combinations; all (limit, offset) pairs around 0, the batch size and N, ordered / tied / unordered / in a derived table / optimizer off. Output must be a permutation (or the exact slice) of the input with every adjacent pair respecting RM's comparator.",
   "RM comparator: NULLs largest by default, NaN above numbers, byte-wise strings; HALF is covered by its alphabet, not all 2^16 bit patterns."),
 "C09": ("exploration", "bounded exhaustive enumeration of subquery forms x (outer, inner) databases vs per-outer-row reference evaluation",
   "About 290 subquery forms (scalar / EXISTS / IN / ANY / ALL / LATERAL x WHERE / SELECT / CASE / HAVING x correlation through filter, projection, aggregates, LIMIT 1, DISTINCT, join, nested) x all pairs of bags with <=2 (quick) / <=3 (thorough) rows over {NULL,1,2}^2, optimizer on and off, against RM which evaluates the subquery once per outer row; 9 definitions x 8 uses rendered inline / CTE / MATERIALIZED / chained / view / view^3 must agree.",
   "RM is the property's own definition (nested evaluation); views are created in a fresh engine per database because DROP VIEW is not implemented."),
 "C11": ("exploration", "bounded exhaustive differential enumeration of (file statistics, predicate, projection) and (directory tree, glob) vs unpruned scan, TEMP-table copy, harness model and reference glob matcher",
   "pqgen files with 15 column types (signed / unsigned integer annotations crossing the sign bit, DATE, DECIMAL, FLOAT/DOUBLE with NaN, UTF8, BOOLEAN) x 3 value layouts over 3 row groups incl. a NULL-only group (thorough: 4 row-group layouts) x statistics {exact, absent, flagged inexact / truncated, deprecated signed-order min/max} x ~900 predicates per file (every comparison of the column with every constant of its alphabet, between / outside it, typed and implicitly cast; BETWEEN, IN, IS [NOT] DISTINCT FROM, AND/OR pairs, other-column conjuncts) x projection lists: the pushed-down scan must equal the scan with the optimizer off, the same query on a TEMP-table copy of the file and (for alphabet constants) row ids computed by the harness, also with 3 partitions and batch size 3. 3 VerifFs directory trees x ~15 glob patterns (* ? [..] {..} ** and colliding names) x {glob(), read_parquet, read_csv} x partitions {1,3,8} and explicit lists: the listing equals a reference matcher, each file once, rows = multiset union of single-file scans, per-_filename counts.",
   "Statistics that are not bounds of the chunk's values are not generated (invalid file). A one-sided run-time cast error is tolerated (the skipped work contained the failing evaluation). `**` is undocumented: listings between the one-or-more and zero-or-more directory readings are accepted."),
 "C12": ("exploration", "bounded exhaustive enumeration of operand pairs vs exact big-integer arithmetic",
   "+,-,*,/,% on all 8 integer types (all 65 536 pairs for the 8-bit types in the thorough tier, boundary^2 otherwise), unary minus over the full 8/16-bit domains, decimal +,-,* over (p,s) x (p,s) x boundary values, SUM/AVG overflow bags; the exact result fitted into the announced type must be returned, otherwise the statement must fail with an error.",
   "The engine-announced result type is taken as given; decimal division (Float64 result) is not asserted."),
 "C13": ("exploration", "bounded exhaustive enumeration of (source type, target type, value) vs exact conversion model",
   "All 289 pairs of 17 types (those for which CAST binds) x alphabets with conversion edge values, literal and column context; decimal rescale at every scale distance; text round trips incl. full-domain sweeps of the 8/16-bit types.",
   "Rounding rules as stated in the property (float->int truncates, decimals half away from zero); float->decimal accepts either neighbour."),
 "C10": ("exploration", "bounded exhaustive enumeration of valid Parquet files (written by an independent writer) vs the values written",
   "Files produced by pqgen, a Parquet writer in the harness written from the format specification (own Thrift compact encoder; PLAIN / RLE_DICTIONARY / RLE / DELTA_BINARY_PACKED / DELTA_LENGTH_BYTE_ARRAY / DELTA_BYTE_ARRAY / BYTE_STREAM_SPLIT; data page v1 and v2; uncompressed / snappy / gzip / zstd): every physical x logical type x every legal encoding x page version x codec x NULL mask family x page-size family x row-group layout x batch size; dictionaries above 256 / 65 536 entries, RLE runs and bit-packed groups crossing read boundaries; the rows read back (values, NULL positions, order, column types) and parquet_file_metadata / rowgroup / column metadata must equal what was written.",
   "pqgen is trusted as the specification's reading (a writer bug shows up as a disagreement and is triaged against the specification); nested / repeated columns are outside the alphabet."),
 "C14": ("model_checking", "explicit-state breadth-first search over statement histories on the real engine with a catalog reference model",
   "BFS over all histories of DDL/DML/SET statements (13 quick / 26 thorough statement forms incl. IF [NOT] EXISTS, OR REPLACE, CTAS [IF NOT EXISTS], INSERT..SELECT from the target, statements failing at bind and at run time) issued by two sessions of one engine, to depth 4 (quick) / 5 (thorough); states are canonical observations (schemas, tables, views, DESCRIBE, sorted contents, SHOW) of both sessions and are deduplicated by hash; every transition re-executes the history on fresh sessions of the implementation and compares outcome class, reported row count, the acting session's observation with the model and the other session's observation with its previous one.",
   "Canonical form drops only what the property cannot observe (row order); the merge soundness is cross-checked by re-running depth 2 without merging. Interleavings of parallel appends are C04's shapes insert-select / ctas / tables-self-insert."),
 "C15": ("fault_enumeration", "bounded exhaustive enumeration of statement texts (token sequences, single-token mutations, nesting depths, ill-typed calls)",
   "All token sequences of length <= 4 (quick) / 5 (thorough) over a 28-token alphabet; 55 corpus statements under every single-token deletion / duplication / swap / replacement; 14 nesting families (parentheses, unary chains, CASE, subqueries, CTE chains, joins, IN lists, ...) at depths 2^0..2^13; every scalar and aggregate signature on ill-typed and extreme arguments; statements that fail at run time; after every statement the same session must still answer a probe query and a failed statement must leave the catalog unchanged. Outcome must be rows or error - a panic, hang, abort (stack overflow) or a poisoned session is a violation.",
   "Process-killing statements are isolated by the guard supervisor (child process + watchdog) and attributed by in-flight slots; the depth families are keyed by family, not by the exact depth where the stack ends."),
 "C16": ("exploration", "bounded exhaustive enumeration (the statement / file / fault spaces of the other checks) re-executed on an AddressSanitizer build of engine and harness; a sanitizer report on any enumerated execution is the violation",
   "Quick: every execution of the quick enumerations of C10 (valid Parquet files x encodings x page layouts x batch sizes) and C06 (join forms x databases x configurations) - thorough: of all statement-level checks incl. C19 (every truncation / byte substitution / metadata lie / I/O fault of small Parquet and CSV files) and the C04 schedule explorers - is repeated on a nightly -Zsanitizer=address build of GlareDB and the harness with debug assertions and overflow checks on; out-of-bounds accesses, use-after-free and double free in the hand-managed buffers abort the child with a report, the supervisor attributes it to the statement in flight and continues; internal consistency assertions are checked by every check's own run (panics are violations there).",
   "Memory errors are decided on the enumerated executions only (monitor under the explorer). Not decided: reads of uninitialised memory and misalignment (Miri is not run), and the data-race clause (the thread-level explorer serialises threads and no happens-before monitor is attached); those two clauses are not claimed."),
 "C17": ("exploration", "bounded exhaustive enumeration of CSV files x read-chunk splits x batch sizes x partitions vs an RFC-4180 reference parser",
   "All grids of <=3x2 (quick) / <=4x3 (thorough) cells with every choice of <=2 special cells out of 13 (empty, numeric, boolean, multi-byte, padded, quoted with delimiter / doubled quote / LF / CRLF, quoted empty) and typed columns, rendered in 3 (quick) / 6 dialects x header yes/no x LF/CRLF x final newline yes/no; the rows must be explained by the harness's RFC-4180 parser under one admissible (dialect, header) decision with narrowest column types, and must be identical for every single split point of the byte stream into two reads (and all pairs of split points for small files), read sizes 1..7, batch sizes 1/2/3 and 1..3 partitions; size families crossing the 4 096-byte inference sample.",
   "Dialect / header inference is under-specified: any admissible candidate is accepted, but the same file must give the same rows under every split / batch / partition choice."),
 "C18": ("exploration", "bounded exhaustive enumeration of statements with a four-way schema agreement oracle",
   "For the C01 term space, every scalar signature (literal and column context), every unary aggregate (plain / grouped), UNION / CASE / coalesce over all ordered pairs of 18 types, decimal arithmetic over (p,s) x (p,s), catalog statements: DESCRIBE <stmt>, the announced output schema, the datatype of every returned batch and the variant of every value (incl. decimal precision / scale, timestamp unit) must agree pairwise.",
   "Agreement oracle only (which of the disagreeing sides is right is not decided)."),
 "C19": ("fault_enumeration", "bounded exhaustive fault enumeration (every truncation, byte substitution, metadata lie and I/O error position) on small valid files",
   "26 valid pqgen files (one per type x encoding x page version x codec class) and 8 CSV files: every truncation length, every single-byte substitution by up to six values, every integer field of footer and page headers replaced by seven lies (0, 1, -1, value+-1, 2^31-1, 2^63-1), an injected I/O error / short read / pending at every read call; the statement must return rows or an error - no panic, abort, hang (> 3 s inside one poll) or allocation blow-up.",
   "After the first blow-up of a fault group (same file region and substitution) the remaining faults of the group are not fed (reported in the evidence); known reader panics are listed by panic site and region."),
 "C20": ("exploration", "bounded exhaustive enumeration of (string function call, subject) and (pattern, subject) pairs vs character-level reference implementations",
   "219 string-function calls x 262 subjects (all strings of length <= 2 over a 9-symbol alphabet with multi-byte, combining and 4-byte characters, plus long / padded subjects) against character-level reference implementations in the harness; all LIKE patterns of length <= 3 (quick) / 4 (thorough) over {a, B, %, _, escape, newline, multi-byte} x all subjects against a reference matcher, evaluated as constant pattern (optimizer rewrite on and off) and as column pattern; regular-expression functions against Python's re on the common syntax subset.",
   "Python re is the regex oracle only for patterns inside the syntax subset both engines define identically; outside it only safety (no panic / hang) is asserted."),
}

NA = {
}

def main():
    ids = [json.loads(l)["id"] for l in open("/verif/properties.jsonl")]
    checks = []
    for pid, (cat, tech, text, note) in CHECKS.items():
        checks.append({
            "property_id": pid,
            "quick_cmd": f"/verif/bin/vcheck {pid} --tier quick",
            "thorough_cmd": f"/verif/bin/vcheck {pid} --tier thorough",
            "evidence_file": f"/verif/evidence/{pid}.json",
            "replay_cmd_template": "/verif/bin/vcheck replay {path}",
            "engine": "vharness",
            "level_claimed": {"category": cat, "text": text, "design_ref": f"DESIGN.md section 4, {pid}"},
            "level_note": note + " Known findings (genuine defects not repaired) are listed in /verif/known_findings.jsonl and printed as KNOWN-FINDING lines.",
            "technique": tech,
        })
    commits = subprocess.run(["git", "-C", "/repo", "log", "--format=%h %s", "6fa831469..HEAD"], capture_output=True, text=True).stdout.strip().split("\n")
    m = {
        "version": 1,
        "setup_cmd": "cd /verif/harness && CARGO_NET_OFFLINE=true RUST_BACKTRACE=0 cargo build --release --offline && /verif/bin/vcheck build-asan",
        "hooks": {
            "guard": "--cfg glaredb_verif",
            "enable": "rustflags --cfg glaredb_verif in /verif/harness/.cargo/config.toml; the harness crate path-depends on /repo/crates/* and /verif/bin/vcheck rebuilds it from /repo's working tree before every check. Guarded source changes: H0 (lint declaration of the cfg) and H2 (scheduling points, ScheduleState transition log and a rayon::ThreadPool stand-in in crates/glaredb_rt_native/src/threaded, used only by C04's thread-level explorer); every other check runs against unmodified production code through public traits (PipelineRuntime, FileSystem).",
            "baseline_off_cmd": "/verif/bin/baseline_off.sh /repo",
            "source_commits": [c for c in commits if c and c.split(" ",1)[1].startswith("verif hook")],
            "add_only": True,
        },
        "engines": [{"name": "vharness", "path": "/verif/harness", "serves_properties": sorted(CHECKS), "kind_free_text": "Rust harness that implements GlareDB's PipelineRuntime (it is the scheduler) and FileSystem (it is the OS); bounded exhaustive enumeration of programs x databases x configurations x schedules x faults against a reference model, run in a supervised child process (hang / abort isolation)"}],
        "checks": checks,
        "not_applicable": [{"property_id": i, "reason": NA.get(i, "explorer for this property is not built in this snapshot; see DESIGN.md")} for i in ids if i not in CHECKS],
        "notes": "fix: commits in /repo: " + "; ".join(c for c in commits if "fix:" in c),
    }
    json.dump(m, open("/verif/MANIFEST.json", "w"), indent=1)
    print("manifest written:", len(checks), "checks,", len(m["not_applicable"]), "not applicable")

main()
