#!/usr/bin/env python3
"""Regenerates /verif/MANIFEST.json from the table below (kept next to the checks)."""
import json, subprocess

CHECKS = {
 "C01": ("exploration", "bounded exhaustive enumeration of (program, database) pairs vs reference model",
   "Every algebra term up to depth 2 (filters, projections, aggregates, DISTINCT, sort+limit, joins, subquery predicates, scalar/lateral subqueries, UNION, CTEs, top-level ORDER BY/LIMIT) over every database of its scope (<=2 quick / <=3 thorough rows per mentioned table over 3-value column domains; TEMP-table and inline-VALUES sources) is executed and compared - bag, ordered sequence, column names and types - with the Rust reference model RM.",
   "Trusts RM (nested-loop evaluator with unit tests) and the SQL renderer; nothing beyond the enumerated scope."),
 "C02": ("exploration", "bounded exhaustive differential enumeration (optimizer off vs on)",
   "The C01 term space plus ~100 rewrite-forcing statements (one family per optimizer rule) over all databases with <=2 full rows, each executed with enable_optimizer=false and true; schema, bag and key sequence must agree; only a one-sided run-time evaluation error is tolerated.",
   "Differential oracle: a defect present in both plans is C01's subject; engine-internal plan nondeterminism (hash-map order) is part of what is compared."),
 "C03": ("exploration", "bounded exhaustive differential enumeration over physical configurations",
   "Barrier-containing terms x databases x the (partitions, batch_size, enable_hash_joins) alphabet (11 quick / 47 thorough configurations) vs the reference configuration; edge databases spanning several batches; CTAS / INSERT..SELECT row counts and contents.",
   "The worker-thread clause is decided by C04's schedule exploration; TEMP-table scans under small batch sizes are a separate family (known finding)."),
 "C04": ("model_checking", "stateless exhaustive exploration of poll-level schedules on the real operators",
   "The harness is GlareDB's PipelineRuntime: for 34 query shapes with cross-partition barriers it enumerates every poll-level interleaving of the partition pipelines and the result consumer (complete for most shapes, capped and reported otherwise), plus all schedules with <=2 (quick) / <=4 (thorough) deviations including spurious and repeated wake-ups; every execution runs to completion on the implementation and must terminate, return the sequential result, and deliver task errors to the client.",
   "Poll-atomic scheduling points (sequentially consistent); lock-level interleavings inside a poll and the rayon TaskState machine are outside this explorer."),
 "C05": ("exploration", "bounded exhaustive enumeration of (signature, argument tuple, evaluation context)",
   "Every non-volatile scalar signature of the engine's registry with arity <=3 over the full product of per-type value alphabets, evaluated on literals (optimizer on/off) and over VALUES tables flat / under a selection / inside CASE / duplicated (CSE) / batch sizes 1 and 3 / constant argument; all contexts must agree. Plus documented examples, all AND/OR/NOT expressions of depth <=2 over the 27 three-valued assignments in 6 clause positions, comparison/IS/BETWEEN/IN predicates for 15 types against RM, operator precedence.",
   "Context independence is differential; values are asserted only where RM or the documentation defines them; NaN comparisons and IS TRUE of NULL are not asserted (docs and SQL disagree)."),
 "C06": ("exploration", "bounded exhaustive enumeration of join forms x databases x configurations vs reference model",
   "About 80 join forms (cross, inner, left, right, semi, lateral, [NOT] EXISTS, [NOT] IN, ANY/ALL, mark, scalar subquery, USING, NATURAL; equality / inequality / OR / expression conditions) x key types x all pairs of bags with <=3 rows over {NULL,k1,k2} x (partitions, batch size, hash/nested-loop), against RM; many-to-many and hash-directory capacity families by exact counts.",
   "RM nested-loop join with SQL NULL semantics; float NaN keys not asserted."),
 "C07": ("exploration", "bounded exhaustive enumeration of aggregate forms x bags x row orders x splits vs reference model",
   "45 grouping/aggregate/duplicate-elimination forms (DISTINCT, FILTER, HAVING, ROLLUP, CUBE, GROUPING(), UNION) x all bags of <=3 (quick) / <=4 (thorough) rows over a 9-value row domain x every row order x (partitions, batch size), against RM; every aggregate signature of the registry under reordered input and partition splits (homomorphism); many-group families crossing the hash directory capacities.",
   "Float accumulators compared with a relative tolerance; the schedule side of the homomorphism clause is C04's."),
}

def main():
    ids = [json.loads(l)["id"] for l in open("/verif/properties.jsonl")]
    checks = []
    for pid, (cat, tech, text, note) in CHECKS.items():
        checks.append({
            "property_id": pid,
            "quick_cmd": f"/verif/bin/vcheck {pid} --tier quick",
            "thorough_cmd": f"/verif/bin/vcheck {pid} --tier thorough",
            "evidence_file": f"/verif/evidence/{pid}.json",
            "replay_cmd_template": "/verif/bin/vcheck replay {path}",
            "engine": "vharness",
            "level_claimed": {"category": cat, "text": text, "design_ref": f"DESIGN.md section 4, {pid}"},
            "level_note": note + " Known findings (genuine defects not repaired) are listed in /verif/known_findings.jsonl and printed as KNOWN-FINDING lines.",
            "technique": tech,
        })
    commits = subprocess.run(["git", "-C", "/repo", "log", "--format=%h %s", "6fa831469..HEAD"], capture_output=True, text=True).stdout.strip().split("\n")
    m = {
        "version": 1,
        "setup_cmd": "cd /verif/harness && CARGO_NET_OFFLINE=true RUST_BACKTRACE=0 cargo build --release --offline",
        "hooks": {
            "guard": "--cfg glaredb_verif",
            "enable": "rustflags --cfg glaredb_verif in /verif/harness/.cargo/config.toml; the harness crate path-depends on /repo/crates/* and /verif/bin/vcheck rebuilds it from /repo's working tree before every check. No guarded source change exists in /repo so far: every check runs against unmodified production code through public traits (PipelineRuntime, FileSystem).",
            "baseline_off_cmd": "/verif/bin/baseline_off.sh /repo",
            "source_commits": [c for c in commits if c and not c.split(" ",1)[1].startswith("fix:")],
            "add_only": True,
        },
        "engines": [{"name": "vharness", "path": "/verif/harness", "serves_properties": sorted(CHECKS), "kind_free_text": "Rust harness that implements GlareDB's PipelineRuntime (it is the scheduler) and FileSystem (it is the OS); bounded exhaustive enumeration of programs x databases x configurations x schedules x faults against a reference model, run in a supervised child process (hang / abort isolation)"}],
        "checks": checks,
        "not_applicable": [{"property_id": i, "reason": "explorer for this property is not committed yet in this snapshot (planned in DESIGN.md); it will be claimed once its check exists"} for i in ids if i not in CHECKS],
        "notes": "fix: commits in /repo: " + "; ".join(c for c in commits if "fix:" in c),
    }
    json.dump(m, open("/verif/MANIFEST.json", "w"), indent=1)
    print("manifest written:", len(checks), "checks,", len(m["not_applicable"]), "not applicable")

main()
