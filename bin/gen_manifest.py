#!/usr/bin/env python3
"""Regenerates /verif/MANIFEST.json from the table below (kept next to the checks)."""
import json, subprocess

CHECKS = {
 "C01": ("exploration", "bounded exhaustive enumeration of (program, database) pairs vs reference model",
   "Every algebra term up to depth 2 (filters, projections, aggregates, DISTINCT, sort+limit, joins, subquery predicates, scalar/lateral subqueries, UNION, CTEs, top-level ORDER BY/LIMIT) over every database of its scope (<=2 quick / <=3 thorough rows per mentioned table over 3-value column domains; TEMP-table and inline-VALUES sources) is executed and compared - bag, ordered sequence, column names and types - with the Rust reference model RM.",
   "Trusts RM (nested-loop evaluator with unit tests) and the SQL renderer; nothing beyond the enumerated scope."),
 "C02": ("exploration", "bounded exhaustive differential enumeration (optimizer off vs on)",
   "The C01 term space plus ~100 rewrite-forcing statements (one family per optimizer rule) over all databases with <=2 full rows, each executed with enable_optimizer=false and true; schema, bag and key sequence must agree; only a one-sided run-time evaluation error is tolerated.",
   "Differential oracle: a defect present in both plans is C01's subject; engine-internal plan nondeterminism (hash-map order) is part of what is compared."),
 "C03": ("exploration", "bounded exhaustive differential enumeration over physical configurations",
   "Barrier-containing terms x databases x the (partitions, batch_size, enable_hash_joins) alphabet (11 quick / 47 thorough configurations) vs the reference configuration; edge databases spanning several batches; CTAS / INSERT..SELECT row counts and contents.",
   "The worker-thread clause is decided by C04's schedule exploration; TEMP-table scans under small batch sizes are a separate family (known finding)."),
 "C04": ("model_checking", "stateless exhaustive exploration of poll-level schedules on the real operators",
   "The harness is GlareDB's PipelineRuntime: for 34 query shapes with cross-partition barriers it enumerates every poll-level interleaving of the partition pipelines and the result consumer (complete for most shapes, capped and reported otherwise), plus all schedules with <=2 (quick) / <=4 (thorough) deviations including spurious and repeated wake-ups; every execution runs to completion on the implementation and must terminate, return the sequential result, and deliver task errors to the client.",
   "Poll-atomic scheduling points (sequentially consistent); lock-level interleavings inside a poll and the rayon TaskState machine are outside this explorer."),
 "C05": ("exploration", "bounded exhaustive enumeration of (signature, argument tuple, evaluation context)",
   "Every non-volatile scalar signature of the engine's registry with arity <=3 over the full product of per-type value alphabets, evaluated on literals (optimizer on/off) and over VALUES tables flat / under a selection / inside CASE / duplicated (CSE) / batch sizes 1 and 3 / constant argument; all contexts must agree. Plus documented examples, all AND/OR/NOT expressions of depth <=2 over the 27 three-valued assignments in 6 clause positions, comparison/IS/BETWEEN/IN predicates for 15 types against RM, operator precedence.",
   "Context independence is differential; values are asserted only where RM or the documentation defines them; NaN comparisons and IS TRUE of NULL are not asserted (docs and SQL disagree)."),
 "C06": ("exploration", "bounded exhaustive enumeration of join forms x databases x configurations vs reference model",
   "About 80 join forms (cross, inner, left, right, semi, lateral, [NOT] EXISTS, [NOT] IN, ANY/ALL, mark, scalar subquery, USING, NATURAL; equality / inequality / OR / expression conditions) x key types x all pairs of bags with <=3 rows over {NULL,k1,k2} x (partitions, batch size, hash/nested-loop), against RM; many-to-many and hash-directory capacity families by exact counts.",
   "RM nested-loop join with SQL NULL semantics; float NaN keys not asserted."),
 "C07": ("exploration", "bounded exhaustive enumeration of aggregate forms x bags x row orders x splits vs reference model",
   "45 grouping/aggregate/duplicate-elimination forms (DISTINCT, FILTER, HAVING, ROLLUP, CUBE, GROUPING(), UNION) x all bags of <=3 (quick) / <=4 (thorough) rows over a 9-value row domain x every row order x (partitions, batch size), against RM; every aggregate signature of the registry under reordered input and partition splits (homomorphism); many-group families crossing the hash directory capacities.",
   "Float accumulators compared with a relative tolerance; the schedule side of the homomorphism clause is C04's."),
 "C08": ("exploration", "bounded exhaustive enumeration of sort inputs / limit-offset pairs with a sortedness+permutation oracle",
   "All 65 536 values of SMALLINT and USMALLINT keys in three input arrangements x ASC/DESC x NULLS FIRST/LAST/default; the boundary alphabet of every sortable type under small batches and several partitions; all strings of length <=2/3 over a byte-order-sensitive alphabet with shared prefixes of 0/11/12/13/40 bytes; 3-key sorts with ties in all direction combinations; all (limit, offset) pairs around 0, the batch size and N, ordered / tied / unordered / in a derived table / optimizer off. Output must be a permutation (or the exact slice) of the input with every adjacent pair respecting RM's comparator.",
   "RM comparator: NULLs largest by default, NaN above numbers, byte-wise strings; HALF is covered by its alphabet, not all 2^16 bit patterns."),
 "C09": ("exploration", "bounded exhaustive enumeration of subquery forms x (outer, inner) databases vs per-outer-row reference evaluation",
   "About 290 subquery forms (scalar / EXISTS / IN / ANY / ALL / LATERAL x WHERE / SELECT / CASE / HAVING x correlation through filter, projection, aggregates, LIMIT 1, DISTINCT, join, nested) x all pairs of bags with <=2 (quick) / <=3 (thorough) rows over {NULL,1,2}^2, optimizer on and off, against RM which evaluates the subquery once per outer row; 9 definitions x 8 uses rendered inline / CTE / MATERIALIZED / chained / view / view^3 must agree.",
   "RM is the property's own definition (nested evaluation); views are created in a fresh engine per database because DROP VIEW is not implemented."),
 "C12": ("exploration", "bounded exhaustive enumeration of operand pairs vs exact big-integer arithmetic",
   "+,-,*,/,% on all 8 integer types (all 65 536 pairs for the 8-bit types in the thorough tier, boundary^2 otherwise), unary minus over the full 8/16-bit domains, decimal +,-,* over (p,s) x (p,s) x boundary values, SUM/AVG overflow bags; the exact result fitted into the announced type must be returned, otherwise the statement must fail with an error.",
   "The engine-announced result type is taken as given; decimal division (Float64 result) is not asserted."),
 "C13": ("exploration", "bounded exhaustive enumeration of (source type, target type, value) vs exact conversion model",
   "All 289 pairs of 17 types (those for which CAST binds) x alphabets with conversion edge values, literal and column context; decimal rescale at every scale distance; text round trips incl. full-domain sweeps of the 8/16-bit types.",
   "Rounding rules as stated in the property (float->int truncates, decimals half away from zero); float->decimal accepts either neighbour."),
}

def main():
    ids = [json.loads(l)["id"] for l in open("/verif/properties.jsonl")]
    checks = []
    for pid, (cat, tech, text, note) in CHECKS.items():
        checks.append({
            "property_id": pid,
            "quick_cmd": f"/verif/bin/vcheck {pid} --tier quick",
            "thorough_cmd": f"/verif/bin/vcheck {pid} --tier thorough",
            "evidence_file": f"/verif/evidence/{pid}.json",
            "replay_cmd_template": "/verif/bin/vcheck replay {path}",
            "engine": "vharness",
            "level_claimed": {"category": cat, "text": text, "design_ref": f"DESIGN.md section 4, {pid}"},
            "level_note": note + " Known findings (genuine defects not repaired) are listed in /verif/known_findings.jsonl and printed as KNOWN-FINDING lines.",
            "technique": tech,
        })
    commits = subprocess.run(["git", "-C", "/repo", "log", "--format=%h %s", "6fa831469..HEAD"], capture_output=True, text=True).stdout.strip().split("\n")
    m = {
        "version": 1,
        "setup_cmd": "cd /verif/harness && CARGO_NET_OFFLINE=true RUST_BACKTRACE=0 cargo build --release --offline",
        "hooks": {
            "guard": "--cfg glaredb_verif",
            "enable": "rustflags --cfg glaredb_verif in /verif/harness/.cargo/config.toml; the harness crate path-depends on /repo/crates/* and /verif/bin/vcheck rebuilds it from /repo's working tree before every check. No guarded source change exists in /repo so far: every check runs against unmodified production code through public traits (PipelineRuntime, FileSystem).",
            "baseline_off_cmd": "/verif/bin/baseline_off.sh /repo",
            "source_commits": [c for c in commits if c and not c.split(" ",1)[1].startswith("fix:")],
            "add_only": True,
        },
        "engines": [{"name": "vharness", "path": "/verif/harness", "serves_properties": sorted(CHECKS), "kind_free_text": "Rust harness that implements GlareDB's PipelineRuntime (it is the scheduler) and FileSystem (it is the OS); bounded exhaustive enumeration of programs x databases x configurations x schedules x faults against a reference model, run in a supervised child process (hang / abort isolation)"}],
        "checks": checks,
        "not_applicable": [{"property_id": i, "reason": "explorer for this property is not committed yet in this snapshot (planned in DESIGN.md); it will be claimed once its check exists"} for i in ids if i not in CHECKS],
        "notes": "fix: commits in /repo: " + "; ".join(c for c in commits if "fix:" in c),
    }
    json.dump(m, open("/verif/MANIFEST.json", "w"), indent=1)
    print("manifest written:", len(checks), "checks,", len(m["not_applicable"]), "not applicable")

main()
