//! E-SCHED/B: exploration of the REAL thread-pool scheduler (`glaredb_rt_native::threaded`):
//! `ThreadedScheduler::spawn_pipelines`, `TaskState::schedule` / worker loop / `execute` and
//! `ThreadedQueryHandle::cancel` run unmodified; hook H2 (cfg glaredb_verif) reports every scheduling
//! point and hands the closures meant for the rayon pool to this explorer, which runs each on its own
//! OS thread but lets exactly one thread run at a time (baton). A thread gives the baton back at every
//! point outside a poll (before locking a task's schedule state in `schedule`, in the worker epilogue
//! and in `cancel`, before locking the pipeline, when the result consumer is about to poll), so the
//! order of all critical sections of the task state machine relative to polls, wake-ups, the consumer
//! and a canceller is under the explorer's control. Exploration is stateless DFS with prefix replay,
//! bounded by the number of preemptions (switching away from a thread that could have continued).
use std::cell::RefCell;
use std::collections::{BTreeMap, BTreeSet};
use std::future::Future;
use std::panic::{AssertUnwindSafe, catch_unwind};
use std::pin::Pin;
use std::sync::atomic::{AtomicBool, AtomicU64, Ordering};
use std::sync::{Arc, Condvar, Mutex};
use std::task::{Context, Poll, Wake, Waker};
use std::time::{Duration, Instant};

use glaredb_core::engine::single_user::SingleUserEngine;
use glaredb_core::runtime::pipeline::QueryHandle;
use glaredb_rt_native::runtime::ThreadedNativeExecutor;
use glaredb_rt_native::threaded::verif as hv;

use crate::drv::{Outcome, Phase, VerifRuntime, extract, install_panic_hook, short_loc, take_panic_pub};
use crate::sched::Shape;
use crate::val::bag;
use crate::vfs::VerifFs;

// ------------------------------------------------------------------ events

#[derive(Clone, Debug, PartialEq, Eq, PartialOrd, Ord)]
pub enum Ev {
    /// (thread, task index, label) - a transition of the task's ScheduleState or a poll result
    T(u16, u16, &'static str, [bool; 4]),
    /// scheduling point reached (thread, task index, point)
    P(u16, u16, u8),
}

#[derive(Clone, Copy, Debug, PartialEq, Eq)]
enum ThState {
    Runnable,
    Parked,
    /// the consumer finished and only waits for quiescence
    Draining,
    Finished,
}

struct Th {
    /// decision number at which the thread last got the baton (fair choice for blocked threads)
    last_run: u64,
    state: ThState,
    depth: u32,
    woken: bool,
    kind: u8, // 0 client, 1 canceller, 2 worker
    task: Option<u16>,
}

#[derive(Clone, Debug)]
pub struct Decision {
    pub enabled: Vec<u16>,
    pub chosen: u16,
    pub cur: u16,
    pub cur_enabled: bool,
}

struct St {
    threads: Vec<Th>,
    current: usize,
    free_run: bool,
    quiescent: bool,
    log: Vec<Ev>,
    tasks: Vec<usize>,
    decisions: Vec<Decision>,
    prefix: Vec<u16>,
    diverged: Option<String>,
    horizon_hit: bool,
    lock_deadlock: bool,
    worker_panic: Option<(String, String)>,
    handles: Vec<std::thread::JoinHandle<()>>,
    last_spawn_task: Option<u16>,
}

pub struct Ctl {
    m: Mutex<St>,
    cv: Condvar,
    /// lock-level mode: every `lock()` of the operator states (hook H1) and of the threaded runtime is a
    /// scheduling point, also inside polls; otherwise only the runtime's locks outside polls are
    fine: bool,
}

thread_local! {
    static CTX: RefCell<Option<(Arc<Ctl>, usize)>> = const { RefCell::new(None) };
}

fn ctx() -> Option<(Arc<Ctl>, usize)> {
    CTX.with(|c| c.borrow().clone())
}

const HORIZON: usize = 20_000;

impl Ctl {
    fn new(prefix: Vec<u16>, fine: bool) -> Arc<Ctl> {
        Arc::new(Ctl {
            fine,
            m: Mutex::new(St {
                threads: vec![Th { last_run: 0, state: ThState::Runnable, depth: 0, woken: false, kind: 0, task: None }],
                current: 0,
                free_run: false,
                quiescent: false,
                log: vec![],
                tasks: vec![],
                decisions: vec![],
                prefix,
                diverged: None,
                horizon_hit: false,
                lock_deadlock: false,
                worker_panic: None,
                handles: vec![],
                last_spawn_task: None,
            }),
            cv: Condvar::new(),
        })
    }

    fn task_idx(st: &mut St, task: usize) -> u16 {
        match st.tasks.iter().position(|t| *t == task) {
            Some(i) => i as u16,
            None => {
                st.tasks.push(task);
                (st.tasks.len() - 1) as u16
            }
        }
    }

    /// Pick the next thread to run. `me` is the deciding thread (it may or may not be runnable).
    fn decide(st: &mut St, me: usize) -> usize {
        Self::decide_ex(st, me, false)
    }

    /// `blocked`: the deciding thread found the lock it wants held by another thread; it cannot continue now.
    fn decide_ex(st: &mut St, me: usize, blocked: bool) -> usize {
        let enabled: Vec<u16> = st.threads.iter().enumerate().filter(|(i, t)| t.state == ThState::Runnable && !(blocked && *i == me)).map(|(i, _)| i as u16).collect();
        if enabled.is_empty() && blocked {
            // the holder of the lock is not runnable: a lock cycle or a lock held by a parked thread
            st.lock_deadlock = true;
            st.free_run = true;
            return me;
        }
        if enabled.is_empty() {
            st.quiescent = true;
            return 0;
        }
        if st.decisions.len() >= HORIZON {
            st.horizon_hit = true;
            st.free_run = true;
            return me;
        }
        let me_enabled = enabled.contains(&(me as u16));
        // default: continue the running thread; a thread that finished / parked hands over to the lowest id; a
        // thread that found its lock held hands over to the runnable thread that has not run for the longest time
        // (the holder of the lock gets its turn after at most one round)
        let default = if me_enabled {
            me as u16
        } else if blocked {
            *enabled.iter().min_by_key(|t| (st.threads[**t as usize].last_run, **t)).unwrap()
        } else {
            enabled[0]
        };
        let i = st.decisions.len();
        let chosen = if i < st.prefix.len() {
            let want = st.prefix[i];
            if enabled.contains(&want) {
                want
            } else {
                if st.diverged.is_none() {
                    st.diverged = Some(format!("decision {i}: prefix wants thread {want}, enabled {enabled:?}"));
                }
                default
            }
        } else {
            default
        };
        st.decisions.push(Decision { enabled, chosen, cur: me as u16, cur_enabled: me_enabled });
        let now = st.decisions.len() as u64;
        st.threads[chosen as usize].last_run = now;
        chosen as usize
    }

    /// Give the baton to `next` and wait until it comes back to `me`.
    fn hand_over<'a>(&'a self, mut st: std::sync::MutexGuard<'a, St>, me: usize, next: usize) -> std::sync::MutexGuard<'a, St> {
        if next != me {
            st.current = next;
            self.cv.notify_all();
            while st.current != me && !st.free_run {
                st = self.cv.wait(st).unwrap();
            }
        }
        st
    }

    fn yield_point(&self, me: usize) {
        let mut st = self.m.lock().unwrap();
        if st.free_run {
            return;
        }
        let next = Self::decide(&mut st, me);
        let _st = self.hand_over(st, me, next);
    }

    fn on_point(&self, me: usize, p: hv::Point, task: usize, _arg: usize) {
        let yield_now;
        {
            let mut st = self.m.lock().unwrap();
            if st.free_run {
                return;
            }
            let ti = if p == hv::Point::Lock { u16::MAX } else { Self::task_idx(&mut st, task) };
            st.log.push(Ev::P(me as u16, ti, p as u8));
            match p {
                hv::Point::PollBegin => {
                    st.threads[me].depth += 1;
                    st.threads[me].task = Some(ti);
                    st.log.push(Ev::T(me as u16, ti, "PollBegin", [false; 4]));
                    yield_now = false;
                }
                hv::Point::PollEnd => {
                    st.threads[me].depth -= 1;
                    let l = match _arg {
                        1 => "PollDone",
                        2 => "PollErr",
                        _ => "PollPending",
                    };
                    st.log.push(Ev::T(me as u16, ti, l, [false; 4]));
                    yield_now = false;
                }
                hv::Point::WorkerExit => yield_now = false,
                _ => yield_now = st.threads[me].depth == 0,
            }
        }
        if yield_now {
            self.yield_point(me);
        }
    }

    /// A mutex is about to be locked (`blocked`: it was found held). `core`: an operator-state mutex (H1).
    fn on_lock(&self, me: usize, _addr: usize, blocked: bool, core: bool) {
        let mut st = self.m.lock().unwrap();
        if st.free_run {
            return;
        }
        if !self.fine {
            // thread-level mode: only the runtime's own locks, outside polls
            if core || st.threads[me].depth > 0 {
                return;
            }
        }
        let next = Self::decide_ex(&mut st, me, blocked);
        let _st = self.hand_over(st, me, next);
    }

    fn on_transition(&self, me: usize, t: hv::Transition, task: usize, flags: [bool; 4]) {
        let mut st = self.m.lock().unwrap();
        if st.free_run {
            return;
        }
        let ti = Self::task_idx(&mut st, task);
        let l = match t {
            hv::Transition::ScheduleCompleted => "ScheduleCompleted",
            hv::Transition::ScheduleCanceled => "ScheduleCanceled",
            hv::Transition::SchedulePending => "SchedulePending",
            hv::Transition::ScheduleSpawn => "ScheduleSpawn",
            hv::Transition::EpilogueContinue => "EpilogueContinue",
            hv::Transition::EpilogueCompletedBreak => "EpilogueCompletedBreak",
            hv::Transition::EpilogueStop => "EpilogueStop",
            hv::Transition::CancelSet => "CancelSet",
        };
        if t == hv::Transition::ScheduleSpawn {
            st.last_spawn_task = Some(ti);
        }
        st.log.push(Ev::T(me as u16, ti, l, flags));
    }

    /// A closure was handed to the pool: run it on a new controlled thread.
    fn on_spawn(self: &Arc<Self>, job: hv::Job) -> Option<hv::Job> {
        let mut st = self.m.lock().unwrap();
        if st.free_run {
            return Some(job);
        }
        let id = st.threads.len();
        let task = st.last_spawn_task.take();
        st.threads.push(Th { last_run: 0, state: ThState::Runnable, depth: 0, woken: false, kind: 2, task });
        let ctl = self.clone();
        let h = std::thread::Builder::new()
            .stack_size(8 << 20)
            .spawn(move || {
                crate::drv::set_quiet(true);
                CTX.with(|c| *c.borrow_mut() = Some((ctl.clone(), id)));
                {
                    let mut st = ctl.m.lock().unwrap();
                    while st.current != id && !st.free_run {
                        st = ctl.cv.wait(st).unwrap();
                    }
                }
                let r = catch_unwind(AssertUnwindSafe(job));
                let mut st = ctl.m.lock().unwrap();
                if r.is_err() {
                    let (loc, msg) = take_panic_pub();
                    if st.worker_panic.is_none() {
                        st.worker_panic = Some((short_loc(&loc), msg));
                    }
                }
                st.threads[id].state = ThState::Finished;
                if !st.free_run {
                    let next = Ctl::decide(&mut st, id);
                    st.current = next;
                }
                ctl.cv.notify_all();
                CTX.with(|c| *c.borrow_mut() = None);
            })
            .expect("spawn controlled thread");
        st.handles.push(h);
        None
    }

    fn wake_client(&self) {
        let mut st = self.m.lock().unwrap();
        st.threads[0].woken = true;
        if st.threads[0].state == ThState::Parked {
            st.threads[0].state = ThState::Runnable;
        }
    }
}

struct ClientWaker(Arc<Ctl>);
impl Wake for ClientWaker {
    fn wake(self: Arc<Self>) {
        self.0.wake_client();
    }
    fn wake_by_ref(self: &Arc<Self>) {
        self.0.wake_client();
    }
}

fn hook_point(p: hv::Point, task: usize, arg: usize) {
    if let Some((ctl, me)) = ctx() {
        ctl.on_point(me, p, task, arg);
    }
}
fn hook_spawn(job: hv::Job) -> Option<hv::Job> {
    match ctx() {
        Some((ctl, _)) => ctl.on_spawn(job),
        None => Some(job),
    }
}
fn hook_lock_rt(addr: usize, blocked: bool) -> bool {
    match ctx() {
        Some((ctl, me)) => {
            ctl.on_lock(me, addr, blocked, false);
            true
        }
        None => false,
    }
}
fn hook_lock_core(addr: usize, blocked: bool) -> bool {
    match ctx() {
        Some((ctl, me)) if ctl.fine => {
            ctl.on_lock(me, addr, blocked, true);
            // a free-running tear-down must block like production code
            !ctl.m.lock().unwrap().free_run
        }
        _ => false,
    }
}
fn hook_transition(t: hv::Transition, task: usize, flags: [bool; 4]) {
    if let Some((ctl, me)) = ctx() {
        ctl.on_transition(me, t, task, flags);
    }
}

pub fn install_hooks() {
    static ONCE: std::sync::Once = std::sync::Once::new();
    ONCE.call_once(|| {
        hv::install(hv::Hooks { point: hook_point, spawn: hook_spawn, transition: hook_transition, lock: hook_lock_rt });
        glaredb_core::util::verif_sync::install(hook_lock_core);
    });
}

// ------------------------------------------------------------------ driver on the real scheduler

pub struct ThrDriver {
    pub sue: SingleUserEngine<ThreadedNativeExecutor, VerifRuntime>,
    pub fs: VerifFs,
    pub dirty: bool,
}

#[derive(Clone, Debug)]
pub struct ThrObs {
    pub outcome: Outcome,
    pub observed: Vec<Outcome>,
    pub decisions: Vec<Decision>,
    pub log: Vec<Ev>,
    pub n_threads: usize,
    pub n_tasks: usize,
    pub diverged: Option<String>,
    pub cancel_done_while_incomplete: bool,
    pub canceled: bool,
}

type ClientOut = Result<(glaredb_core::arrays::field::ColumnSchema, Vec<glaredb_core::arrays::batch::Batch>), glaredb_error::DbError>;

impl ThrDriver {
    pub fn new() -> ThrDriver {
        install_panic_hook();
        install_hooks();
        let fs = VerifFs::new();
        let rt = VerifRuntime::for_fs(fs.clone());
        // the pool's own thread only serves uncontrolled statements (setup / observation)
        let exec = ThreadedNativeExecutor::try_new_with_num_threads(1).expect("executor");
        let sue = SingleUserEngine::try_new(exec, rt).expect("engine");
        sue.register_extension(glaredb_ext_csv::extension::CsvExtension).expect("csv ext");
        sue.register_extension(glaredb_ext_parquet::extension::ParquetExtension).expect("parquet ext");
        ThrDriver { sue, fs, dirty: false }
    }

    /// Run a statement on the free-running pool (production behaviour), blocking.
    pub fn q_free(&mut self, sql: &str) -> Outcome {
        let s = self.sue.session().clone();
        let sql = sql.to_string();
        let r = catch_unwind(AssertUnwindSafe(|| {
            futures::executor::block_on(async move {
                let mut r = s.query(&sql).await?;
                let schema = r.output_schema.clone();
                let batches = r.output.collect().await?;
                Ok::<_, glaredb_error::DbError>((schema, batches))
            })
        }));
        match r {
            Ok(Ok((schema, batches))) => match extract(&schema, &batches) {
                Ok(rows) => Outcome::Rows(rows),
                Err(e) => Outcome::Error { phase: Phase::Exec, msg: e.to_string() },
            },
            Ok(Err(e)) => Outcome::Error { phase: Phase::Exec, msg: e.to_string() },
            Err(_) => {
                let (loc, msg) = take_panic_pub();
                self.dirty = true;
                Outcome::Panic { loc: short_loc(&loc), msg }
            }
        }
    }

    pub fn must(&mut self, sql: &str) {
        let o = self.q_free(sql);
        if !o.is_rows() {
            panic!("harness setup statement failed: {sql}: {}", o.brief());
        }
    }

    /// Execute `sql` under the controlled scheduler following `prefix`, with an optional canceller thread.
    pub fn run(&mut self, sql: &str, prefix: &[u16], with_cancel: bool) -> ThrObs {
        self.run_mode(sql, prefix, with_cancel, false)
    }

    pub fn run_mode(&mut self, sql: &str, prefix: &[u16], with_cancel: bool, fine: bool) -> ThrObs {
        let ctl = Ctl::new(prefix.to_vec(), fine);
        CTX.with(|c| *c.borrow_mut() = Some((ctl.clone(), 0)));
        let s = self.sue.session().clone();
        let sqls = sql.to_string();
        let ctl2 = ctl.clone();
        let mut fut: Pin<Box<dyn Future<Output = ClientOut>>> = Box::pin(async move {
            let mut r = s.query(&sqls).await?;
            if with_cancel {
                // the canceller is a thread of its own: it may run at any later scheduling point
                let handle: Arc<dyn QueryHandle> = r.output.query_handle();
                let mut st = ctl2.m.lock().unwrap();
                let id = st.threads.len();
                st.threads.push(Th { last_run: 0, state: ThState::Runnable, depth: 0, woken: false, kind: 1, task: None });
                let ctl3 = ctl2.clone();
                let h = std::thread::spawn(move || {
                    crate::drv::set_quiet(true);
                    CTX.with(|c| *c.borrow_mut() = Some((ctl3.clone(), id)));
                    {
                        let mut st = ctl3.m.lock().unwrap();
                        while st.current != id && !st.free_run {
                            st = ctl3.cv.wait(st).unwrap();
                        }
                    }
                    let _ = catch_unwind(AssertUnwindSafe(|| handle.cancel()));
                    let mut st = ctl3.m.lock().unwrap();
                    st.threads[id].state = ThState::Finished;
                    st.log.push(Ev::T(id as u16, u16::MAX, "CancelReturned", [false; 4]));
                    if !st.free_run {
                        let next = Ctl::decide(&mut st, id);
                        st.current = next;
                    }
                    ctl3.cv.notify_all();
                    CTX.with(|c| *c.borrow_mut() = None);
                });
                st.handles.push(h);
            }
            let schema = r.output_schema.clone();
            let batches = r.output.collect().await?;
            Ok((schema, batches))
        });
        let waker: Waker = Arc::new(ClientWaker(ctl.clone())).into();
        let mut cx = Context::from_waker(&waker);
        let mut outcome: Option<Outcome> = None;
        let mut res: Option<ClientOut> = None;
        let mut first = true;
        loop {
            if !first {
                // the consumer is about to poll: a scheduling point
                ctl.yield_point(0);
            }
            first = false;
            {
                let mut st = ctl.m.lock().unwrap();
                if st.free_run {
                    if st.horizon_hit {
                        outcome = Some(Outcome::Hang { detail: format!("decision horizon {HORIZON} reached (livelock)") });
                    }
                    if st.lock_deadlock {
                        outcome = Some(Outcome::Hang { detail: "a thread waits for a lock whose holder cannot run (lock cycle)".into() });
                    }
                    break;
                }
                st.threads[0].depth = 1;
                st.threads[0].woken = false;
                st.log.push(Ev::T(0, u16::MAX, "ClientPoll", [false; 4]));
            }
            let r = catch_unwind(AssertUnwindSafe(|| fut.as_mut().poll(&mut cx)));
            {
                let mut st = ctl.m.lock().unwrap();
                st.threads[0].depth = 0;
            }
            match r {
                Ok(Poll::Ready(x)) => {
                    res = Some(x);
                    break;
                }
                Ok(Poll::Pending) => {
                    // park until woken
                    let mut st = ctl.m.lock().unwrap();
                    if st.threads[0].woken {
                        continue;
                    }
                    st.threads[0].state = ThState::Parked;
                    let next = Ctl::decide(&mut st, 0);
                    if st.quiescent {
                        let parked: Vec<String> = st.threads.iter().enumerate().filter(|(_, t)| t.state != ThState::Finished).map(|(i, t)| format!("thread {i} kind {} task {:?}", t.kind, t.task)).collect();
                        outcome = Some(Outcome::Hang { detail: format!("no runnable thread while the result consumer waits (lost wake-up); alive: {parked:?}") });
                        break;
                    }
                    st = ctl.hand_over(st, 0, next);
                    if st.free_run {
                        if st.horizon_hit {
                            outcome = Some(Outcome::Hang { detail: format!("decision horizon {HORIZON} reached (livelock)") });
                        }
                        if st.lock_deadlock {
                            outcome = Some(Outcome::Hang { detail: "a thread waits for a lock whose holder cannot run (lock cycle)".into() });
                        }
                        break;
                    }
                    if st.threads[0].state == ThState::Parked {
                        // baton came back because nothing else can run
                        let parked: Vec<String> = st.threads.iter().enumerate().filter(|(_, t)| t.state != ThState::Finished).map(|(i, t)| format!("thread {i} kind {} task {:?}", t.kind, t.task)).collect();
                        outcome = Some(Outcome::Hang { detail: format!("no runnable thread while the result consumer waits (lost wake-up); alive: {parked:?}") });
                        break;
                    }
                }
                Err(_) => {
                    let (loc, msg) = take_panic_pub();
                    outcome = Some(Outcome::Panic { loc: short_loc(&loc), msg });
                    std::mem::forget(fut);
                    fut = Box::pin(async { Err(glaredb_error::DbError::new("dropped")) });
                    break;
                }
            }
        }
        // drain: run the remaining threads to quiescence (what the pool would do)
        if outcome.is_none() {
            let mut st = ctl.m.lock().unwrap();
            st.threads[0].state = ThState::Draining;
            loop {
                if st.free_run {
                    break;
                }
                let next = Ctl::decide(&mut st, 0);
                if st.quiescent {
                    break;
                }
                st = ctl.hand_over(st, 0, next);
                if st.quiescent {
                    break;
                }
            }
        }
        // tear down: whatever is still alive runs free, then join
        let handles = {
            let mut st = ctl.m.lock().unwrap();
            st.free_run = true;
            ctl.cv.notify_all();
            std::mem::take(&mut st.handles)
        };
        for h in handles {
            let _ = h.join();
        }
        CTX.with(|c| *c.borrow_mut() = None);
        drop(fut);
        let mut st = ctl.m.lock().unwrap();
        if let Some((loc, msg)) = st.worker_panic.take() {
            outcome = Some(Outcome::Panic { loc, msg });
        }
        let outcome = match (outcome, res) {
            (Some(o), _) => {
                self.dirty = true;
                o
            }
            (None, Some(Ok((schema, batches)))) => match catch_unwind(AssertUnwindSafe(|| extract(&schema, &batches))) {
                Ok(Ok(rows)) => Outcome::Rows(rows),
                Ok(Err(e)) => Outcome::Error { phase: Phase::Exec, msg: format!("result extraction: {e}") },
                Err(_) => {
                    let (loc, msg) = take_panic_pub();
                    self.dirty = true;
                    Outcome::Panic { loc: short_loc(&loc), msg }
                }
            },
            (None, Some(Err(e))) => Outcome::Error { phase: Phase::Exec, msg: e.to_string() },
            (None, None) => {
                self.dirty = true;
                Outcome::Hang { detail: "consumer loop ended without a result".into() }
            }
        };
        // cancel oracle input: was some task incomplete when the first CancelSet happened?
        let mut completed: BTreeSet<u16> = BTreeSet::new();
        let mut cancel_incomplete = false;
        let mut reported = false;
        let mut canceled = false;
        let mut seen_tasks: BTreeSet<u16> = BTreeSet::new();
        for e in &st.log {
            if let Ev::T(_, t, l, f) = e {
                if *t != u16::MAX {
                    seen_tasks.insert(*t);
                }
                match *l {
                    // the cancellation was handed to the error sink ...
                    "ScheduleCanceled" => reported = true,
                    // ... and the consumer polled the stream afterwards: that poll must see the error
                    "ClientPoll" if reported => cancel_incomplete = true,
                    "PollDone" => {
                        completed.insert(*t);
                    }
                    "CancelSet" => {
                        canceled = true;
                        let _ = (f, &completed);
                    }
                    _ => {}
                }
            }
        }
        ThrObs { outcome, observed: vec![], decisions: std::mem::take(&mut st.decisions), log: std::mem::take(&mut st.log), n_threads: st.threads.len(), n_tasks: seen_tasks.len(), diverged: st.diverged.take(), cancel_done_while_incomplete: cancel_incomplete, canceled }
    }
}

// ------------------------------------------------------------------ per-task invariants on the log

/// Checks the task state machine's safety properties on one execution's event log.
pub fn check_log(log: &[Ev]) -> Option<(String, String)> {
    let mut live: BTreeMap<u16, i32> = BTreeMap::new();
    let mut done: BTreeSet<u16> = BTreeSet::new();
    let mut polling: BTreeMap<u16, u16> = BTreeMap::new();
    for (i, e) in log.iter().enumerate() {
        if let Ev::T(th, t, l, f) = e {
            match *l {
                "ScheduleSpawn" => {
                    let c = live.entry(*t).or_insert(0);
                    *c += 1;
                    if *c > 1 {
                        return Some(("two-workers-for-one-task".into(), format!("event {i}: task {t} got a second worker while one is alive")));
                    }
                }
                "EpilogueStop" | "EpilogueCompletedBreak" => {
                    *live.entry(*t).or_insert(0) -= 1;
                }
                "PollBegin" => {
                    if done.contains(t) {
                        return Some(("finished-task-run-again".into(), format!("event {i}: task {t} polled after it completed")));
                    }
                    if let Some(o) = polling.get(t) {
                        if o != th {
                            return Some(("concurrent-polls-of-one-task".into(), format!("event {i}: task {t} polled by threads {o} and {th}")));
                        }
                    }
                    polling.insert(*t, *th);
                }
                "PollDone" => {
                    done.insert(*t);
                    polling.remove(t);
                }
                "PollPending" | "PollErr" => {
                    polling.remove(t);
                }
                _ => {}
            }
            // flags: running, pending, completed, canceled
            if matches!(*l, "ScheduleSpawn" | "SchedulePending" | "EpilogueContinue" | "EpilogueStop" | "EpilogueCompletedBreak") {
                let alive = live.get(t).copied().unwrap_or(0) > 0;
                if f[1] && !f[0] {
                    return Some(("pending-without-running".into(), format!("event {i}: task {t} {l} left pending set while not running")));
                }
                if *l != "EpilogueCompletedBreak" && f[0] != alive {
                    return Some(("running-flag-disagrees-with-live-worker".into(), format!("event {i}: task {t} {l}: running={} live worker={alive}", f[0])));
                }
            }
        }
    }
    None
}

/// Per-task event sequences (the implementation traces checked against the TLA+ model).
pub fn task_traces(log: &[Ev]) -> BTreeMap<u16, Vec<(&'static str, [bool; 4])>> {
    let mut m: BTreeMap<u16, Vec<(&'static str, [bool; 4])>> = BTreeMap::new();
    for e in log {
        if let Ev::T(_, t, l, f) = e {
            if *t != u16::MAX {
                m.entry(*t).or_default().push((*l, *f));
            }
        }
    }
    m
}

// ------------------------------------------------------------------ explorer

pub struct ThrCfg {
    /// maximum number of non-default choices (the default continues the running thread, else the lowest id)
    pub max_dev: usize,
    /// of which at most this many switch away from a thread that could have continued
    pub max_preempt: usize,
    pub wall_cap: Duration,
    pub exec_cap: u64,
    pub threads: usize,
    pub with_cancel: bool,
    /// lock-level mode (see Ctl::fine)
    pub fine: bool,
}

#[derive(Clone, Debug)]
pub struct ThrViolation {
    pub class: String,
    pub schedule: Vec<u16>,
    pub expected: String,
    pub observed: String,
}

#[derive(Default)]
pub struct ThrResult {
    pub executions: u64,
    pub decisions: u64,
    pub max_len: usize,
    pub max_threads: usize,
    pub n_tasks: usize,
    pub complete: bool,
    pub distinct_outcomes: usize,
    pub distinct_task_traces: BTreeMap<Vec<(&'static str, [bool; 4])>, Vec<u16>>,
    pub violations: Vec<ThrViolation>,
    pub machinery: Vec<String>,
    pub cancel_error_runs: u64,
    pub cancel_late_runs: u64,
    pub sample: Option<String>,
}

fn canon(shape: &Shape, o: &Outcome) -> String {
    match o {
        Outcome::Rows(r) => {
            if shape.ordered {
                format!("rows:{:?}:{}", r.types, crate::val::fmt_rows(&r.rows, 100000))
            } else if shape.limit_of.is_some() {
                format!("rows:{:?}:n={}", r.types, r.rows.len())
            } else {
                format!("rows:{:?}:{}", r.types, crate::val::fmt_rows(&bag(&r.rows), 100000))
            }
        }
        Outcome::Error { .. } => "error".into(),
        o => o.brief(),
    }
}

fn prepare(d: &mut ThrDriver, shape: &Shape) {
    for s in &shape.setup {
        d.must(s);
    }
}

fn exec_one(d: &mut ThrDriver, shape: &Shape, prefix: &[u16], with_cancel: bool, fine: bool) -> ThrObs {
    for s in &shape.per_run {
        let _ = d.q_free(s);
    }
    // a thread that blocks for good inside the engine (self-deadlock on a real lock) stops the whole
    // execution: the process-level guard records it and the next attempt reports it as a hang
    let key = format!("thr|{}|{}|{:?}|cancel={with_cancel}|fine={fine}", shape.name, shape.query, prefix);
    if crate::guard::skipped(&key, 0).is_some() {
        d.dirty = true;
        return ThrObs {
            outcome: Outcome::Hang { detail: "a thread blocked inside the engine while no other thread could run (wall limit; recorded by the watchdog in an earlier attempt)".into() },
            observed: vec![],
            decisions: prefix.iter().map(|c| Decision { enabled: vec![*c], chosen: *c, cur: *c, cur_enabled: true }).collect(),
            log: vec![],
            n_threads: 0,
            n_tasks: 0,
            diverged: None,
            cancel_done_while_incomplete: false,
            canceled: false,
        };
    }
    crate::guard::enter(&key, 0);
    let mut o = d.run_mode(&shape.query, prefix, with_cancel, fine);
    crate::guard::leave();
    if !d.dirty {
        for s in &shape.observe {
            o.observed.push(d.q_free(s));
        }
    }
    o
}

struct Work {
    prefix: Vec<u16>,
    preempt: usize,
    devs: usize,
}

pub fn explore(shape: &Shape, cfg: &ThrCfg) -> ThrResult {
    let start = Instant::now();
    let mut res = ThrResult::default();
    let mut d0 = ThrDriver::new();
    prepare(&mut d0, shape);
    let r1 = exec_one(&mut d0, shape, &[], cfg.with_cancel, cfg.fine);
    if d0.dirty {
        d0 = ThrDriver::new();
        prepare(&mut d0, shape);
    }
    let r2 = exec_one(&mut d0, shape, &[], cfg.with_cancel, cfg.fine);
    let tr = |o: &ThrObs| o.decisions.iter().map(|d| d.chosen).collect::<Vec<u16>>();
    if tr(&r1) != tr(&r2) || r1.log != r2.log || canon(shape, &r1.outcome) != canon(shape, &r2.outcome) {
        res.machinery.push(format!("shape {}: the default thread schedule is not reproducible ({} vs {} decisions, {} vs {} events)", shape.name, r1.decisions.len(), r2.decisions.len(), r1.log.len(), r2.log.len()));
        return res;
    }
    res.n_tasks = r1.n_tasks;
    // reference result: the free-running pool (production) result of the same statement
    let ref_canon = if cfg.with_cancel { String::new() } else { canon(shape, &r1.outcome) };
    let ref_obs: Vec<String> = r1.observed.iter().map(|o| canon(shape, o)).collect();
    drop(d0);

    let queue: Mutex<Vec<Work>> = Mutex::new(vec![Work { prefix: vec![], preempt: 0, devs: 0 }]);
    let inflight = AtomicU64::new(0);
    let stop = AtomicBool::new(false);
    let capped = AtomicBool::new(false);
    let executions = AtomicU64::new(0);
    let decisions = AtomicU64::new(0);
    struct Shared {
        outcomes: BTreeSet<String>,
        traces: BTreeMap<Vec<(&'static str, [bool; 4])>, Vec<u16>>,
        viol: Vec<ThrViolation>,
        mach: Vec<String>,
        max_len: usize,
        max_threads: usize,
        cancel_err: u64,
        cancel_late: u64,
        sample: Option<String>,
    }
    let shared = Mutex::new(Shared { outcomes: BTreeSet::new(), traces: BTreeMap::new(), viol: vec![], mach: vec![], max_len: 0, max_threads: 0, cancel_err: 0, cancel_late: 0, sample: None });
    std::thread::scope(|sc| {
        for _ in 0..cfg.threads.max(1) {
            sc.spawn(|| {
                crate::drv::set_quiet(true);
                let mut d = ThrDriver::new();
                prepare(&mut d, shape);
                loop {
                    if stop.load(Ordering::SeqCst) {
                        break;
                    }
                    let w = {
                        let mut q = queue.lock().unwrap();
                        let w = q.pop();
                        if w.is_some() {
                            inflight.fetch_add(1, Ordering::SeqCst);
                        }
                        w
                    };
                    let w = match w {
                        Some(w) => w,
                        None => {
                            if inflight.load(Ordering::SeqCst) == 0 {
                                break;
                            }
                            std::thread::sleep(Duration::from_micros(200));
                            continue;
                        }
                    };
                    if d.dirty {
                        d = ThrDriver::new();
                        prepare(&mut d, shape);
                    }
                    let obs = exec_one(&mut d, shape, &w.prefix, cfg.with_cancel, cfg.fine);
                    let n = executions.fetch_add(1, Ordering::SeqCst) + 1;
                    decisions.fetch_add(obs.decisions.len() as u64, Ordering::SeqCst);
                    if n >= cfg.exec_cap || start.elapsed() > cfg.wall_cap {
                        capped.store(true, Ordering::SeqCst);
                        stop.store(true, Ordering::SeqCst);
                    }
                    let mut viol: Option<(String, String, String)> = None;
                    if let Some(dv) = &obs.diverged {
                        shared.lock().unwrap().mach.push(format!("shape {}: divergence while replaying prefix {:?}: {dv}", shape.name, w.prefix));
                    } else {
                        let c = canon(shape, &obs.outcome);
                        let task_err = obs.log.iter().any(|e| matches!(e, Ev::T(_, _, "PollErr", _)));
                        match &obs.outcome {
                            Outcome::Panic { loc, msg } => viol = Some((crate::infra::panic_class(loc, msg), "no panic".into(), obs.outcome.brief())),
                            Outcome::Hang { detail } => viol = Some(("hang".into(), "terminates (no lost wake-up)".into(), detail.clone())),
                            Outcome::Abort { detail } => viol = Some(("abort".into(), "no abort".into(), detail.clone())),
                            _ => {
                                if let Some((cl, det)) = check_log(&obs.log) {
                                    viol = Some((cl, "task state machine invariants".into(), det));
                                } else if task_err && !obs.outcome.is_error() {
                                    viol = Some(("error-lost".into(), "a task error reaches the client".into(), obs.outcome.brief()));
                                } else if cfg.with_cancel {
                                    if obs.cancel_done_while_incomplete && !obs.outcome.is_error() {
                                        viol = Some(("cancel-without-error".into(), "the cancellation was reported to the result stream (a task was incomplete) before the consumer polled it again: the stream ends with an error".into(), obs.outcome.brief()));
                                    }
                                } else if c != ref_canon {
                                    viol = Some(("result-differs".into(), ref_canon.chars().take(300).collect(), obs.outcome.brief()));
                                } else if shape.expect_error && !obs.outcome.is_error() {
                                    viol = Some(("missing-error".into(), "error".into(), obs.outcome.brief()));
                                } else {
                                    let oc: Vec<String> = obs.observed.iter().map(|o| canon(shape, o)).collect();
                                    if oc != ref_obs {
                                        viol = Some(("effect-differs".into(), format!("{ref_obs:?}"), format!("{oc:?}")));
                                    }
                                }
                            }
                        }
                        let mut sh = shared.lock().unwrap();
                        sh.outcomes.insert(c);
                        for (_, t) in task_traces(&obs.log) {
                            sh.traces.entry(t).or_insert_with(|| obs.decisions.iter().map(|d| d.chosen).collect());
                        }
                        sh.max_len = sh.max_len.max(obs.decisions.len());
                        sh.max_threads = sh.max_threads.max(obs.n_threads);
                        if cfg.with_cancel {
                            if obs.outcome.is_error() {
                                sh.cancel_err += 1;
                            } else {
                                sh.cancel_late += 1;
                            }
                        }
                        if sh.sample.is_none() || n % 1009 == 0 {
                            sh.sample = Some(obs.decisions.iter().map(|d| d.chosen.to_string()).collect::<Vec<_>>().join(","));
                        }
                        if let Some((class, expected, observed)) = viol {
                            if sh.viol.len() < 50 {
                                sh.viol.push(ThrViolation { class, schedule: obs.decisions.iter().map(|d| d.chosen).collect(), expected, observed });
                            }
                        }
                        drop(sh);
                        // children
                        let mut children = Vec::new();
                        let mut pre = w.preempt;
                        // preemptions inside the prefix are already counted in w.preempt; count along the default tail
                        for i in w.prefix.len()..obs.decisions.len() {
                            let dcs = &obs.decisions[i];
                            for &alt in &dcs.enabled {
                                if alt == dcs.chosen {
                                    continue;
                                }
                                let cost = pre + if dcs.cur_enabled && alt != dcs.cur { 1 } else { 0 };
                                if cost <= cfg.max_preempt && w.devs + 1 <= cfg.max_dev {
                                    let mut p: Vec<u16> = obs.decisions[..i].iter().map(|d| d.chosen).collect();
                                    p.push(alt);
                                    children.push(Work { prefix: p, preempt: cost, devs: w.devs + 1 });
                                }
                            }
                            if dcs.cur_enabled && dcs.chosen != dcs.cur {
                                pre += 1;
                            }
                        }
                        if !children.is_empty() {
                            queue.lock().unwrap().extend(children);
                        }
                    }
                    inflight.fetch_sub(1, Ordering::SeqCst);
                }
            });
        }
    });
    let sh = shared.into_inner().unwrap();
    res.executions = executions.load(Ordering::SeqCst);
    res.decisions = decisions.load(Ordering::SeqCst);
    res.max_len = sh.max_len;
    res.max_threads = sh.max_threads;
    res.complete = !capped.load(Ordering::SeqCst);
    res.distinct_outcomes = sh.outcomes.len();
    res.distinct_task_traces = sh.traces;
    res.violations = sh.viol;
    res.machinery.extend(sh.mach);
    res.cancel_error_runs = sh.cancel_err;
    res.cancel_late_runs = sh.cancel_late;
    res.sample = sh.sample;
    res
}
