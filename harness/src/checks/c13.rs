//! C13 - casts are exact-or-error and text round-trips every value.
use std::collections::BTreeSet;

use glaredb_core::arrays::datatype::DataTypeId as T;
use serde_json::json;

use super::rel::outcome_fail_class;
use crate::drv::{Driver, Outcome};
use crate::fnreg;
use crate::infra::{Replay, Report, Tier, par_run};
use crate::val::Val;

#[derive(Default)]
struct Res {
    evals: u64,
    nontrivial: u64,
    unsupported_pairs: BTreeSet<String>,
    rules: BTreeSet<String>,
    outcomes: BTreeSet<String>,
    fails: Vec<(String, Replay)>,
}

fn fail(res: &mut Res, key: String, sql: &str, expected: String, observed: String, note: &str) {
    res.fails.push((key, Replay { check: "C13".into(), steps: vec![(0, sql.to_string())], expected, observed, note: note.to_string(), ..Default::default() }));
}

const TYPES: [T; 17] = [T::Boolean, T::Int8, T::Int16, T::Int32, T::Int64, T::UInt8, T::UInt16, T::UInt32, T::UInt64, T::Float16, T::Float32, T::Float64, T::Decimal64, T::Decimal128, T::Utf8, T::Date32, T::Interval];

fn int_range(t: T) -> Option<(i128, i128)> {
    Some(match t {
        T::Int8 => (-128, 127),
        T::Int16 => (-32768, 32767),
        T::Int32 => (i32::MIN as i128, i32::MAX as i128),
        T::Int64 => (i64::MIN as i128, i64::MAX as i128),
        T::UInt8 => (0, 255),
        T::UInt16 => (0, 65535),
        T::UInt32 => (0, u32::MAX as i128),
        T::UInt64 => (0, u64::MAX as i128),
        _ => return None,
    })
}

fn dec_ps(t: T) -> Option<(u32, u32)> {
    match t {
        T::Decimal64 => Some((9, 2)),
        T::Decimal128 => Some((28, 4)),
        _ => None,
    }
}

/// source expressions for a type: the value alphabet plus conversion-specific edge values
fn sources(t: T) -> Vec<String> {
    let mut v = fnreg::alphabet(t, false).unwrap_or_default();
    let ty = fnreg::sql_type(t).unwrap_or("INT");
    let extra: Vec<&str> = match t {
        T::Float64 | T::Float32 => vec!["0.5", "1.5", "2.5", "-0.5", "-1.5", "-2.5", "0.4999", "127.5", "127.9", "128.0", "-128.9", "-129.0", "255.9", "256.0", "-0.9", "32767.5", "32768.0", "65535.9", "2147483647.0", "2147483648.0", "-2147483648.9", "-2147483649.0", "4294967295.9", "'9223372036854775807'", "'9223372036854775808'", "'1e19'", "'-1e19'", "'1.8446744073709552e19'", "0.005", "0.015", "0.025", "99999999.995", "1234567.891", "'-Infinity'", "'NaN'"],
        T::Float16 => vec!["0.5", "1.5", "2.5", "-2.5", "127.5", "128.0", "255.5", "256.0", "2048", "65504"],
        T::Decimal64 => vec!["'0.05'", "'0.15'", "'0.25'", "'-0.05'", "'-0.15'", "'0.50'", "'1.50'", "'2.50'", "'-2.50'", "'127.49'", "'127.50'", "'255.50'", "'9999999.99'", "'-9999999.99'", "'32767.50'", "'0.49'", "'0.51'"],
        T::Decimal128 => vec!["'0.0005'", "'0.0015'", "'0.0050'", "'-0.0050'", "'0.5000'", "'2.5000'", "'-2.5000'", "'999999999999999999999999.9999'", "'9223372036854775807.5000'", "'12345.6789'"],
        T::Int64 => vec!["9007199254740993", "-9007199254740993", "16777217", "4294967296", "2147483648", "-2147483649", "32768", "256", "128", "999999999", "1000000000", "99999999999999999"],
        T::Int32 => vec!["16777217", "32768", "-32769", "256", "128", "-129", "9999999", "10000000"],
        T::Int16 => vec!["256", "128", "-129", "255"],
        T::UInt64 => vec!["9223372036854775808", "9007199254740993", "4294967296"],
        T::UInt32 => vec!["2147483648", "16777217", "65536"],
        T::UInt16 => vec!["32768", "256"],
        T::UInt8 => vec!["128", "127"],
        T::Utf8 => vec!["'0'", "'-0'", "'+12'", "' 12'", "'12 '", "'1e2'", "'12abc'", "'0x10'", "'1.5'", "'-1.5'", "'.5'", "'5.'", "'NaN'", "'nan'", "'Infinity'", "'inf'", "'-inf'", "'true'", "'false'", "'t'", "'TRUE'", "'2024-02-29'", "'2023-02-29'", "'1970-01-01'", "'0001-01-01'", "'9999-12-31'", "'99999999999999999999999999'", "'127'", "'128'", "'-129'", "'255'", "'256'", "'1 day'", "'1.005'", "'0.125'", "'999999999.999'"],
        T::Date32 => vec!["'2000-02-29'", "'1900-02-28'", "'1900-03-01'", "'1969-12-31'", "'2023-12-31'"],
        _ => vec![],
    };
    for e in extra {
        if t == T::Utf8 {
            v.push(e.to_string());
        } else {
            v.push(format!("CAST({e} AS {ty})"));
        }
    }
    v
}

fn pow10(n: u32) -> i128 {
    10i128.pow(n)
}

/// exact value of a source Val as (sign-aware) decimal: unscaled, scale — only for ints/decimals
fn as_exact(v: &Val) -> Option<(i128, u32)> {
    match v {
        Val::Int(i) => Some((*i, 0)),
        Val::Dec(u, _, s) => Some((*u, *s as u32)),
        Val::Bool(b) => Some((*b as i128, 0)),
        _ => None,
    }
}

fn round_half_away(u: i128, from: u32, to: u32) -> Option<i128> {
    if to >= from {
        return u.checked_mul(pow10(to - from));
    }
    let d = pow10(from - to);
    let q = u / d;
    let r = u % d;
    Some(if r.abs() * 2 >= d { q + u.signum() } else { q })
}

#[derive(Debug, PartialEq)]
enum Want {
    /// exactly this value
    Exact(Val),
    /// an error
    Error,
    /// either one of these values (under-specified rounding) - never out of range
    OneOf(Vec<Val>),
    /// not modelled: only the safety clauses (range / precision / no panic) apply
    Safety,
}

fn want_cast(src: &Val, dst: T, dst_type_str: &str) -> Want {
    let fsrc = match src {
        Val::F64(_) | Val::F32(_) | Val::F16(_) => src.as_f64(),
        _ => None,
    };
    if let Some((lo, hi)) = int_range(dst) {
        if let Some((u, s)) = as_exact(src) {
            if s == 0 {
                return if u >= lo && u <= hi { Want::Exact(Val::Int(u)) } else { Want::Error };
            }
            return Want::Safety;
        }
        if let Some(f) = fsrc {
            if f.is_nan() || f.is_infinite() {
                return Want::Error;
            }
            let t = f.trunc();
            // candidates by the admissible rounding rules; the property states truncation
            if t >= lo as f64 && t <= hi as f64 && (t as i128) >= lo && (t as i128) <= hi {
                return Want::Exact(Val::Int(t as i128));
            }
            return Want::Error;
        }
        return Want::Safety;
    }
    match dst {
        T::Float64 | T::Float32 | T::Float16 => {
            let conv = |x: f64| -> Val {
                match dst {
                    T::Float64 => Val::F64(x.to_bits()),
                    T::Float32 => Val::F32((x as f32).to_bits()),
                    _ => Val::F16(half::f16::from_f64(x).to_bits()),
                }
            };
            match src {
                Val::Int(i) => {
                    // nearest representable; i128 -> f64 `as` rounds to nearest-even
                    let x = match dst {
                        T::Float32 => (*i as f32) as f64,
                        T::Float16 => half::f16::from_f64(*i as f64).to_f64(),
                        _ => *i as f64,
                    };
                    // f16 overflow to infinity: out of range => error or infinity are both plausible: safety only
                    if dst == T::Float16 && x.is_infinite() {
                        return Want::Safety;
                    }
                    Want::Exact(conv(x))
                }
                Val::F64(_) | Val::F32(_) | Val::F16(_) => {
                    let f = fsrc.unwrap();
                    let c = conv(f);
                    // narrowing that overflows to infinity: error or infinity
                    let back = c.as_f64().unwrap();
                    if back.is_infinite() && !f.is_infinite() {
                        return Want::OneOf(vec![c]).or_error();
                    }
                    Want::Exact(c.norm())
                }
                _ => Want::Safety,
            }
        }
        T::Decimal64 | T::Decimal128 => {
            let (p, s) = parse_ps(dst_type_str).unwrap_or(dec_ps(dst).unwrap());
            if let Some((u, s0)) = as_exact(src) {
                return match round_half_away(u, s0, s) {
                    Some(v) if v.abs() < pow10(p) => Want::Exact(Val::Dec(v, 0, s as i8)),
                    _ => Want::Error,
                };
            }
            if let Some(f) = fsrc {
                if f.is_nan() || f.is_infinite() {
                    return Want::Error;
                }
                let scaled = f * 10f64.powi(s as i32);
                if scaled.abs() >= 10f64.powi(p as i32) * 1.0000001 {
                    return Want::Error;
                }
                let lo = scaled.floor();
                let hi = scaled.ceil();
                let mut c = vec![];
                for x in [lo, hi] {
                    if x.abs() < 1e37 && (x as i128).abs() < pow10(p) {
                        c.push(Val::Dec(x as i128, 0, s as i8));
                    }
                }
                if c.is_empty() {
                    return Want::Error;
                }
                // at the precision boundary an error is admissible too
                if (hi as i128).abs() >= pow10(p) || (lo as i128).abs() >= pow10(p) {
                    return Want::OneOf(c).or_error();
                }
                return Want::OneOf(c);
            }
            Want::Safety
        }
        _ => Want::Safety,
    }
}

impl Want {
    fn or_error(self) -> Want {
        match self {
            Want::OneOf(mut v) => {
                v.push(Val::Str("<error>".into()));
                Want::OneOf(v)
            }
            o => o,
        }
    }
}

fn parse_ps(s: &str) -> Option<(u32, u32)> {
    let inner = s.strip_prefix("Decimal64(").or_else(|| s.strip_prefix("Decimal128("))?.strip_suffix(')')?;
    let (p, sc) = inner.split_once(',')?;
    Some((p.trim().parse().ok()?, sc.trim().parse().ok()?))
}

fn nv(v: &Val) -> Val {
    match v.norm() {
        Val::Dec(u, _, s) => Val::Dec(u, 0, s),
        o => o,
    }
}

/// safety clause on any produced value: inside the target's range / precision
fn in_target_domain(v: &Val, dst: T, dst_type_str: &str) -> Result<(), String> {
    if v.is_null() {
        return Ok(());
    }
    if let Some((lo, hi)) = int_range(dst) {
        return match v {
            Val::Int(i) if *i >= lo && *i <= hi => Ok(()),
            o => Err(format!("{o} is not a value of the target integer type")),
        };
    }
    if let Some((p, s)) = parse_ps(dst_type_str) {
        return match v {
            Val::Dec(u, _, sc) => {
                if *sc as u32 != s {
                    Err(format!("scale {sc} instead of {s}"))
                } else if u.abs() >= pow10(p) {
                    Err(format!("{u}e-{sc} has more than {p} digits: violates DECIMAL({p},{s})"))
                } else {
                    Ok(())
                }
            }
            o => Err(format!("{o} is not a decimal")),
        };
    }
    Ok(())
}

fn check_pair(d: &mut Driver, src: T, dst: T, res: &mut Res) {
    let dst_sql = match fnreg::sql_type(dst) {
        Some(s) => s,
        None => return,
    };
    let pair = format!("{src}->{dst}");
    let srcs = sources(src);
    let mut supported = false;
    for (ctx, optoff) in [("literal", false), ("column", true)] {
        for sx in &srcs {
            if d.dirty {
                *d = Driver::new();
            }
            // source value as the engine sees it
            let sv = match d.q(&format!("SELECT {sx}")) {
                Outcome::Rows(r) if r.rows.len() == 1 => r.rows[0][0].clone(),
                _ => continue, // the source expression itself is not evaluable (checked elsewhere)
            };
            let sql = if optoff { format!("SELECT CAST(c AS {dst_sql}) FROM (VALUES ({sx})) v(c)") } else { format!("SELECT CAST({sx} AS {dst_sql})") };
            let o = d.q(&sql);
            res.evals += 1;
            match &o {
                Outcome::Error { phase: crate::drv::Phase::Plan, msg } if msg.contains("cannot handle source type") || msg.contains("Unable to find cast function") || msg.contains("Cannot cast") => {
                    continue;
                }
                _ => supported = true,
            }
            let (dst_ty_str, got): (String, Option<Val>) = match &o {
                Outcome::Rows(r) if r.rows.len() == 1 => (r.types[0].clone(), Some(r.rows[0][0].clone())),
                Outcome::Error { .. } => (String::new(), None),
                o2 => {
                    fail(res, format!("C13|{}|{pair}", outcome_fail_class(o2).unwrap_or_else(|| "odd-result".into())), &sql, "value or error".into(), o2.brief(), ctx);
                    continue;
                }
            };
            if let Some(g) = &got {
                if let Err(e) = in_target_domain(g, dst, &dst_ty_str) {
                    fail(res, format!("C13|out-of-domain-value|{pair}"), &sql, "a value of the target type or an error".into(), e, ctx);
                    continue;
                }
            }
            if sv.is_null() {
                if let Some(g) = &got {
                    if !g.is_null() {
                        fail(res, format!("C13|null-not-preserved|{pair}"), &sql, "NULL".into(), format!("{g}"), ctx);
                    }
                }
                continue;
            }
            let w = want_cast(&sv, dst, &dst_ty_str);
            match (&w, &got) {
                (Want::Safety, _) => {
                    res.outcomes.insert("safety-only".into());
                }
                (Want::Exact(e), Some(g)) => {
                    if nv(e) != nv(g) {
                        fail(res, format!("C13|wrong-value|{pair}"), &sql, format!("{e}"), format!("{g}"), ctx);
                    } else {
                        res.nontrivial += 1;
                    }
                }
                (Want::Exact(e), None) => fail(res, format!("C13|spurious-error|{pair}"), &sql, format!("{e} (representable)"), o.brief(), ctx),
                (Want::Error, Some(g)) => fail(res, format!("C13|missing-error|{pair}"), &sql, format!("an error: {sv} is not representable in {dst}"), format!("{g}"), ctx),
                (Want::Error, None) => res.nontrivial += 1,
                (Want::OneOf(c), Some(g)) => {
                    if !c.iter().any(|x| nv(x) == nv(g)) {
                        fail(res, format!("C13|wrong-value|{pair}"), &sql, format!("one of {:?}", c.iter().map(|x| x.to_string()).collect::<Vec<_>>()), format!("{g}"), ctx);
                    } else {
                        res.nontrivial += 1;
                    }
                }
                (Want::OneOf(c), None) => {
                    if !c.iter().any(|x| *x == Val::Str("<error>".into())) {
                        fail(res, format!("C13|spurious-error|{pair}"), &sql, format!("one of {:?}", c.iter().map(|x| x.to_string()).collect::<Vec<_>>()), o.brief(), ctx);
                    }
                }
            }
        }
    }
    if !supported {
        res.unsupported_pairs.insert(pair);
    }
}

/// decimal rescale at every scale distance: half away from zero, precision enforced
fn decimal_rescale(d: &mut Driver, res: &mut Res) {
    for (p0, s0) in [(5u32, 3u32), (9, 4), (18, 6), (20, 6), (38, 10)] {
        for s1 in 0..=s0 {
            for p1 in [s1 + 1, s1 + 2, 18, 38] {
                if p1 < s1 + 1 {
                    continue;
                }
                let max = pow10(p0) - 1;
                let mut us: BTreeSet<i128> = [0, 1, -1, max, -max].into_iter().collect();
                for k in 0..s0 {
                    for m in [5i128, 15, 25, 49, 50, 51] {
                        let x = m * pow10(k) / 10 * 10 + (m * pow10(k)) % 10;
                        if x.abs() <= max {
                            us.insert(x);
                            us.insert(-x);
                        }
                    }
                }
                for u in us {
                    if d.dirty {
                        *d = Driver::new();
                    }
                    let neg = u < 0;
                    let a = u.unsigned_abs();
                    let q = 10u128.pow(s0);
                    let txt = format!("{}{}.{:0w$}", if neg { "-" } else { "" }, a / q, a % q, w = s0 as usize);
                    let sql = format!("SELECT CAST(CAST('{txt}' AS DECIMAL({p0},{s0})) AS DECIMAL({p1},{s1}))");
                    let o = d.q(&sql);
                    res.evals += 1;
                    let want = round_half_away(u, s0, s1).filter(|v| v.abs() < pow10(p1));
                    let pair = "Decimal-rescale".to_string();
                    match (&o, want) {
                        (Outcome::Rows(r), Some(w)) => match &r.rows[0][0] {
                            Val::Dec(g, _, sc) if *g == w && *sc as u32 == s1 => res.nontrivial += 1,
                            g => fail(res, format!("C13|wrong-value|{pair}"), &sql, format!("{w}e-{s1} (half away from zero)"), format!("{g}"), ""),
                        },
                        (Outcome::Rows(r), None) => fail(res, format!("C13|out-of-domain-value|{pair}"), &sql, format!("an error: more than {p1} digits"), format!("{}", r.rows[0][0]), ""),
                        (Outcome::Error { .. }, None) => res.nontrivial += 1,
                        (Outcome::Error { .. }, Some(w)) => fail(res, format!("C13|spurious-error|{pair}"), &sql, format!("{w}e-{s1}"), o.brief(), ""),
                        (o2, _) => fail(res, format!("C13|{}|{pair}", outcome_fail_class(o2).unwrap_or_else(|| "odd".into())), &sql, "value or error".into(), o2.brief(), ""),
                    }
                }
            }
        }
    }
}

/// text round trip: (v::TEXT)::T = v for every value of the alphabets, plus full 8/16-bit sweeps
fn round_trips(d: &mut Driver, tier: Tier, res: &mut Res) {
    for t in TYPES {
        if t == T::Utf8 {
            continue;
        }
        let ty = match fnreg::sql_type(t) {
            Some(x) => x,
            None => continue,
        };
        for sx in sources(t) {
            if d.dirty {
                *d = Driver::new();
            }
            let sql = format!("SELECT {sx}, CAST(CAST({sx} AS TEXT) AS {ty}), CAST({sx} AS TEXT)");
            let o = d.q(&sql);
            res.evals += 1;
            match &o {
                Outcome::Rows(r) => {
                    let (a, b) = (nv(&r.rows[0][0]), nv(&r.rows[0][1]));
                    if a != b {
                        fail(res, format!("C13|roundtrip-differs|{t}"), &sql, format!("{a}"), format!("{b} (text form {})", r.rows[0][2]), "format then parse must be the identity");
                    } else {
                        res.nontrivial += 1;
                    }
                }
                Outcome::Error { phase: crate::drv::Phase::Plan, msg } if msg.contains("cannot handle source type") || msg.contains("Unable to find cast function") => {
                    res.unsupported_pairs.insert(format!("{t}<->Utf8"));
                    break;
                }
                Outcome::Error { msg, .. } => {
                    // the source expression may itself be invalid (checked by evaluating it alone)
                    if d.q(&format!("SELECT {sx}")).is_rows() {
                        fail(res, format!("C13|roundtrip-error|{t}"), &sql, "the original value".into(), msg.clone(), "");
                    }
                }
                o2 => fail(res, format!("C13|{}|roundtrip:{t}", outcome_fail_class(o2).unwrap()), &sql, "value".into(), o2.brief(), ""),
            }
        }
    }
    // sweeps: all values of the 8-bit types, 16-bit types, and all HALF bit patterns reachable from integers
    let sweeps: Vec<(&str, String, i64, i64)> = vec![("TINYINT", "CAST(g AS TINYINT)".into(), -128, 127), ("UTINYINT", "CAST(g AS UTINYINT)".into(), 0, 255), ("SMALLINT", "CAST(g AS SMALLINT)".into(), -32768, 32767), ("USMALLINT", "CAST(g AS USMALLINT)".into(), 0, 65535), ("HALF", "CAST(g AS HALF) / CAST(8 AS HALF)".into(), -2048, 2048), ("REAL", "CAST(g AS REAL) / CAST(7 AS REAL)".into(), -3000, 3000), ("DOUBLE", "CAST(g AS DOUBLE) / CAST(7 AS DOUBLE)".into(), -3000, 3000), ("DATE", "CAST('1970-01-01' AS DATE) + CAST(g * 37 AS INT)".into(), -20000, 20000)];
    for (ty, expr, lo, hi) in sweeps {
        if !tier.is_thorough() && (ty == "SMALLINT" || ty == "USMALLINT") {
            // quick: 16-bit sweeps use a stride; thorough: all values
        }
        if d.dirty {
            *d = Driver::new();
        }
        let sql = format!("SELECT count(*) FROM (SELECT {expr} AS v FROM generate_series({lo}, {hi}) s(g)) q WHERE CAST(CAST(v AS TEXT) AS {ty}) IS DISTINCT FROM v");
        let o = d.q(&sql);
        res.evals += 1;
        match &o {
            Outcome::Rows(r) => {
                if r.rows[0][0] != Val::Int(0) {
                    fail(res, format!("C13|roundtrip-differs|sweep:{ty}"), &sql, "0 differing values".into(), format!("{}", r.rows[0][0]), "full-domain sweep");
                } else {
                    res.nontrivial += (hi - lo + 1) as u64;
                }
            }
            Outcome::Error { msg, .. } => {
                if !o.not_implemented() && !msg.contains("cannot handle source type") && !msg.contains("Unable to find cast function") {
                    fail(res, format!("C13|roundtrip-error|sweep:{ty}"), &sql, "0".into(), msg.clone(), "");
                }
            }
            o2 => fail(res, format!("C13|{}|sweep:{ty}", outcome_fail_class(o2).unwrap()), &sql, "0".into(), o2.brief(), ""),
        }
    }
}

/// full-domain integer narrowing sweeps: every 16-bit value cast to the 8-bit types
fn narrowing_sweeps(d: &mut Driver, res: &mut Res) {
    for (src, dst, lo, hi, dlo, dhi) in [("SMALLINT", "TINYINT", -32768i64, 32767i64, -128i64, 127i64), ("SMALLINT", "UTINYINT", -32768, 32767, 0, 255), ("USMALLINT", "TINYINT", 0, 65535, -128, 127), ("INT", "SMALLINT", -40000, 40000, -32768, 32767), ("INT", "USMALLINT", -10, 70000, 0, 65535)] {
        if d.dirty {
            *d = Driver::new();
        }
        // in-range part must be the identity
        let sql = format!("SELECT count(*), sum(CASE WHEN CAST(CAST(v AS {dst}) AS INT) = CAST(v AS INT) THEN 0 ELSE 1 END) FROM (SELECT CAST(g AS {src}) AS v FROM generate_series({}, {}) s(g)) q", lo.max(dlo), hi.min(dhi));
        let o = d.q(&sql);
        res.evals += 1;
        match &o {
            Outcome::Rows(r) if r.rows[0][1] == Val::Int(0) => res.nontrivial += 1,
            o2 => fail(res, format!("C13|narrowing-sweep|{src}->{dst}"), &sql, "identity on the in-range part".into(), o2.brief(), ""),
        }
        // each out-of-range boundary must be an error
        for v in [dlo - 1, dhi + 1, lo, hi] {
            if v >= dlo && v <= dhi {
                continue;
            }
            if d.dirty {
                *d = Driver::new();
            }
            let sql = format!("SELECT CAST(v AS {dst}) FROM (VALUES (CAST({v} AS {src}))) t(v)");
            let o = d.q(&sql);
            res.evals += 1;
            match &o {
                Outcome::Error { .. } => res.nontrivial += 1,
                Outcome::Rows(r) => fail(res, format!("C13|missing-error|{src}->{dst}"), &sql, "error".into(), format!("{}", r.rows[0][0]), ""),
                o2 => fail(res, format!("C13|{}|{src}->{dst}", outcome_fail_class(o2).unwrap()), &sql, "error".into(), o2.brief(), ""),
            }
        }
    }
}

pub fn run(tier: Tier) -> i32 {
    let mut rep = Report::new("C13", tier, "exploration");
    let mut pairs: Vec<(T, T)> = Vec::new();
    for s in TYPES {
        for d in TYPES {
            pairs.push((s, d));
        }
    }
    let n = pairs.len();
    let results = par_run(n + 3, Driver::new, |d, i| {
        let mut res = Res::default();
        if i < n {
            check_pair(d, pairs[i].0, pairs[i].1, &mut res);
        } else if i == n {
            decimal_rescale(d, &mut res);
        } else if i == n + 1 {
            round_trips(d, tier, &mut res);
        } else {
            narrowing_sweeps(d, &mut res);
        }
        res
    });
    let (mut evals, mut nontriv) = (0u64, 0u64);
    let mut unsupported = BTreeSet::new();
    let mut outcomes = BTreeSet::new();
    for rr in results {
        evals += rr.evals;
        nontriv += rr.nontrivial;
        unsupported.extend(rr.unsupported_pairs);
        outcomes.extend(rr.outcomes);
        for (k, rp) in rr.fails {
            rep.fail(k, rp);
        }
    }
    rep.cov("evaluations", json!(evals));
    rep.cov("distinct_nontrivial", json!(nontriv));
    rep.cov("rule", json!("every (source, target) pair of 17 types for which CAST binds (discovered by trying all 289) x the source type's alphabet plus conversion edge values (half-way cases, out-of-range by one, NaN/infinities, max precision, strings with garbage) in the literal and the column context; decimal rescale over every scale distance; (v::TEXT)::T round trips for all alphabet values and full-domain sweeps of the 8/16-bit, HALF, REAL, DOUBLE and DATE families. Oracle: exact value when representable, else the neighbour by the fixed rule (float->int truncation, decimal half away from zero) or an error; never a value outside the target's range or with more digits than DECIMAL(p,s) allows. non-trivial = checked and accepted conversions"));
    rep.cov("pairs_tried", json!(n));
    rep.cov("pairs_without_cast", json!(unsupported.len()));
    rep.cov("distinct_outcomes", json!(outcomes.into_iter().collect::<Vec<_>>()));
    rep.cov("exhaustive", json!(true));
    rep.cov("samples", json!(["SELECT CAST(CAST(127.9 AS DOUBLE) AS TINYINT)", "SELECT CAST(CAST('12345.678' AS DECIMAL(8,3)) AS DECIMAL(4,1))", "SELECT count(*) FROM (SELECT CAST(g AS SMALLINT) AS v FROM generate_series(-32768, 32767) s(g)) q WHERE CAST(CAST(v AS TEXT) AS SMALLINT) IS DISTINCT FROM v"]));
    rep.finish()
}
