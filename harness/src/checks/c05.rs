//! C05 - scalar operators and functions follow their definition on all values,
//! independent of the evaluation context.
use std::collections::{BTreeMap, BTreeSet};

use serde_json::json;

use crate::drv::{Driver, Outcome};
use crate::fnreg::{self, Sig};
use crate::infra::{Replay, Report, Tier, msg_template, panic_class, par_run};
use crate::rm::{and3, or3};
use crate::val::Val;

struct W {
    d: Driver,
}
impl W {
    fn new() -> W {
        W { d: Driver::new() }
    }
    fn q(&mut self, sql: &str) -> Outcome {
        if self.d.dirty {
            self.d = Driver::new();
        }
        self.d.q(sql)
    }
    fn set(&mut self, sql: &str) {
        if self.d.dirty {
            self.d = Driver::new();
        }
        self.d.must(sql);
    }
}

#[derive(Default)]
struct Res {
    evals: u64,
    nontrivial: u64,
    fails: Vec<(String, Replay)>,
    skipped: u64,
    outcomes: BTreeSet<String>,
}

fn fail(res: &mut Res, key: String, sql: &str, setup: &[String], expected: String, observed: String, note: String) {
    res.outcomes.insert("FAIL".into());
    let mut steps: Vec<(usize, String)> = setup.iter().map(|s| (0usize, s.clone())).collect();
    steps.push((0, sql.to_string()));
    res.fails.push((key, Replay { check: "C05".into(), steps, expected, observed, note, ..Default::default() }));
}

fn sig_name(s: &Sig) -> String {
    let mut a: Vec<String> = s.args.iter().map(|t| t.to_string()).collect();
    if let Some(v) = s.variadic {
        a.push(format!("{v}..."));
    }
    format!("{}({})", s.name, a.join(","))
}

/// One cell value or an error class.
#[derive(Clone, Debug, PartialEq, Eq)]
enum Cell {
    V(Val),
    Err,
}

/// NaN-normalised, and decimal precision dropped: the value variant's precision is C18's subject.
fn nv(v: &Val) -> Val {
    match v.norm() {
        Val::Dec(u, _, s) => Val::Dec(u, 0, s),
        o => o,
    }
}

fn first_cell(o: &Outcome) -> Option<Cell> {
    match o {
        Outcome::Rows(r) if r.rows.len() == 1 && !r.rows[0].is_empty() => Some(Cell::V(nv(&r.rows[0][0]))),
        Outcome::Error { .. } => Some(Cell::Err),
        _ => None,
    }
}

fn bad_class(o: &Outcome) -> Option<String> {
    match o {
        Outcome::Panic { loc, msg } => Some(panic_class(loc, msg)),
        Outcome::Hang { .. } => Some("hang".into()),
        Outcome::Abort { .. } => Some("abort".into()),
        _ => None,
    }
}

/// Context-independence for one signature.
fn check_sig(w: &mut W, s: &Sig, tier: Tier, res: &mut Res) {
    let name = sig_name(s);
    if std::env::var("VERIF_TRACE").is_ok() {
        eprintln!("sig {name}");
    }
    let mut argtys = s.args.clone();
    if let Some(v) = s.variadic {
        argtys.push(v);
    }
    if argtys.is_empty() || argtys.len() > 3 {
        res.skipped += 1;
        return;
    }
    let small = argtys.len() >= 3 || (argtys.len() == 2 && tier == Tier::Quick);
    let mut alphas: Vec<Vec<String>> = Vec::new();
    for t in &argtys {
        match fnreg::alphabet(*t, small) {
            Some(a) => alphas.push(a),
            None => {
                res.skipped += 1;
                return;
            }
        }
    }
    // tuples
    let mut tuples: Vec<Vec<String>> = vec![vec![]];
    for a in &alphas {
        let mut n = Vec::new();
        for t in &tuples {
            for v in a {
                let mut x = t.clone();
                x.push(v.clone());
                n.push(x);
            }
        }
        tuples = n;
    }
    let call_lit = |t: &Vec<String>| fnreg::call_sql(&s.name, t);
    if call_lit(&tuples[0]).is_none() {
        res.skipped += 1;
        return;
    }
    w.set("SET enable_optimizer TO true");
    w.set("SET batch_size TO 2048");
    // does the signature bind at all?
    let probe = w.q(&format!("SELECT {}", call_lit(tuples.last().unwrap()).unwrap()));
    res.evals += 1;
    if let Outcome::Error { phase: crate::drv::Phase::Plan, .. } = &probe {
        // e.g. signature only reachable with other literal forms
        let all_plan_err = tuples.iter().take(4).all(|t| matches!(w.q(&format!("SELECT {}", call_lit(t).unwrap())), Outcome::Error { phase: crate::drv::Phase::Plan, .. }));
        if all_plan_err {
            res.skipped += 1;
            res.outcomes.insert("unbindable".into());
            return;
        }
    }
    // ---- context 1: literals (constant folded), one query per tuple
    let mut lit: Vec<Option<Cell>> = Vec::new();
    for t in &tuples {
        let sql = format!("SELECT {}", call_lit(t).unwrap());
        let o = w.q(&sql);
        res.evals += 1;
        if let Some(c) = bad_class(&o) {
            fail(res, format!("C05|{c}|{name}"), &sql, &[], "value or error".into(), o.brief(), "context=literal".into());
            if matches!(o, Outcome::Hang { .. } | Outcome::Abort { .. }) {
                // do not feed further tuples of a signature that hangs or kills the process
                return;
            }
            lit.push(None);
            continue;
        }
        lit.push(first_cell(&o));
    }
    // ---- context 2: literals with the optimizer off (vector path on constants)
    w.set("SET enable_optimizer TO false");
    for (i, t) in tuples.iter().enumerate() {
        let sql = format!("SELECT {}", call_lit(t).unwrap());
        let o = w.q(&sql);
        res.evals += 1;
        if let Some(c) = bad_class(&o) {
            fail(res, format!("C05|{c}|{name}"), &sql, &["SET enable_optimizer TO false".into()], "value or error".into(), o.brief(), "context=literal-noopt".into());
            continue;
        }
        let c = first_cell(&o);
        if lit[i].is_some() && c.is_some() && c != lit[i] {
            fail(res, format!("C05|ctx-differs:literal-noopt|{name}"), &sql, &["SET enable_optimizer TO false".into()], format!("{:?} (constant-folded)", lit[i]), format!("{c:?}"), "the same call on literals gives different results with the optimizer on and off".into());
        }
    }
    w.set("SET enable_optimizer TO true");
    // ---- table contexts over the tuples that evaluate without error
    let ok: Vec<usize> = (0..tuples.len()).filter(|&i| matches!(lit[i], Some(Cell::V(_)))).collect();
    if ok.is_empty() {
        res.outcomes.insert("all-error".into());
        return;
    }
    res.nontrivial += ok.len() as u64;
    let cols: Vec<String> = (0..argtys.len()).map(|i| format!("c{i}")).collect();
    let rows: Vec<String> = ok.iter().map(|&i| format!("({}, {})", i, tuples[i].join(", "))).collect();
    let v = format!("(VALUES {}) v(id, {})", rows.join(", "), cols.join(", "));
    let call_cols = fnreg::call_sql(&s.name, &cols).unwrap();
    let expect: BTreeMap<i128, Val> = ok.iter().map(|&i| (i as i128, match &lit[i] { Some(Cell::V(v)) => v.clone(), _ => Val::Null })).collect();
    // contexts whose name starts with "case-" carry a trailing boolean column: true = the row's value is checked,
    // false = no branch evaluates the call for that row and the CASE must yield NULL
    let mut ctxs: Vec<(&str, Vec<String>, String, usize)> = vec![
        ("flat", vec![], format!("SELECT id, {call_cols} FROM {v}"), 1),
        ("case-mixed", vec![], format!("SELECT id, CASE WHEN id % 3 <> 1 THEN {call_cols} END, id % 3 <> 1 FROM {v}"), 1),
        ("case-nested", vec![], format!("SELECT id, CASE WHEN id % 2 = 0 THEN CASE WHEN id % 3 <> 1 THEN {call_cols} END ELSE CASE WHEN id % 3 = 0 THEN {call_cols} END END, (id % 2 = 0 AND id % 3 <> 1) OR (id % 2 <> 0 AND id % 3 = 0) FROM {v}"), 1),
        ("case-nested-selection", vec![], format!("SELECT id, CASE WHEN id % 4 <> 0 THEN CASE WHEN id % 2 = 1 THEN {call_cols} END END, id % 2 = 1 FROM {v} WHERE id % 5 <> 2"), 1),
        ("selection", vec![], format!("SELECT id, {call_cols} FROM {v} WHERE id % 2 = 0"), 1),
        ("case", vec![], format!("SELECT id, CASE WHEN id % 3 <> 1 THEN {call_cols} END FROM {v} WHERE id % 3 <> 1"), 1),
        ("cse", vec![], format!("SELECT id, {call_cols}, {call_cols} FROM {v} WHERE ({call_cols}) IS NOT NULL OR id >= 0"), 2),
        ("batch1", vec!["SET batch_size TO 1".into()], format!("SELECT id, {call_cols} FROM {v}"), 1),
        ("batch3-selection", vec!["SET batch_size TO 3".into()], format!("SELECT id, {call_cols} FROM {v} WHERE id % 2 = 1"), 1),
    ];
    if tier.is_thorough() {
        ctxs.push(("noopt-flat", vec!["SET enable_optimizer TO false".into()], format!("SELECT id, {call_cols} FROM {v}"), 1));
        ctxs.push(("subquery-filter", vec![], format!("SELECT id, x FROM (SELECT id, {call_cols} AS x FROM {v}) s WHERE id % 2 = 0"), 1));
        ctxs.push(("partitions3", vec!["SET partitions TO 3".into(), "SET batch_size TO 2".into()], format!("SELECT id, {call_cols} FROM {v}"), 1));
    }
    for (cname, sets, sql, ncopies) in &ctxs {
        for st in sets {
            w.set(st);
        }
        let o = w.q(sql);
        res.evals += 1;
        if !sets.is_empty() {
            if w.d.dirty {
                w.d = Driver::new();
            } else {
                w.set("SET batch_size TO 2048");
                w.set("SET partitions TO 1");
                w.set("SET enable_optimizer TO true");
            }
        }
        match &o {
            Outcome::Rows(r) => {
                for row in &r.rows {
                    let id = match row.first() {
                        Some(Val::Int(i)) => *i,
                        _ => continue,
                    };
                    for k in 0..*ncopies {
                        let got = nv(&row[1 + k]);
                        if cname.starts_with("case-") {
                            match row.last() {
                                Some(Val::Bool(true)) => {}
                                _ => {
                                    if !got.is_null() {
                                        fail(res, format!("C05|ctx-differs:{cname}|{name}"), sql, sets, format!("NULL (no branch of the CASE is taken for row {id})"), format!("{got}"), "a CASE without a true branch must yield NULL".into());
                                        break;
                                    }
                                    continue;
                                }
                            }
                        }
                        if let Some(want) = expect.get(&id) {
                            if &got != want {
                                fail(res, format!("C05|ctx-differs:{cname}|{name}"), sql, sets, format!("{want} (as on literals) for tuple ({})", tuples[id as usize].join(", ")), format!("{got}"), "value depends on the evaluation context".into());
                                break;
                            }
                        }
                    }
                }
            }
            Outcome::Error { phase: crate::drv::Phase::Plan, msg } if msg.contains("Not a literal") || msg.contains("must be a constant") || msg.contains("constant") => {
                // the function requires a literal argument: column contexts do not exist for it
                res.outcomes.insert("literal-only-argument".into());
                return;
            }
            Outcome::Error { msg, .. } => {
                fail(res, format!("C05|ctx-error:{cname}:{}|{name}", msg_template(msg)), sql, sets, "values as on literals (none of these tuples errors)".into(), o.brief(), "error only in this evaluation context".into());
            }
            o => {
                let c = bad_class(o).unwrap();
                fail(res, format!("C05|{c}|{name}"), sql, sets, "rows".into(), o.brief(), format!("context={cname}"));
            }
        }
    }
    // one argument a column, the others literals (constant vectors)
    if argtys.len() == 2 {
        let firsts: BTreeSet<String> = ok.iter().map(|&i| tuples[i][0].clone()).collect();
        let seconds: BTreeSet<String> = ok.iter().map(|&i| tuples[i][1].clone()).collect();
        for l2 in &seconds {
            let ids: Vec<usize> = ok.iter().copied().filter(|&i| &tuples[i][1] == l2 && firsts.contains(&tuples[i][0])).collect();
            if ids.is_empty() {
                continue;
            }
            let rows: Vec<String> = ids.iter().map(|&i| format!("({}, {})", i, tuples[i][0])).collect();
            let call = fnreg::call_sql(&s.name, &["c0".to_string(), l2.clone()]).unwrap();
            let sql = format!("SELECT id, {call} FROM (VALUES {}) v(id, c0)", rows.join(", "));
            let o = w.q(&sql);
            res.evals += 1;
            match &o {
                Outcome::Rows(r) => {
                    for row in &r.rows {
                        if let Some(Val::Int(id)) = row.first() {
                            if let Some(want) = expect.get(id) {
                                if &nv(&row[1]) != want {
                                    fail(res, format!("C05|ctx-differs:const-arg|{name}"), &sql, &[], format!("{want}"), format!("{}", row[1]), "column x literal argument mix".into());
                                    break;
                                }
                            }
                        }
                    }
                }
                Outcome::Error { msg, .. } => fail(res, format!("C05|ctx-error:const-arg:{}|{name}", msg_template(msg)), &sql, &[], "values".into(), o.brief(), "".into()),
                o => fail(res, format!("C05|{}|{name}", bad_class(o).unwrap()), &sql, &[], "rows".into(), o.brief(), "context=const-arg".into()),
            }
        }
    }
}

// ------------------------------------------------------------------ documented examples

fn render_val(v: &Val) -> String {
    match v {
        Val::Null => "NULL".into(),
        Val::Str(s) => s.clone(),
        Val::F64(b) => format!("{}", f64::from_bits(*b)),
        Val::F32(b) => format!("{}", f32::from_bits(*b)),
        Val::Dec(u, _, s) => {
            let neg = *u < 0;
            let a = u.unsigned_abs();
            let p = 10u128.pow(*s as u32);
            if *s > 0 { format!("{}{}.{:0width$}", if neg { "-" } else { "" }, a / p, a % p, width = *s as usize) } else { format!("{u}") }
        }
        o => format!("{o}"),
    }
}

fn norm_doc(s: &str) -> String {
    let t = s.trim();
    let t = t.trim_matches('\'');
    t.to_string()
}

fn check_examples(w: &mut W, res: &mut Res) {
    let volatile: BTreeSet<String> = fnreg::scalar_sigs().into_iter().filter(|s| s.volatile || s.category == "debug").map(|s| s.name).collect();
    for ex in fnreg::doc_examples() {
        if volatile.contains(&ex.name) {
            continue;
        }
        // the documented output itself is wrong (tschüß has 8 bytes, the doc says 6): not an oracle
        if ex.name == "byte_length" {
            continue;
        }
        // aggregate examples are not plain scalar calls; they are evaluated as written too
        for (ctx, set) in [("opt-on", "SET enable_optimizer TO true"), ("opt-off", "SET enable_optimizer TO false")] {
            w.set(set);
            let sql = format!("SELECT {}", ex.example);
            let o = w.q(&sql);
            res.evals += 1;
            match &o {
                Outcome::Rows(r) if r.rows.len() == 1 && r.rows[0].len() == 1 => {
                    let got = render_val(&r.rows[0][0]);
                    // also try the engine's own text rendering
                    let txt = match w.q(&format!("SELECT CAST(({}) AS TEXT)", ex.example)) {
                        Outcome::Rows(r2) if r2.rows.len() == 1 => r2.rows[0][0].as_str().map(|s| s.to_string()),
                        _ => None,
                    };
                    let want = norm_doc(&ex.output);
                    let prefix_ok = txt.as_deref().map(|t| t.starts_with(want.as_str()) && !want.is_empty()).unwrap_or(false);
                    let ok = prefix_ok || got == want || txt.as_deref() == Some(want.as_str()) || float_close(&got, &want) || txt.as_deref().map(|t| float_close(t, &want)).unwrap_or(false) || loose_eq(&got, &want) || txt.as_deref().map(|t| loose_eq(t, &want)).unwrap_or(false);
                    if ok {
                        res.nontrivial += 1;
                    } else {
                        fail(res, format!("C05|doc-example|{}", ex.name), &sql, &[set.to_string()], format!("documented output {:?}", ex.output), format!("{got:?} (as text: {txt:?})"), format!("documented example of {} ({ctx})", ex.name));
                    }
                }
                Outcome::Rows(_) => {}
                Outcome::Error { msg, .. } if msg.contains("Missing column for reference") || o.not_implemented() => {
                    // the example is not self-contained (refers to columns) or the function is not implemented
                    res.outcomes.insert("example-not-evaluable".into());
                    let _ = msg;
                }
                Outcome::Error { msg, .. } => {
                    fail(res, format!("C05|doc-example-error:{}|{}", msg_template(msg), ex.name), &sql, &[set.to_string()], format!("documented output {:?}", ex.output), o.brief(), "documented example fails".into());
                }
                o => fail(res, format!("C05|{}|doc-example:{}", bad_class(o).unwrap(), ex.name), &sql, &[set.to_string()], "value".into(), o.brief(), "".into()),
            }
        }
    }
    w.set("SET enable_optimizer TO true");
}

fn float_close(a: &str, b: &str) -> bool {
    match (a.parse::<f64>(), b.parse::<f64>()) {
        (Ok(x), Ok(y)) => (x.is_nan() && y.is_nan()) || x == y || (x - y).abs() <= 1e-6 * x.abs().max(y.abs()).max(1e-9),
        _ => false,
    }
}

/// Formatting-insensitive comparison: case, whitespace, list brackets spacing.
fn loose_eq(a: &str, b: &str) -> bool {
    let n = |s: &str| s.chars().filter(|c| !c.is_whitespace() && *c != '"' && *c != '\'').collect::<String>().to_ascii_lowercase();
    n(a) == n(b)
}

// ------------------------------------------------------------------ three-valued logic truth tables

#[derive(Clone, Debug)]
enum B {
    V(usize),
    And(Box<B>, Box<B>),
    Or(Box<B>, Box<B>),
    Not(Box<B>),
}

fn b_sql(b: &B) -> String {
    match b {
        B::V(i) => ["p", "q", "r"][*i].to_string(),
        B::And(x, y) => format!("({} AND {})", b_sql(x), b_sql(y)),
        B::Or(x, y) => format!("({} OR {})", b_sql(x), b_sql(y)),
        B::Not(x) => format!("(NOT {})", b_sql(x)),
    }
}

fn b_eval(b: &B, v: &[Option<bool>; 3]) -> Option<bool> {
    match b {
        B::V(i) => v[*i],
        B::And(x, y) => and3(b_eval(x, v), b_eval(y, v)),
        B::Or(x, y) => or3(b_eval(x, v), b_eval(y, v)),
        B::Not(x) => b_eval(x, v).map(|t| !t),
    }
}

fn bool_exprs() -> Vec<B> {
    let vars: Vec<B> = (0..3).map(B::V).collect();
    let mut d1: Vec<B> = vars.clone();
    for v in &vars {
        d1.push(B::Not(Box::new(v.clone())));
    }
    let mut out: Vec<B> = d1.clone();
    for x in &d1 {
        for y in &d1 {
            out.push(B::And(Box::new(x.clone()), Box::new(y.clone())));
            out.push(B::Or(Box::new(x.clone()), Box::new(y.clone())));
        }
    }
    // depth 2 on top of binary forms over plain vars
    let mut bins = Vec::new();
    for i in 0..3 {
        for j in 0..3 {
            bins.push(B::And(Box::new(B::V(i)), Box::new(B::V(j))));
            bins.push(B::Or(Box::new(B::V(i)), Box::new(B::V(j))));
        }
    }
    for x in &bins {
        out.push(B::Not(Box::new(x.clone())));
        for k in 0..3 {
            out.push(B::And(Box::new(x.clone()), Box::new(B::V(k))));
            out.push(B::Or(Box::new(B::V(k)), Box::new(x.clone())));
        }
    }
    out
}

fn tv_lit(v: Option<bool>) -> &'static str {
    match v {
        Some(true) => "true",
        Some(false) => "false",
        None => "CAST(NULL AS BOOLEAN)",
    }
}

fn check_truth_tables(w: &mut W, res: &mut Res) {
    let vals = [Some(true), Some(false), None];
    let mut combos: Vec<[Option<bool>; 3]> = Vec::new();
    for a in vals {
        for b in vals {
            for c in vals {
                combos.push([a, b, c]);
            }
        }
    }
    let rows: Vec<String> = combos.iter().enumerate().map(|(i, c)| format!("({}, {}, {}, {})", i, tv_lit(c[0]), tv_lit(c[1]), tv_lit(c[2]))).collect();
    let setup = vec!["DROP TABLE IF EXISTS b3".to_string(), "CREATE TEMP TABLE b3 (id INT, p BOOLEAN, q BOOLEAN, r BOOLEAN)".to_string(), format!("INSERT INTO b3 VALUES {}", rows.join(", "))];
    for s in &setup {
        w.set(s);
    }
    let tvv = |v: Option<bool>| match v {
        Some(b) => Val::Bool(b),
        None => Val::Null,
    };
    for e in bool_exprs() {
        let es = b_sql(&e);
        let want: Vec<Option<bool>> = combos.iter().map(|c| b_eval(&e, c)).collect();
        let true_ids: BTreeSet<i128> = want.iter().enumerate().filter(|(_, v)| **v == Some(true)).map(|(i, _)| i as i128).collect();
        // (query, kind): kind 0 = value per id, kind 1 = ids kept
        let qs: Vec<(String, u8, &str)> = vec![
            (format!("SELECT id, {es} FROM b3"), 0, "select"),
            (format!("SELECT id FROM b3 WHERE {es}"), 1, "where"),
            (format!("SELECT id, CASE WHEN {es} THEN 1 ELSE 0 END FROM b3"), 2, "case"),
            (format!("SELECT id FROM b3 GROUP BY id, p, q, r HAVING {es}"), 1, "having"),
            (format!("SELECT b3.id FROM b3 JOIN (VALUES (1)) o(one) ON {es}"), 1, "join-on"),
            (format!("SELECT id, {es} FROM (VALUES {}) b3(id, p, q, r)", rows.join(", ")), 0, "select-values"),
        ];
        for (sql, kind, ctx) in qs {
            if w.d.dirty {
                w.d = Driver::new();
                for s in &setup {
                    w.set(s);
                }
            }
            let o = w.q(&sql);
            res.evals += 1;
            match &o {
                Outcome::Rows(r) => {
                    let mut bad: Option<String> = None;
                    if kind == 1 {
                        let got: BTreeSet<i128> = r.rows.iter().filter_map(|x| x[0].as_int()).collect();
                        if got != true_ids || r.rows.len() != true_ids.len() {
                            bad = Some(format!("kept ids {:?}, expected exactly the TRUE rows {:?}", got, true_ids));
                        }
                    } else {
                        for row in &r.rows {
                            let id = row[0].as_int().unwrap_or(-1) as usize;
                            if id >= want.len() {
                                continue;
                            }
                            let exp = if kind == 0 { tvv(want[id]) } else { Val::Int(if want[id] == Some(true) { 1 } else { 0 }) };
                            if row[1] != exp {
                                bad = Some(format!("(p,q,r)={:?}: got {}, expected {}", combos[id], row[1], exp));
                                break;
                            }
                        }
                        if r.rows.len() != 27 {
                            bad = Some(format!("{} rows instead of 27", r.rows.len()));
                        }
                    }
                    match bad {
                        None => res.nontrivial += 1,
                        Some(b) => fail(res, format!("C05|3vl:{ctx}|{}", shape_of(&e)), &sql, &setup, "three-valued logic".into(), b, "truth table".into()),
                    }
                }
                Outcome::Error { msg, .. } => fail(res, format!("C05|3vl-error:{ctx}:{}|{}", msg_template(msg), shape_of(&e)), &sql, &setup, "rows".into(), o.brief(), "".into()),
                o => fail(res, format!("C05|{}|3vl:{ctx}", bad_class(o).unwrap()), &sql, &setup, "rows".into(), o.brief(), "".into()),
            }
        }
    }
}

fn shape_of(b: &B) -> String {
    match b {
        B::V(_) => "v".into(),
        B::And(x, y) => format!("and({},{})", shape_of(x), shape_of(y)),
        B::Or(x, y) => format!("or({},{})", shape_of(x), shape_of(y)),
        B::Not(x) => format!("not({})", shape_of(x)),
    }
}

// ------------------------------------------------------------------ comparisons and IS predicates against RM

fn check_comparisons(w: &mut W, res: &mut Res, tier: Tier) {
    use glaredb_core::arrays::datatype::DataTypeId as T;
    let types = [T::Boolean, T::Int8, T::Int16, T::Int32, T::Int64, T::UInt8, T::UInt16, T::UInt32, T::UInt64, T::Float32, T::Float64, T::Decimal64, T::Utf8, T::Date32, T::Timestamp];
    for t in types {
        let alpha = fnreg::alphabet(t, false).unwrap();
        let mut rows = Vec::new();
        let mut k = 0;
        for a in &alpha {
            for b in &alpha {
                rows.push(format!("({k}, {a}, {b})"));
                k += 1;
            }
        }
        let v = format!("(VALUES {}) v(id, a, b)", rows.join(", "));
        let sql = format!("SELECT id, a, b, a = b, a <> b, a < b, a <= b, a > b, a >= b, a IS DISTINCT FROM b, a IS NOT DISTINCT FROM b, a IS NULL, a IS NOT NULL, a BETWEEN b AND b, a IN (b), a NOT IN (b, b) FROM {v}");
        let variants: Vec<(&str, Vec<&str>)> = if tier.is_thorough() { vec![("default", vec![]), ("noopt", vec!["SET enable_optimizer TO false"]), ("batch1", vec!["SET batch_size TO 1"])] } else { vec![("default", vec![]), ("batch3", vec!["SET batch_size TO 3"])] };
        for (vn, sets) in variants {
            for s in &sets {
                w.set(s);
            }
            let o = w.q(&sql);
            res.evals += 1;
            if !sets.is_empty() && !w.d.dirty {
                w.set("SET enable_optimizer TO true");
                w.set("SET batch_size TO 2048");
            }
            let setv: Vec<String> = sets.iter().map(|s| s.to_string()).collect();
            match &o {
                Outcome::Rows(r) => {
                    for row in &r.rows {
                        let (a, b) = (&row[1], &row[2]);
                        let ord = if a.is_null() || b.is_null() { None } else { crate::rm::cmp_vals(&cmp_norm(a), &cmp_norm(b)).ok() };
                        let cmp = |f: fn(std::cmp::Ordering) -> bool| -> Val {
                            match ord {
                                Some(o) => Val::Bool(f(o)),
                                None => Val::Null,
                            }
                        };
                        use std::cmp::Ordering::*;
                        if ord.is_none() && !a.is_null() && !b.is_null() {
                            continue; // not comparable in RM
                        }
                        // comparisons involving NaN are not defined by the docs (IEEE vs total order): not asserted
                        let is_nan = |v: &Val| v.as_f64().map(|f| f.is_nan()).unwrap_or(false) && matches!(v, Val::F64(_) | Val::F32(_) | Val::F16(_));
                        if is_nan(a) || is_nan(b) {
                            continue;
                        }
                        let same = match (a.is_null(), b.is_null()) {
                            (true, true) => true,
                            (false, false) => ord == Some(Equal),
                            _ => false,
                        };
                        let eq = cmp(|o| o == Equal);
                        let ge_le = match (&cmp(|o| o != Less), &cmp(|o| o != Greater)) {
                            (Val::Bool(x), Val::Bool(y)) => Val::Bool(*x && *y),
                            _ => Val::Null,
                        };
                        let not_in = match &eq {
                            Val::Bool(x) => Val::Bool(!x),
                            _ => Val::Null,
                        };
                        let want = [eq.clone(), cmp(|o| o != Equal), cmp(|o| o == Less), cmp(|o| o != Greater), cmp(|o| o == Greater), cmp(|o| o != Less), Val::Bool(!same), Val::Bool(same), Val::Bool(a.is_null()), Val::Bool(!a.is_null()), ge_le, eq.clone(), not_in];
                        let names = ["=", "<>", "<", "<=", ">", ">=", "IS DISTINCT FROM", "IS NOT DISTINCT FROM", "IS NULL", "IS NOT NULL", "BETWEEN", "IN", "NOT IN"];
                        for (k, wv) in want.iter().enumerate() {
                            if &row[3 + k] != wv {
                                fail(res, format!("C05|cmp:{}|{}", names[k], t), &sql, &setv, format!("{a} {} {b} = {wv}", names[k]), format!("{}", row[3 + k]), format!("variant={vn}"));
                            }
                        }
                        res.nontrivial += 1;
                    }
                }
                Outcome::Error { msg, .. } => fail(res, format!("C05|cmp-error:{}|{}", msg_template(msg), t), &sql, &setv, "rows".into(), o.brief(), "".into()),
                o => fail(res, format!("C05|{}|cmp:{}", bad_class(o).unwrap(), t), &sql, &setv, "rows".into(), o.brief(), "".into()),
            }
        }
    }
    // IS TRUE / IS FALSE as documented (NULL input gives NULL)
    let sql = "SELECT p, p IS TRUE, p IS FALSE, p IS NOT TRUE, p IS NOT FALSE FROM (VALUES (true), (false), (CAST(NULL AS BOOLEAN))) v(p)";
    let o = w.q(sql);
    res.evals += 1;
    if let Outcome::Rows(r) = &o {
        for row in &r.rows {
            let want: Vec<Val> = match &row[0] {
                Val::Bool(true) => vec![Val::Bool(true), Val::Bool(false), Val::Bool(false), Val::Bool(true)],
                Val::Bool(false) => vec![Val::Bool(false), Val::Bool(true), Val::Bool(true), Val::Bool(false)],
                // NULL input: the docs say NULL, standard SQL says false/true - not asserted
                _ => continue,
            };
            if row[1..] != want[..] {
                fail(res, "C05|is-predicates|boolean".into(), sql, &[], format!("{:?}", want), format!("{:?}", &row[1..]), "docs/sql/expressions/comparison.md".into());
            }
        }
    }
}

/// comparisons between two DIFFERENT integer types: the mathematical order of the two values, whatever the
/// common type the binder picks (a lossy common type such as a float makes 2^63-1 = 2^63)
fn check_mixed_int_comparisons(w: &mut W, res: &mut Res, tier: Tier) {
    use glaredb_core::arrays::datatype::DataTypeId as T;
    let ints = [T::Int8, T::Int16, T::Int32, T::Int64, T::UInt8, T::UInt16, T::UInt32, T::UInt64];
    let extra = |t: T| -> Vec<&'static str> {
        match t {
            T::Int8 => vec!["126"],
            T::UInt8 => vec!["127", "128"],
            T::Int16 => vec!["127", "128", "255", "256", "32766"],
            T::UInt16 => vec!["32767", "32768", "255", "256"],
            T::Int32 => vec!["32767", "32768", "65535", "65536", "2147483646", "16777217"],
            T::UInt32 => vec!["2147483647", "2147483648", "65535", "65536", "16777217"],
            T::Int64 => vec!["2147483647", "2147483648", "4294967295", "4294967296", "9223372036854775806", "9007199254740993", "9007199254740992"],
            T::UInt64 => vec!["9223372036854775807", "9223372036854775808", "4294967295", "4294967296", "9007199254740993", "18446744073709551614"],
            _ => vec![],
        }
    };
    let vals = |t: T| -> Vec<String> {
        let mut v = fnreg::alphabet(t, false).unwrap();
        let ty = fnreg::sql_type(t).unwrap();
        v.extend(extra(t).into_iter().map(|l| format!("CAST({l} AS {ty})")));
        v
    };
    let quick_pairs = [(T::UInt64, T::Int64), (T::Int64, T::UInt64), (T::UInt32, T::Int32), (T::Int32, T::UInt32), (T::Int8, T::UInt8), (T::UInt64, T::Int8), (T::Int16, T::UInt64), (T::Int32, T::Int64), (T::UInt16, T::Int64), (T::UInt8, T::Int32), (T::Int64, T::Int16), (T::UInt32, T::UInt64)];
    for ta in ints {
        for tb in ints {
            if ta == tb || (!tier.is_thorough() && !quick_pairs.contains(&(ta, tb))) {
                continue;
            }
            let (va, vb) = (vals(ta), vals(tb));
            let mut rows = Vec::new();
            let mut k = 0;
            for a in &va {
                for b in &vb {
                    rows.push(format!("({k}, {a}, {b})"));
                    k += 1;
                }
            }
            let v = format!("(VALUES {}) v(id, a, b)", rows.join(", "));
            let sql = format!("SELECT id, a, b, a = b, a <> b, a < b, a <= b, a > b, a >= b, a IS DISTINCT FROM b, a BETWEEN b AND b, a IN (b) FROM {v}");
            let variants: Vec<(&str, Vec<&str>)> = if tier.is_thorough() { vec![("default", vec![]), ("noopt", vec!["SET enable_optimizer TO false"])] } else { vec![("default", vec![])] };
            for (vn, sets) in variants {
                for s in &sets {
                    w.set(s);
                }
                let o = w.q(&sql);
                res.evals += 1;
                if !sets.is_empty() && !w.d.dirty {
                    w.set("SET enable_optimizer TO true");
                }
                let setv: Vec<String> = sets.iter().map(|s| s.to_string()).collect();
                match &o {
                    Outcome::Rows(r) => {
                        for row in &r.rows {
                            let (Some(a), Some(b)) = (row[1].as_int(), row[2].as_int()) else {
                                // NULL operand: every predicate but IS DISTINCT FROM is NULL
                                let both_null = row[1].is_null() && row[2].is_null();
                                let want = [Val::Null, Val::Null, Val::Null, Val::Null, Val::Null, Val::Null, Val::Bool(!both_null), Val::Null, Val::Null];
                                if row[3..12] != want[..] {
                                    fail(res, format!("C05|cmp-mixed:null|{ta}x{tb}"), &sql, &setv, format!("{:?}", want), format!("{:?}", &row[3..12]), format!("variant={vn}"));
                                }
                                continue;
                            };
                            let want = [a == b, a != b, a < b, a <= b, a > b, a >= b, a != b, a == b, a == b];
                            let names = ["=", "<>", "<", "<=", ">", ">=", "IS DISTINCT FROM", "BETWEEN", "IN"];
                            for (k, wv) in want.iter().enumerate() {
                                if row[3 + k] != Val::Bool(*wv) {
                                    fail(res, format!("C05|cmp-mixed:{}|{ta}x{tb}", names[k]), &sql, &setv, format!("{a} {} {b} = {wv}", names[k]), format!("{}", row[3 + k]), format!("variant={vn}"));
                                }
                            }
                            res.nontrivial += 1;
                        }
                    }
                    // no common type / not comparable: nothing is asserted
                    Outcome::Error { .. } => res.skipped += 1,
                    o => fail(res, format!("C05|{}|cmp-mixed:{ta}x{tb}", bad_class(o).unwrap()), &sql, &setv, "rows".into(), o.brief(), "".into()),
                }
            }
        }
    }
}

/// normalise numeric variants so RM's comparator can order them
fn cmp_norm(v: &Val) -> Val {
    match v {
        Val::F32(_) | Val::F16(_) => Val::f64(v.as_f64().unwrap()),
        Val::Dec(u, _, _) => Val::Int(*u),
        Val::Date32(d) => Val::Int(*d as i128),
        Val::Date64(d) => Val::Int(*d as i128),
        Val::Ts(_, t) => Val::Int(*t as i128),
        o => o.clone(),
    }
}

// ------------------------------------------------------------------ operator precedence

#[derive(Clone, Debug)]
enum A {
    N(i64),
    Bin(char, Box<A>, Box<A>),
    Neg(Box<A>),
}

fn a_eval(a: &A) -> Option<i64> {
    match a {
        A::N(n) => Some(*n),
        A::Neg(x) => a_eval(x).map(|v| -v),
        A::Bin(op, l, r) => {
            let (x, y) = (a_eval(l)?, a_eval(r)?);
            match op {
                '+' => Some(x + y),
                '-' => Some(x - y),
                '*' => Some(x * y),
                '%' => {
                    if y == 0 { None } else { Some(x % y) }
                }
                _ => None,
            }
        }
    }
}

fn a_paren(a: &A) -> String {
    match a {
        A::N(n) => format!("{n}"),
        A::Neg(x) => format!("(- {})", a_paren(x)),
        A::Bin(op, l, r) => format!("({} {} {})", a_paren(l), op, a_paren(r)),
    }
}

/// Parse a flat token list with standard precedence: unary minus > * % > + -
fn parse_flat(tokens: &[String]) -> A {
    fn prim(t: &[String], i: &mut usize) -> A {
        if t[*i] == "-" {
            *i += 1;
            return A::Neg(Box::new(prim(t, i)));
        }
        let n = t[*i].parse::<i64>().unwrap();
        *i += 1;
        A::N(n)
    }
    fn term(t: &[String], i: &mut usize) -> A {
        let mut l = prim(t, i);
        while *i < t.len() && (t[*i] == "*" || t[*i] == "%") {
            let op = t[*i].chars().next().unwrap();
            *i += 1;
            let r = prim(t, i);
            l = A::Bin(op, Box::new(l), Box::new(r));
        }
        l
    }
    let mut i = 0;
    let mut l = term(tokens, &mut i);
    while i < tokens.len() && (tokens[i] == "+" || tokens[i] == "-") {
        let op = tokens[i].chars().next().unwrap();
        i += 1;
        let r = term(tokens, &mut i);
        l = A::Bin(op, Box::new(l), Box::new(r));
    }
    l
}

fn check_precedence(w: &mut W, res: &mut Res) {
    let ops = ["+", "-", "*", "%"];
    let nums = ["7", "2", "3", "5"];
    // arithmetic: all flat expressions with 2 and 3 binary operators (+ optional leading unary minus)
    let mut exprs: Vec<Vec<String>> = Vec::new();
    for o1 in ops {
        for o2 in ops {
            exprs.push(vec![nums[0].into(), o1.into(), nums[1].into(), o2.into(), nums[2].into()]);
            exprs.push(vec!["-".into(), nums[0].into(), o1.into(), nums[1].into(), o2.into(), nums[2].into()]);
            exprs.push(vec![nums[0].into(), o1.into(), "-".into(), nums[1].into(), o2.into(), nums[2].into()]);
            for o3 in ops {
                exprs.push(vec![nums[0].into(), o1.into(), nums[1].into(), o2.into(), nums[2].into(), o3.into(), nums[3].into()]);
            }
        }
    }
    for toks in exprs {
        let flat = toks.join(" ");
        let ast = parse_flat(&toks);
        let want = a_eval(&ast);
        let sql = format!("SELECT {flat}, {}", a_paren(&ast));
        let o = w.q(&sql);
        res.evals += 1;
        match (&o, want) {
            (Outcome::Rows(r), Some(wv)) => {
                let got = &r.rows[0];
                if got[0] != Val::Int(wv as i128) || got[1] != Val::Int(wv as i128) {
                    fail(res, "C05|precedence:arith|flat".into(), &sql, &[], format!("{wv} for both renderings"), format!("{} and {}", got[0], got[1]), "operator precedence (* % bind tighter than + -, unary minus tightest)".into());
                } else {
                    res.nontrivial += 1;
                }
            }
            (Outcome::Error { .. }, None) => {}
            (Outcome::Rows(_), None) => {}
            (o, _) => {
                if let Some(c) = bad_class(o) {
                    fail(res, format!("C05|{c}|precedence"), &sql, &[], "value".into(), o.brief(), "".into());
                } else {
                    fail(res, "C05|precedence-error|flat".into(), &sql, &[], format!("{want:?}"), o.brief(), "".into());
                }
            }
        }
    }
    // boolean precedence: NOT > AND > OR, comparison tighter than NOT
    let vals = ["true", "false", "CAST(NULL AS BOOLEAN)"];
    let tv = |s: &str| match s {
        "true" => Some(true),
        "false" => Some(false),
        _ => None,
    };
    for a in vals {
        for b in vals {
            for c in vals {
                let cases: Vec<(String, Option<bool>)> = vec![
                    (format!("{a} OR {b} AND {c}"), or3(tv(a), and3(tv(b), tv(c)))),
                    (format!("{a} AND {b} OR {c}"), or3(and3(tv(a), tv(b)), tv(c))),
                    (format!("NOT {a} AND {b}"), and3(tv(a).map(|x| !x), tv(b))),
                    (format!("NOT {a} OR {b} AND NOT {c}"), or3(tv(a).map(|x| !x), and3(tv(b), tv(c).map(|x| !x)))),
                    (format!("{a} OR NOT {b} AND {c}"), or3(tv(a), and3(tv(b).map(|x| !x), tv(c)))),
                    (format!("NOT {a} = {b}"), match (tv(a), tv(b)) { (Some(x), Some(y)) => Some(x != y), _ => None }),
                    (format!("{a} AND 1 + 1 = 2 OR {c}"), or3(and3(tv(a), Some(true)), tv(c))),
                    (format!("{a} OR 2 * 3 < 5 + 2 AND {c}"), or3(tv(a), and3(Some(true), tv(c)))),
                ];
                for (e, want) in cases {
                    let sql = format!("SELECT {e}");
                    let o = w.q(&sql);
                    res.evals += 1;
                    let wv = match want {
                        Some(b) => Val::Bool(b),
                        None => Val::Null,
                    };
                    match &o {
                        Outcome::Rows(r) if r.rows.len() == 1 => {
                            if r.rows[0][0] != wv {
                                fail(res, "C05|precedence:bool|flat".into(), &sql, &[], format!("{wv}"), format!("{}", r.rows[0][0]), "NOT > AND > OR; comparison and arithmetic bind tighter".into());
                            } else {
                                res.nontrivial += 1;
                            }
                        }
                        o => {
                            let c = bad_class(o).unwrap_or_else(|| "precedence-error".into());
                            fail(res, format!("C05|{c}|precedence:bool"), &sql, &[], format!("{wv}"), o.brief(), "".into());
                        }
                    }
                }
            }
        }
    }
}

pub fn run(tier: Tier) -> i32 {
    let mut rep = Report::new("C05", tier, "exploration");
    crate::guard::set_wall_limit_ms(4000);
    let sigs: Vec<Sig> = fnreg::scalar_sigs().into_iter().filter(|s| !s.volatile && s.category != "debug" && s.category != "system").collect();
    let n_sigs = sigs.len();
    // work items: signatures + 4 fixed sub-checks
    let n = n_sigs + 5;
    let results = par_run(n, W::new, |w, i| {
        let mut res = Res::default();
        if i < n_sigs {
            check_sig(w, &sigs[i], tier, &mut res);
            if std::env::var("VERIF_TRACE").is_ok() {
                eprintln!("done {}", sig_name(&sigs[i]));
            }
        } else {
            match i - n_sigs {
                0 => check_examples(w, &mut res),
                1 => check_truth_tables(w, &mut res),
                2 => check_comparisons(w, &mut res, tier),
                3 => check_mixed_int_comparisons(w, &mut res, tier),
                _ => check_precedence(w, &mut res),
            }
        }
        res
    });
    let (mut evals, mut nontriv, mut skipped) = (0u64, 0u64, 0u64);
    let mut outcomes = BTreeSet::new();
    for r in results {
        evals += r.evals;
        nontriv += r.nontrivial;
        skipped += r.skipped;
        outcomes.extend(r.outcomes);
        for (k, rp) in r.fails {
            rep.fail(k, rp);
        }
    }
    rep.cov("evaluations", json!(evals));
    rep.cov("distinct_nontrivial", json!(nontriv));
    rep.cov("rule", json!("for every non-volatile scalar signature of BUILTIN_SCALAR_FUNCTION_SETS with arity 1..3 whose argument types have a value alphabet: the full product of the per-type alphabets (NULL, extremes, non-finite, empty, multi-byte, long strings) evaluated (1) on literals, (2) on literals with the optimizer off, then over a VALUES table of the non-erroring tuples in contexts flat / under a selection / inside CASE / duplicated (CSE) / batch_size 1 / batch_size 3 + selection / one argument constant; all contexts must give the literal-context value. Plus every documented example, all AND/OR/NOT expressions of depth <= 2 over the 27 three-valued assignments in SELECT/WHERE/CASE/HAVING/JOIN ON, all comparison and IS/BETWEEN/IN predicates over alphabet x alphabet for 15 types against RM, comparisons between different integer types (12 / 56 ordered type pairs x boundary alphabets) against the mathematical order, and all flat arithmetic/boolean expressions of <= 3 operators against a precedence-climbing parse. non-trivial = tuples that evaluate to a value and agree / examples that match"));
    rep.cov("signatures", json!(n_sigs));
    rep.cov("signatures_skipped_unsupported_types_or_arity", json!(skipped));
    rep.cov("distinct_outcomes", json!(outcomes.into_iter().collect::<Vec<_>>()));
    rep.cov("exhaustive", json!(true));
    rep.cov("samples", json!([
        {"signature": sigs.first().map(sig_name), "literal": "SELECT f(CAST(NULL AS T)), ...", "table": "SELECT id, f(c0) FROM (VALUES ...) v(id, c0) WHERE id % 2 = 0"},
        {"truth_table": "SELECT id FROM b3 WHERE (p AND (NOT q))"},
        {"precedence": "SELECT 7 - 2 * 3 % 5, (7 - ((2 * 3) % 5))"}
    ]));
    rep.finish()
}
