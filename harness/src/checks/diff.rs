//! Differential runner shared by C02 (optimizer on/off) and C03 (physical
//! configuration independence): the same (term, database) is executed under a
//! reference configuration and under every other configuration of an alphabet.
use std::collections::BTreeSet;

use super::rel::{RawFail, Worker, outcome_fail_class};
use crate::alg::{self, DbInst, Term};
use crate::drv::{Outcome, Phase, RowsOut};
use crate::infra::{Replay, msg_template};
use crate::rm;
use crate::val::bag;

#[derive(Clone, Debug, PartialEq, Eq)]
pub struct Config {
    pub name: String,
    pub sets: Vec<String>,
}

pub fn cfg(name: &str, sets: &[&str]) -> Config {
    Config { name: name.to_string(), sets: sets.iter().map(|s| s.to_string()).collect() }
}

/// How two outcomes of the same statement may legitimately differ.
#[derive(Clone, Copy, Debug, PartialEq, Eq)]
pub enum Tolerance {
    /// C02: exactly one side may fail with a run-time evaluation error
    OneSidedRuntimeError,
    /// C03: no difference tolerated, errors must agree in phase
    None,
}

pub struct DiffStats {
    pub evals: u64,
    pub nontrivial: u64,
    pub permitted_asymmetry: u64,
    pub both_error: u64,
    pub outcomes: BTreeSet<String>,
    pub fails: Vec<RawFail>,
    pub dbs: u64,
}

fn rows_equivalent(q: Option<&rm::Query>, a: &RowsOut, b: &RowsOut) -> Result<(), String> {
    if a.names != b.names {
        return Err(format!("column names differ: {:?} vs {:?}", a.names, b.names));
    }
    if a.types != b.types {
        return Err(format!("column types differ: {:?} vs {:?}", a.types, b.types));
    }
    if a.rows.len() != b.rows.len() {
        return Err(format!("row counts differ: {} vs {}; {} vs {}", a.rows.len(), b.rows.len(), crate::val::fmt_rows(&a.rows, 10), crate::val::fmt_rows(&b.rows, 10)));
    }
    let ordered = q.map(|q| !q.order_by.is_empty()).unwrap_or(false);
    let limited = q.map(|q| q.limit.is_some() || q.offset.is_some()).unwrap_or(false);
    if ordered {
        let keys = &q.unwrap().order_by;
        // both must be sorted; key sequences equal
        for (x, y) in a.rows.iter().zip(&b.rows) {
            match rm::cmp_rows_by(x, y, keys) {
                Ok(std::cmp::Ordering::Equal) => {}
                Ok(_) => return Err(format!("ordered results differ in key sequence: {} vs {}", crate::val::fmt_rows(&a.rows, 10), crate::val::fmt_rows(&b.rows, 10))),
                Err(_) => {}
            }
        }
        if limited {
            // rows inside a cut tie group may legitimately differ
            return Ok(());
        }
    } else if limited {
        // an arbitrary sub-bag is admissible on both sides
        return Ok(());
    }
    if bag(&a.rows) != bag(&b.rows) {
        return Err(format!("row bags differ: {} vs {}", crate::val::fmt_rows(&a.rows, 10), crate::val::fmt_rows(&b.rows, 10)));
    }
    Ok(())
}

/// Compare the outcome under a configuration with the reference outcome.
/// Returns Some((class, detail)) on a violation.
pub fn compare(q: Option<&rm::Query>, reference: &Outcome, other: &Outcome, tol: Tolerance, st: &mut DiffStats) -> Option<(String, String)> {
    if let Some(c) = outcome_fail_class(other) {
        return Some((c, other.brief()));
    }
    match (reference, other) {
        (Outcome::Rows(a), Outcome::Rows(b)) => match rows_equivalent(q, a, b) {
            Ok(()) => {
                if !a.rows.is_empty() {
                    st.nontrivial += 1;
                }
                None
            }
            Err(e) => Some(("differs".into(), e)),
        },
        (Outcome::Error { phase: pa, msg: ma }, Outcome::Error { phase: pb, msg: mb }) => {
            st.both_error += 1;
            if tol == Tolerance::None && pa != pb {
                return Some(("error-phase-differs".into(), format!("{pa:?}: {ma} vs {pb:?}: {mb}")));
            }
            None
        }
        (Outcome::Rows(_), Outcome::Error { phase, msg }) | (Outcome::Error { phase, msg }, Outcome::Rows(_)) => {
            if tol == Tolerance::OneSidedRuntimeError && *phase == Phase::Exec {
                st.permitted_asymmetry += 1;
                None
            } else {
                Some((format!("one-sided-error:{}", msg_template(msg)), format!("reference {} vs {}", reference.brief(), other.brief())))
            }
        }
        _ => None, // reference itself panicked/hung: reported separately
    }
}

pub fn apply_config(w: &mut Worker, c: &Config) {
    for s in &c.sets {
        w.d.must(s);
    }
}

/// Run one term over its database scope under all configs.
#[allow(clippy::too_many_arguments)]
pub fn diff_term(check: &str, w: &mut Worker, ti: usize, t: &Term, r: usize, budget: usize, reference: &Config, others: &[Config], tol: Tolerance, modes: &[u8]) -> DiffStats {
    let scope = alg::scope_for(&t.q, r, budget);
    let mut st = DiffStats { evals: 0, nontrivial: 0, permitted_asymmetry: 0, both_error: 0, outcomes: BTreeSet::new(), fails: vec![], dbs: scope.dbs.len() as u64 };
    let mut seen: BTreeSet<String> = BTreeSet::new();
    for (dbi, db) in scope.dbs.iter().enumerate() {
        let mode = modes[dbi % modes.len()];
        w.ensure_clean();
        let (mut sql, mut setup) = render(w, t, db, mode);
        apply_config(w, reference);
        let ref_out = w.d.q(&sql);
        st.evals += 1;
        st.outcomes.insert(ref_out.class().to_string());
        if let Some(c) = outcome_fail_class(&ref_out) {
            record(check, &mut st, &mut seen, ti, t, db, &setup, &sql, reference, c, "rows or error".into(), ref_out.brief());
            continue;
        }
        for c in others {
            if w.d.dirty {
                w.reset();
                (sql, setup) = render(w, t, db, mode);
            }
            apply_config(w, c);
            let out = w.d.q(&sql);
            st.evals += 1;
            if let Some((class, detail)) = compare(Some(&t.q), &ref_out, &out, tol, &mut st) {
                record(check, &mut st, &mut seen, ti, t, db, &setup, &sql, c, class, format!("same as under {}: {}", reference.name, ref_out.brief()), detail);
            }
        }
    }
    st
}

/// Like diff_term but over one given database. mode 0 = TEMP tables, 1 = inline VALUES.
#[allow(clippy::too_many_arguments)]
pub fn diff_term_on_db(check: &str, w: &mut Worker, ti: usize, t: &Term, db: &DbInst, reference: &Config, others: &[Config], tol: Tolerance, mode: u8) -> DiffStats {
    let mut st = DiffStats { evals: 0, nontrivial: 0, permitted_asymmetry: 0, both_error: 0, outcomes: BTreeSet::new(), fails: vec![], dbs: 1 };
    let mut seen: BTreeSet<String> = BTreeSet::new();
    w.ensure_clean();
    let (mut sql, mut setup) = render(w, t, db, mode);
    apply_config(w, reference);
    let ref_out = w.d.q(&sql);
    st.evals += 1;
    st.outcomes.insert(ref_out.class().to_string());
    if let Some(c) = outcome_fail_class(&ref_out) {
        record(check, &mut st, &mut seen, ti, t, db, &setup, &sql, reference, c, "rows or error".into(), ref_out.brief());
        return st;
    }
    for c in others {
        if w.d.dirty {
            w.reset();
            (sql, setup) = render(w, t, db, mode);
        }
        apply_config(w, c);
        let out = w.d.q(&sql);
        st.evals += 1;
        if let Some((class, detail)) = compare(Some(&t.q), &ref_out, &out, tol, &mut st) {
            record(check, &mut st, &mut seen, ti, t, db, &setup, &sql, c, class, format!("same as under {}: {}", reference.name, ref_out.brief()), detail);
        }
    }
    st
}

fn render(w: &mut Worker, t: &Term, db: &DbInst, mode: u8) -> (String, Vec<String>) {
    if mode == 0 {
        let (pq, setup) = w.physicalize(&t.q, db);
        (pq.sql(), setup)
    } else {
        (alg::inline_values(&t.q, db).sql(), vec![])
    }
}

#[allow(clippy::too_many_arguments)]
fn record(check: &str, st: &mut DiffStats, seen: &mut BTreeSet<String>, ti: usize, t: &Term, db: &DbInst, setup: &[String], sql: &str, c: &Config, class: String, expected: String, observed: String) {
    st.outcomes.insert(format!("FAIL:{class}"));
    if !seen.insert(format!("{class}/{}", c.name)) {
        return;
    }
    let mut steps: Vec<(usize, String)> = setup.iter().map(|s| (0usize, s.clone())).collect();
    for s in &c.sets {
        steps.push((0, s.clone()));
    }
    steps.push((0, sql.to_string()));
    st.fails.push(RawFail {
        term_idx: ti,
        class: format!("{}@{}", class, c.name),
        replay: Replay { check: check.into(), steps, expected, observed, note: format!("shape={} config={} db={}", t.shape, c.name, db.describe()), ..Default::default() },
    });
}
