//! C14 - catalog and table contents equal the sequential effect of DDL/DML.
//! E-HIST: breadth-first search over statement histories (two sessions of one
//! engine) with canonical-observation hashing; every transition replays the
//! real sessions and is compared with an in-harness catalog model.
use std::collections::{BTreeMap, BTreeSet, HashSet};

use serde_json::json;

use super::rel::outcome_fail_class;
use crate::drv::{Driver, Outcome};
use crate::infra::{Replay, Report, Tier, par_run};
use crate::val::{Row, Val, bag};

#[derive(Clone, Debug, PartialEq, Eq, Hash, PartialOrd, Ord)]
enum Stmt {
    CreateSchema { if_not_exists: bool },
    DropSchema { if_exists: bool },
    CreateTable { schema: bool, name: &'static str, if_not_exists: bool, or_replace: bool },
    Ctas,
    /// CTAS whose query is an inner join: with an empty t1 its pipeline ends without producing any batch
    CtasJoin,
    /// CREATE TEMP TABLE IF NOT EXISTS <t1|t2> AS ...
    CtasIfNotExists { target_t1: bool },
    CreateView,
    DropTable { name: &'static str, if_exists: bool },
    InsertValues { schema: bool },
    InsertSelect,
    InsertFailsAtRuntime,
    InsertBadArity,
    InsertMissing,
    SetPartitions,
    SetBatch,
    ResetPartitions,
    ResetAll,
    SetUnknown,
}

impl Stmt {
    fn sql(&self) -> String {
        match self {
            Stmt::CreateSchema { if_not_exists } => format!("CREATE SCHEMA {}s1", if *if_not_exists { "IF NOT EXISTS " } else { "" }),
            Stmt::DropSchema { if_exists } => format!("DROP SCHEMA {}s1", if *if_exists { "IF EXISTS " } else { "" }),
            Stmt::CreateTable { schema, name, if_not_exists, or_replace } => format!("CREATE {}TEMP TABLE {}{}{} (a INT, b TEXT)", if *or_replace { "OR REPLACE " } else { "" }, if *if_not_exists { "IF NOT EXISTS " } else { "" }, if *schema { "s1." } else { "" }, name),
            Stmt::Ctas => "CREATE TEMP TABLE t2 AS SELECT a + 100 AS a, b FROM t1".into(),
            Stmt::CtasJoin => "CREATE TEMP TABLE t2 AS SELECT x.a + 100 AS a, x.b FROM t1 x JOIN (VALUES (1), (2), (11), (12)) k(v) ON x.a = k.v".into(),
            Stmt::CtasIfNotExists { target_t1: true } => "CREATE TEMP TABLE IF NOT EXISTS t1 AS SELECT CAST(7 AS INT) AS a, 'z' AS b".into(),
            Stmt::CtasIfNotExists { target_t1: false } => "CREATE TEMP TABLE IF NOT EXISTS t2 AS SELECT a + 100 AS a, b FROM t1".into(),
            Stmt::CreateView => "CREATE TEMP VIEW v1 AS SELECT * FROM t1".into(),
            Stmt::DropTable { name, if_exists } => format!("DROP TABLE {}{}", if *if_exists { "IF EXISTS " } else { "" }, name),
            Stmt::InsertValues { schema } => format!("INSERT INTO {}t1 VALUES (1, 'x'), (2, NULL)", if *schema { "s1." } else { "" }),
            Stmt::InsertSelect => "INSERT INTO t1 SELECT a + 10, b FROM t1".into(),
            Stmt::InsertFailsAtRuntime => "INSERT INTO t1 SELECT CAST(coalesce(b, 'q') AS INT), b FROM t1".into(),
            Stmt::InsertBadArity => "INSERT INTO t1 VALUES (1, 'x', 3)".into(),
            Stmt::InsertMissing => "INSERT INTO t3 VALUES (1, 'x')".into(),
            Stmt::SetPartitions => "SET partitions TO 3".into(),
            Stmt::SetBatch => "SET batch_size TO 100".into(),
            Stmt::ResetPartitions => "RESET partitions".into(),
            Stmt::ResetAll => "RESET ALL".into(),
            Stmt::SetUnknown => "SET nonexistent TO 1".into(),
        }
    }
}

fn alphabet(tier: Tier) -> Vec<Stmt> {
    let mut v = vec![
        Stmt::CreateTable { schema: false, name: "t1", if_not_exists: false, or_replace: false },
        Stmt::InsertValues { schema: false },
        Stmt::InsertSelect,
        Stmt::InsertFailsAtRuntime,
        Stmt::DropTable { name: "t1", if_exists: false },
        Stmt::CreateView,
        Stmt::Ctas,
        Stmt::CtasJoin,
        Stmt::CtasIfNotExists { target_t1: true },
        Stmt::CreateSchema { if_not_exists: false },
        Stmt::CreateTable { schema: true, name: "t1", if_not_exists: false, or_replace: false },
        Stmt::DropSchema { if_exists: false },
        Stmt::SetPartitions,
        Stmt::ResetAll,
    ];
    if tier.is_thorough() {
        v.extend([
            Stmt::CreateTable { schema: false, name: "t1", if_not_exists: true, or_replace: false },
            Stmt::CreateTable { schema: false, name: "t1", if_not_exists: false, or_replace: true },
            Stmt::CtasIfNotExists { target_t1: false },
            Stmt::CreateSchema { if_not_exists: true },
            Stmt::DropSchema { if_exists: true },
            Stmt::DropTable { name: "t1", if_exists: true },
            Stmt::DropTable { name: "t2", if_exists: false },
            Stmt::InsertValues { schema: true },
            Stmt::InsertBadArity,
            Stmt::InsertMissing,
            Stmt::SetBatch,
            Stmt::ResetPartitions,
            Stmt::SetUnknown,
        ]);
    }
    v
}

// ------------------------------------------------------------------ the model

#[derive(Clone, Debug, Default, PartialEq, Eq)]
struct Sess {
    has_s1: bool,
    /// (schema, name) -> rows of (a, b)
    tables: BTreeMap<(String, String), Vec<Row>>,
    has_view: bool,
    partitions: Option<i64>,
    batch: Option<i64>,
}

#[derive(Clone, Copy, Debug, PartialEq, Eq)]
enum Expect {
    Ok,
    Error,
    /// under-specified by the docs: either, but the state must follow the outcome
    Either,
}

fn tkey(schema: &str, name: &str) -> (String, String) {
    (schema.to_string(), name.to_string())
}

/// Apply a statement to the model. Returns the expected outcome class, the state if the
/// statement succeeds, and (for INSERT / CTAS) the reported row count.
fn apply(s: &Sess, st: &Stmt) -> (Expect, Sess, Option<i128>) {
    let mut n = s.clone();
    match st {
        Stmt::CreateSchema { if_not_exists } => {
            if s.has_s1 {
                return (if *if_not_exists { Expect::Ok } else { Expect::Error }, n, None);
            }
            n.has_s1 = true;
            (Expect::Ok, n, None)
        }
        Stmt::DropSchema { if_exists } => {
            if !s.has_s1 {
                return (if *if_exists { Expect::Ok } else { Expect::Error }, n, None);
            }
            let nonempty = s.tables.keys().any(|k| k.0 == "s1");
            n.has_s1 = false;
            n.tables.retain(|k, _| k.0 != "s1");
            (if nonempty { Expect::Either } else { Expect::Ok }, n, None)
        }
        Stmt::CreateTable { schema, name, if_not_exists, or_replace } => {
            let sch = if *schema { "s1" } else { "temp" };
            if *schema && !s.has_s1 {
                return (Expect::Error, n, None);
            }
            let k = tkey(sch, name);
            if s.tables.contains_key(&k) {
                if *or_replace {
                    n.tables.insert(k, vec![]);
                    return (Expect::Either, n, None);
                }
                return (if *if_not_exists { Expect::Ok } else { Expect::Error }, n, None);
            }
            n.tables.insert(k, vec![]);
            (if *or_replace { Expect::Either } else { Expect::Ok }, n, None)
        }
        Stmt::Ctas => {
            let src = match s.tables.get(&tkey("temp", "t1")) {
                Some(r) => r,
                None => return (Expect::Error, n, None),
            };
            if s.tables.contains_key(&tkey("temp", "t2")) {
                return (Expect::Error, n, None);
            }
            let rows: Vec<Row> = src.iter().map(|r| vec![add(&r[0], 100), r[1].clone()]).collect();
            let cnt = rows.len() as i128;
            n.tables.insert(tkey("temp", "t2"), rows);
            (Expect::Ok, n, Some(cnt))
        }
        Stmt::CtasJoin => {
            let src = match s.tables.get(&tkey("temp", "t1")) {
                Some(r) => r,
                None => return (Expect::Error, n, None),
            };
            if s.tables.contains_key(&tkey("temp", "t2")) {
                return (Expect::Error, n, None);
            }
            let rows: Vec<Row> = src.iter().filter(|r| matches!(&r[0], Val::Int(a) if [1, 2, 11, 12].contains(a))).map(|r| vec![add(&r[0], 100), r[1].clone()]).collect();
            let cnt = rows.len() as i128;
            n.tables.insert(tkey("temp", "t2"), rows);
            (Expect::Ok, n, Some(cnt))
        }
        Stmt::CtasIfNotExists { target_t1: true } => {
            // an existing table is left exactly as it is; otherwise the table is created from the query
            if s.tables.contains_key(&tkey("temp", "t1")) {
                return (Expect::Ok, n, None);
            }
            n.tables.insert(tkey("temp", "t1"), vec![vec![Val::Int(7), Val::Str("z".into())]]);
            (Expect::Ok, n, Some(1))
        }
        Stmt::CtasIfNotExists { target_t1: false } => {
            let src = match s.tables.get(&tkey("temp", "t1")) {
                Some(r) => r,
                // the source does not bind; with an existing target either outcome leaves the state unchanged
                None => return (if s.tables.contains_key(&tkey("temp", "t2")) { Expect::Either } else { Expect::Error }, n, None),
            };
            if s.tables.contains_key(&tkey("temp", "t2")) {
                return (Expect::Ok, n, None);
            }
            let rows: Vec<Row> = src.iter().map(|r| vec![add(&r[0], 100), r[1].clone()]).collect();
            let cnt = rows.len() as i128;
            n.tables.insert(tkey("temp", "t2"), rows);
            (Expect::Ok, n, Some(cnt))
        }
        Stmt::CreateView => {
            if s.has_view {
                return (Expect::Error, n, None);
            }
            // a view over a missing table: binding fails
            if !s.tables.contains_key(&tkey("temp", "t1")) {
                return (Expect::Error, n, None);
            }
            n.has_view = true;
            (Expect::Ok, n, None)
        }
        Stmt::DropTable { name, if_exists } => {
            let k = tkey("temp", name);
            if !s.tables.contains_key(&k) {
                return (if *if_exists { Expect::Ok } else { Expect::Error }, n, None);
            }
            n.tables.remove(&k);
            (Expect::Ok, n, None)
        }
        Stmt::InsertValues { schema } => {
            let k = tkey(if *schema { "s1" } else { "temp" }, "t1");
            match n.tables.get_mut(&k) {
                Some(rows) => {
                    rows.push(vec![Val::Int(1), Val::Str("x".into())]);
                    rows.push(vec![Val::Int(2), Val::Null]);
                    (Expect::Ok, n, Some(2))
                }
                None => (Expect::Error, n, None),
            }
        }
        Stmt::InsertSelect => match n.tables.get_mut(&tkey("temp", "t1")) {
            Some(rows) => {
                // reads the table as it was when the statement started
                let add_rows: Vec<Row> = rows.iter().map(|r| vec![add(&r[0], 10), r[1].clone()]).collect();
                let c = add_rows.len() as i128;
                rows.extend(add_rows);
                (Expect::Ok, n, Some(c))
            }
            None => (Expect::Error, n, None),
        },
        Stmt::InsertFailsAtRuntime => match s.tables.get(&tkey("temp", "t1")) {
            Some(rows) if rows.is_empty() => (Expect::Ok, n, Some(0)),
            Some(_) => (Expect::Error, n, None), // 'x' / 'q' cannot be cast: the statement fails and changes nothing
            None => (Expect::Error, n, None),
        },
        Stmt::InsertBadArity | Stmt::InsertMissing | Stmt::SetUnknown => (Expect::Error, n, None),
        Stmt::SetPartitions => {
            n.partitions = Some(3);
            (Expect::Ok, n, None)
        }
        Stmt::SetBatch => {
            n.batch = Some(100);
            (Expect::Ok, n, None)
        }
        Stmt::ResetPartitions => {
            n.partitions = None;
            (Expect::Ok, n, None)
        }
        Stmt::ResetAll => {
            n.partitions = None;
            n.batch = None;
            (Expect::Ok, n, None)
        }
    }
}

fn add(v: &Val, k: i128) -> Val {
    match v {
        Val::Int(i) => Val::Int(i + k),
        o => o.clone(),
    }
}

// ------------------------------------------------------------------ observation

fn cell(o: &Outcome) -> String {
    match o {
        Outcome::Rows(r) => format!("rows{:?}{}", r.types, crate::val::fmt_rows(&bag(&r.rows), 1000)),
        Outcome::Error { .. } => "error".into(),
        o => o.brief(),
    }
}

/// Observation of one session, read from the real engine.
fn observe(d: &mut Driver, sess: usize) -> Vec<(String, String)> {
    let mut out = Vec::new();
    let qs = [
        ("schemas", "SELECT schema_name FROM list_schemas() WHERE database_name = 'temp'"),
        ("tables", "SELECT schema_name, table_name FROM list_tables() WHERE database_name = 'temp'"),
        ("views", "SELECT schema_name, view_name FROM list_views() WHERE database_name = 'temp'"),
        ("t1", "SELECT a, b FROM t1"),
        ("t1-desc", "DESCRIBE t1"),
        ("t2", "SELECT a, b FROM t2"),
        ("s1.t1", "SELECT a, b FROM s1.t1"),
        ("v1", "SELECT a, b FROM v1"),
        ("t1-count", "SELECT count(*) FROM t1"),
        ("partitions", "SHOW partitions"),
        ("batch_size", "SHOW batch_size"),
    ];
    for (n, q) in qs {
        let o = d.q_in(sess, q);
        out.push((n.to_string(), cell(&o)));
    }
    out
}

/// Observation the model prescribes.
fn model_observation(s: &Sess, default_partitions: &str, default_batch: &str) -> Vec<(String, String)> {
    let strrows = |rows: Vec<Row>, types: Vec<&str>| format!("rows{:?}{}", types, crate::val::fmt_rows(&bag(&rows), 1000));
    let mut out = Vec::new();
    let mut schemas: Vec<Row> = vec![vec![Val::Str("temp".into())]];
    if s.has_s1 {
        schemas.push(vec![Val::Str("s1".into())]);
    }
    out.push(("schemas".to_string(), strrows(schemas, vec!["Utf8"])));
    let tables: Vec<Row> = s.tables.keys().map(|k| vec![Val::Str(k.0.clone()), Val::Str(k.1.clone())]).collect();
    out.push(("tables".into(), strrows(tables, vec!["Utf8", "Utf8"])));
    let views: Vec<Row> = if s.has_view { vec![vec![Val::Str("temp".into()), Val::Str("v1".into())]] } else { vec![] };
    out.push(("views".into(), strrows(views, vec!["Utf8", "Utf8"])));
    let table_cell = |k: (String, String)| match s.tables.get(&k) {
        Some(rows) => strrows(rows.clone(), vec!["Int32", "Utf8"]),
        None => "error".to_string(),
    };
    out.push(("t1".into(), table_cell(tkey("temp", "t1"))));
    out.push((
        "t1-desc".into(),
        if s.tables.contains_key(&tkey("temp", "t1")) { strrows(vec![vec![Val::Str("a".into()), Val::Str("Int32".into())], vec![Val::Str("b".into()), Val::Str("Utf8".into())]], vec!["Utf8", "Utf8"]) } else { "error".into() },
    ));
    out.push(("t2".into(), table_cell(tkey("temp", "t2"))));
    out.push(("s1.t1".into(), table_cell(tkey("s1", "t1"))));
    // a view is interchangeable with its definition over the current base table
    out.push(("v1".into(), if s.has_view { table_cell(tkey("temp", "t1")) } else { "error".into() }));
    out.push(("t1-count".into(), match s.tables.get(&tkey("temp", "t1")) { Some(r) => strrows(vec![vec![Val::Int(r.len() as i128)]], vec!["Int64"]), None => "error".into() }));
    out.push(("partitions".into(), s.partitions.map(|p| format!("={p}")).unwrap_or_else(|| format!("={default_partitions}"))));
    out.push(("batch_size".into(), s.batch.map(|p| format!("={p}")).unwrap_or_else(|| format!("={default_batch}"))));
    out
}

/// SHOW returns the value in some rendering: compare on the printed scalar
fn show_value(cell: &str) -> String {
    // cell looks like rows["Utf8"][(3)] or rows["Utf8"][("3")]
    let inner = cell.rsplit_once("[(").map(|x| x.1).unwrap_or("");
    let v = inner.trim_end_matches(")]").trim_matches('"');
    format!("={v}")
}

struct Step {
    sess: usize,
    stmt: Stmt,
}

struct ReplayOut {
    /// canonical observation of both sessions after the history
    canon: String,
    violations: Vec<(String, String, String)>, // (class, expected, observed)
}

/// Replay a history on fresh sessions of the worker's engine, checking every step against the model.
fn replay(d: &mut Driver, hist: &[Step], defaults: &(String, String)) -> ReplayOut {
    if d.dirty {
        *d = Driver::new();
    }
    let s0 = d.new_session();
    let s1 = d.new_session();
    let sess = [s0, s1];
    let mut model = [Sess::default(), Sess::default()];
    let mut violations = Vec::new();
    for (i, st) in hist.iter().enumerate() {
        let last = i + 1 == hist.len();
        let before_other = if last { Some(observe(d, sess[1 - st.sess])) } else { None };
        let (exp, next, count) = apply(&model[st.sess], &st.stmt);
        let o = d.q_in(sess[st.sess], &st.stmt.sql());
        if let Some(c) = outcome_fail_class(&o) {
            violations.push((c, "result or error".into(), o.brief()));
            break;
        }
        let ok = o.is_rows();
        match (exp, ok) {
            (Expect::Ok, true) | (Expect::Either, true) => {
                model[st.sess] = next;
                if let (Some(c), Outcome::Rows(r)) = (count, &o) {
                    if last {
                        let got = r.rows.first().and_then(|x| x.first()).and_then(|v| v.as_int());
                        if got != Some(c) {
                            violations.push(("wrong-row-count".into(), format!("{c}"), format!("{got:?}")));
                        }
                    }
                }
            }
            (Expect::Error, false) | (Expect::Either, false) => {}
            (Expect::Ok, false) => {
                if last {
                    violations.push(("unexpected-error".into(), "success".into(), o.brief()));
                }
                // follow the engine to keep replaying comparable: state unchanged
            }
            (Expect::Error, true) => {
                if last {
                    violations.push(("missing-error".into(), "an error".into(), o.brief()));
                }
                model[st.sess] = next;
            }
        }
        if last {
            // (a) canonical form = model; (b) failed statement changed nothing (the model did not move);
            // (c) the other session is unaffected
            let obs = observe(d, sess[st.sess]);
            let want = model_observation(&model[st.sess], &defaults.0, &defaults.1);
            for ((n, got), (_, w)) in obs.iter().zip(&want) {
                let (g2, w2) = if n == "partitions" || n == "batch_size" { (show_value(got), w.clone()) } else { (got.clone(), w.clone()) };
                if g2 != w2 {
                    let class = if !ok { "failed-statement-changed-state" } else { "state-differs-from-model" };
                    violations.push((format!("{class}:{n}"), w2, g2));
                }
            }
            let after_other = observe(d, sess[1 - st.sess]);
            if Some(&after_other) != before_other.as_ref() {
                violations.push(("session-isolation".into(), format!("{:?}", before_other), format!("{after_other:?}")));
            }
        }
    }
    let mut canon = String::new();
    for s in sess {
        for (n, c) in observe(d, s) {
            canon.push_str(&n);
            canon.push('=');
            canon.push_str(&c);
            canon.push(';');
        }
        canon.push('|');
    }
    ReplayOut { canon, violations }
}

fn fnv(s: &str) -> u64 {
    let mut h: u64 = 0xcbf29ce484222325;
    for b in s.bytes() {
        h ^= b as u64;
        h = h.wrapping_mul(0x100000001b3);
    }
    h
}

pub fn run(tier: Tier) -> i32 {
    let mut rep = Report::new("C14", tier, "model_checking");
    let alpha = alphabet(tier);
    let depth = if tier.is_thorough() { 5 } else { 4 };
    // defaults as the engine reports them
    let defaults = {
        let mut d = Driver::new();
        let p = show_value(&cell(&d.q("SHOW partitions")));
        let b = show_value(&cell(&d.q("SHOW batch_size")));
        (p.trim_start_matches('=').to_string(), b.trim_start_matches('=').to_string())
    };
    // BFS frontier of histories (as index vectors: (session, stmt index))
    let mut frontier: Vec<Vec<(usize, usize)>> = vec![vec![]];
    let mut seen: HashSet<u64> = HashSet::new();
    let mut states = 1u64;
    let mut transitions = 0u64;
    let mut samples: Vec<String> = Vec::new();
    let mut distinct_canon_by_depth = Vec::new();
    // merging check: depth <= 2 is also explored without merging and the sets of canonical forms compared
    let mut unmerged_canons: BTreeSet<u64> = BTreeSet::new();
    for dlevel in 1..=depth {
        let mut cands: Vec<Vec<(usize, usize)>> = Vec::new();
        for h in &frontier {
            for s in 0..2 {
                for (si, _) in alpha.iter().enumerate() {
                    let mut nh = h.clone();
                    nh.push((s, si));
                    cands.push(nh);
                }
            }
        }
        let outs = par_run(cands.len(), Driver::new, |d, i| {
            let hist: Vec<Step> = cands[i].iter().map(|(s, si)| Step { sess: *s, stmt: alpha[*si].clone() }).collect();
            replay(d, &hist, &defaults)
        });
        transitions += cands.len() as u64;
        let mut next = Vec::new();
        for (h, o) in cands.iter().zip(outs) {
            let hist_sql: Vec<(usize, String)> = h.iter().map(|(s, si)| (*s, alpha[*si].sql())).collect();
            for (class, expected, observed) in o.violations {
                let shape = format!("{:?}", alpha[h.last().unwrap().1]).split([' ', '{']).next().unwrap_or("").to_string();
                rep.fail(format!("C14|{class}|{shape}"), Replay { check: "C14".into(), steps: hist_sql.clone(), expected, observed, note: "sessions are fresh sessions of one engine; the last statement is the transition under test".into(), ..Default::default() });
            }
            let hsh = fnv(&o.canon);
            if dlevel <= 2 {
                unmerged_canons.insert(hsh);
            }
            if seen.insert(hsh) {
                states += 1;
                if samples.len() < 4 {
                    samples.push(hist_sql.iter().map(|(s, q)| format!("[s{s}] {q}")).collect::<Vec<_>>().join("; "));
                }
                next.push(h.clone());
            }
        }
        distinct_canon_by_depth.push(json!({"depth": dlevel, "histories_replayed": cands.len(), "new_states": next.len()}));
        frontier = next;
        if frontier.is_empty() {
            break;
        }
    }
    // merged vs unmerged at depth 2: run the depth-2 product without merging
    let mut unmerged2: BTreeSet<u64> = BTreeSet::new();
    {
        let mut all2: Vec<Vec<(usize, usize)>> = Vec::new();
        for s1 in 0..2 {
            for a in 0..alpha.len() {
                all2.push(vec![(s1, a)]);
                for s2 in 0..2 {
                    for b in 0..alpha.len() {
                        all2.push(vec![(s1, a), (s2, b)]);
                    }
                }
            }
        }
        let outs = par_run(all2.len(), Driver::new, |d, i| {
            let hist: Vec<Step> = all2[i].iter().map(|(s, si)| Step { sess: *s, stmt: alpha[*si].clone() }).collect();
            fnv(&replay(d, &hist, &defaults).canon)
        });
        unmerged2.extend(outs);
        transitions += all2.len() as u64;
    }
    let merged2: BTreeSet<u64> = unmerged_canons.clone();
    if !unmerged2.is_subset(&merged2) {
        rep.machinery_errors.push(format!("state merging lost canonical forms at depth 2: unmerged {} vs merged {}", unmerged2.len(), merged2.len()));
    }
    // ---- multi-batch scenarios: a failing INSERT ... SELECT whose error is raised late, and self-inserts on
    // tables larger than one stored chunk / one flush segment
    let scen = par_run(6, Driver::new, |d, i| {
        let mut v: Vec<(String, Replay)> = Vec::new();
        *d = Driver::new();
        let p = [1usize, 2, 3][i % 3];
        let mut steps: Vec<(usize, String)> = Vec::new();
        let mut run = |d: &mut Driver, sql: &str, steps: &mut Vec<(usize, String)>| {
            steps.push((0, sql.to_string()));
            d.q(sql)
        };
        let _ = run(d, &format!("SET partitions TO {p}"), &mut steps);
        if i < 3 {
            let _ = run(d, "CREATE TEMP TABLE big AS SELECT g AS a, CASE WHEN g = 2500 THEN 'x' ELSE '1' END AS b FROM generate_series(1, 3000) s(g)", &mut steps);
            let _ = run(d, "CREATE TEMP TABLE dst (a INT, b TEXT)", &mut steps);
            let o = run(d, "INSERT INTO dst SELECT CAST(b AS INT), b FROM big", &mut steps);
            let c = run(d, "SELECT count(*) FROM dst", &mut steps);
            let cnt = match &c {
                Outcome::Rows(r) => r.rows[0][0].as_int(),
                _ => None,
            };
            if !o.is_error() {
                v.push(("C14|missing-error|failed-insert-large".into(), Replay { check: "C14".into(), steps: steps.clone(), expected: "error (row 2500 cannot be cast)".into(), observed: o.brief(), ..Default::default() }));
            } else if cnt != Some(0) {
                v.push(("C14|failed-statement-changed-state:dst|failed-insert-large".into(), Replay { check: "C14".into(), steps: steps.clone(), expected: "0 rows in dst: a statement that fails changes nothing".into(), observed: format!("{cnt:?} rows"), note: format!("partitions {p}"), ..Default::default() }));
            }
        } else {
            let _ = run(d, "CREATE TEMP TABLE big AS SELECT g AS a FROM generate_series(1, 70000) s(g)", &mut steps);
            let o = run(d, "INSERT INTO big SELECT a + 100000 FROM big", &mut steps);
            let c = run(d, "SELECT count(*), count(DISTINCT a), min(a), max(a) FROM big", &mut steps);
            let ok_count = matches!(&o, Outcome::Rows(r) if r.rows[0][0] == Val::Int(70000));
            let ok_content = matches!(&c, Outcome::Rows(r) if r.rows[0] == vec![Val::Int(140000), Val::Int(140000), Val::Int(1), Val::Int(170000)]);
            if !ok_count || !ok_content {
                let class = outcome_fail_class(&o).unwrap_or_else(|| "self-insert-wrong".into());
                v.push((format!("C14|{class}|self-insert-large"), Replay { check: "C14".into(), steps: steps.clone(), expected: "70000 rows inserted; 140000 distinct rows afterwards (the statement reads the table as it was when it started)".into(), observed: format!("{} / {}", o.brief(), c.brief()), note: format!("partitions {p}"), ..Default::default() }));
            }
        }
        v
    });
    for fs in scen {
        transitions += 5;
        for (k, r) in fs {
            rep.fail(k, r);
        }
    }
    // ---- append / scan grid: every inserted row is visible exactly once, whatever the batch size (1..8192), the
    // partition count and the number of rows relative to the 2048-row stored chunk; statements in sequence
    // (CTAS, then two INSERT ... SELECT appends landing in a partly filled chunk)
    let sizes: Vec<usize> = if tier.is_thorough() { vec![0, 1, 2047, 2048, 2049, 4096, 4097, 6000, 8192, 8193, 20000] } else { vec![1, 2049, 4097, 8192, 20000] };
    let cfgs: Vec<(usize, usize)> = if tier.is_thorough() { vec![(1, 1), (1, 100), (1, 2048), (1, 4096), (1, 6000), (1, 8192), (2, 8192), (3, 5000), (8, 8192), (4, 2048)] } else { vec![(1, 8192), (1, 6000), (2, 4096), (3, 100), (1, 2048)] };
    let grid: Vec<(usize, usize, usize)> = sizes.iter().flat_map(|n| cfgs.iter().map(move |(p, b)| (*n, *p, *b))).filter(|(n, _, b)| !(*b == 1 && *n > 4097)).collect();
    let gres = par_run(grid.len(), Driver::new, |d, i| {
        let mut v: Vec<(String, Replay)> = Vec::new();
        *d = Driver::new();
        let (n, p, b) = grid[i];
        let mut steps: Vec<(usize, String)> = Vec::new();
        let mut run = |d: &mut Driver, sql: &str, steps: &mut Vec<(usize, String)>| {
            steps.push((0, sql.to_string()));
            d.q(sql)
        };
        let _ = run(d, &format!("SET partitions TO {p}"), &mut steps);
        let _ = run(d, &format!("SET batch_size TO {b}"), &mut steps);
        let sum = |lo: i128, hi: i128| (lo + hi) * (hi - lo + 1) / 2;
        let n_i = n as i128;
        let stmts = [
            (format!("CREATE TEMP TABLE g AS SELECT a, CAST(a AS TEXT) AS s FROM generate_series(1, {n}) q(a)"), n_i),
            (format!("INSERT INTO g SELECT a + {n}, CAST(a + {n} AS TEXT) FROM generate_series(1, {n}) q(a)"), n_i),
            ("INSERT INTO g SELECT a + 1000000, s FROM g".to_string(), 2 * n_i),
        ];
        let mut expect_rows = 0i128;
        let mut expect_sum = 0i128;
        for (k, (sql, cnt)) in stmts.iter().enumerate() {
            let o = run(d, sql, &mut steps);
            match k {
                0 => {
                    expect_rows = n_i;
                    expect_sum = if n > 0 { sum(1, n_i) } else { 0 };
                }
                1 => {
                    expect_rows = 2 * n_i;
                    expect_sum = if n > 0 { sum(1, 2 * n_i) } else { 0 };
                }
                _ => {
                    expect_sum = 2 * expect_sum + 1_000_000 * expect_rows;
                    expect_rows *= 2;
                }
            }
            let reported_ok = matches!(&o, Outcome::Rows(r) if r.rows.first().and_then(|x| x.first()).and_then(|v| v.as_int()) == Some(*cnt));
            let c = run(d, "SELECT count(*), count(DISTINCT a), coalesce(sum(a), CAST(0 AS BIGINT)), count(DISTINCT s) FROM g", &mut steps);
            let distinct_s = if k == 2 { expect_rows / 2 } else { expect_rows };
            let want = vec![Val::Int(expect_rows), Val::Int(expect_rows), Val::Int(expect_sum), Val::Int(distinct_s)];
            let content_ok = matches!(&c, Outcome::Rows(r) if r.rows.first().map(|x| x.iter().map(|v| Val::Int(v.as_int().unwrap_or(-1))).collect::<Vec<_>>()) == Some(want.clone()));
            if !reported_ok || !content_ok {
                let class = outcome_fail_class(&o).or_else(|| outcome_fail_class(&c)).unwrap_or_else(|| if reported_ok { "appended-rows-wrong".into() } else { "reported-count-wrong".into() });
                v.push((format!("C14|{class}|append-grid:stmt{k}"), Replay { check: "C14".into(), steps: steps.clone(), expected: format!("{cnt} rows reported; count, count(DISTINCT a), sum(a), count(DISTINCT s) = {want:?}"), observed: format!("{} / {}", o.brief(), c.brief()), note: format!("n={n} P={p} B={b}"), ..Default::default() }));
                break;
            }
        }
        v
    });
    for fs in gres {
        transitions += 6;
        for (k, r) in fs {
            rep.fail(k, r);
        }
    }
    rep.cov("states", json!(states));
    rep.cov("transitions", json!(transitions));
    rep.cov("traces_validated_against_impl", json!(transitions));
    rep.cov("samples", json!(samples));
    rep.cov("alphabet", json!(alpha.iter().map(|s| s.sql()).collect::<Vec<_>>()));
    rep.cov("depth", json!(depth));
    rep.cov("by_depth", json!(distinct_canon_by_depth));
    rep.cov("merge_check", json!({"depth2_unmerged_forms": unmerged2.len(), "depth2_forms_reached_with_merging": merged2.len()}));
    rep.cov("exhaustive", json!(true));
    rep.cov("explanation", json!("states = distinct canonical observations (schemas, tables, views, DESCRIBE and sorted contents of every table and view, SHOW of the settings, for both sessions) reached by breadth-first search over statement histories; every transition is a replay of the history on fresh sessions of the real engine, checked against the in-harness catalog model (state = model, failed statement changes nothing, reported row counts, the other session unaffected, a view equals its definition over the current base table)."));
    rep.assume("parallel appends/scans of one table under all interleavings are explored by C04 (insert-select, ctas, tables-self-insert shapes)");
    rep.finish()
}
