//! C08 - ORDER BY yields a correctly sorted permutation; LIMIT/OFFSET the exact slice.
use std::cmp::Ordering;
use std::collections::BTreeSet;

use glaredb_core::arrays::datatype::DataTypeId as T;
use serde_json::json;

use super::rel::outcome_fail_class;
use crate::drv::{Driver, Outcome};
use crate::fnreg;
use crate::infra::{Replay, Report, Tier, msg_template, par_run};
use crate::rm::{OrderKey, cmp_rows_by};
use crate::val::{Row, Val, bag};

#[derive(Default)]
struct Res {
    evals: u64,
    nontrivial: u64,
    outcomes: BTreeSet<String>,
    fails: Vec<(String, Replay)>,
}

struct Case {
    shape: String,
    sets: Vec<String>,
    setup: Vec<String>,
    sql: String,
    /// order keys over the output columns
    keys: Vec<OrderKey>,
    /// expected multiset of rows (None: compare with `input_sql` evaluated without ORDER BY)
    input_sql: Option<String>,
    /// expected exact slice (offset, limit) of the sorted input; None = whole
    slice: Option<(usize, usize)>,
    /// rows must be compared by comparator `cmp_norm` (numeric normalisation)
    note: String,
}

fn norm_for_cmp(v: &Val) -> Val {
    match v {
        Val::F32(_) | Val::F16(_) => Val::f64(v.as_f64().unwrap()),
        o => o.clone(),
    }
}

fn cmp_rows(a: &Row, b: &Row, keys: &[OrderKey]) -> Ordering {
    let an: Row = a.iter().map(norm_for_cmp).collect();
    let bn: Row = b.iter().map(norm_for_cmp).collect();
    cmp_rows_by(&an, &bn, keys).unwrap_or(Ordering::Equal)
}

fn dir_variants() -> Vec<(&'static str, bool, Option<bool>)> {
    vec![("asc", false, None), ("desc", true, None), ("asc-nf", false, Some(true)), ("asc-nl", false, Some(false)), ("desc-nf", true, Some(true)), ("desc-nl", true, Some(false))]
}

fn dir_sql(desc: bool, nf: Option<bool>) -> String {
    format!("{}{}", if desc { " DESC" } else { " ASC" }, match nf { Some(true) => " NULLS FIRST", Some(false) => " NULLS LAST", None => "" })
}

fn run_case(d: &mut Driver, c: &Case, res: &mut Res) {
    if d.dirty {
        *d = Driver::new();
    }
    for s in &c.setup {
        d.must(s);
    }
    for s in &c.sets {
        d.must(s);
    }
    let mut steps: Vec<(usize, String)> = c.setup.iter().chain(c.sets.iter()).map(|s| (0usize, s.clone())).collect();
    steps.push((0, c.sql.clone()));
    let o = d.q(&c.sql);
    res.evals += 1;
    let mut fail = |res: &mut Res, class: String, expected: String, observed: String| {
        res.fails.push((format!("C08|{class}|{}", c.shape), Replay { check: "C08".into(), steps: steps.clone(), expected, observed, note: c.note.clone(), ..Default::default() }));
    };
    let rows = match &o {
        Outcome::Rows(r) => r.rows.clone(),
        Outcome::Error { msg, .. } => {
            if !o.not_implemented() {
                fail(res, format!("unexpected-error:{}", msg_template(msg)), "sorted rows".into(), o.brief());
            }
            return;
        }
        o2 => {
            fail(res, outcome_fail_class(o2).unwrap(), "sorted rows".into(), o2.brief());
            return;
        }
    };
    // sortedness
    for w in rows.windows(2) {
        if cmp_rows(&w[0], &w[1], &c.keys) == Ordering::Greater {
            fail(res, "unsorted".into(), "every adjacent pair respects the declared keys".into(), format!("{} before {}", crate::val::fmt_row(&w[0]), crate::val::fmt_row(&w[1])));
            return;
        }
    }
    // permutation / slice of the input
    if let Some(isql) = &c.input_sql {
        if d.dirty {
            *d = Driver::new();
            for s in &c.setup {
                d.must(s);
            }
        }
        // the input is evaluated in the cheap reference configuration
        d.must("SET partitions TO 1");
        d.must("SET batch_size TO 2048");
        let input = match d.q(isql) {
            Outcome::Rows(r) => r.rows,
            _ => return,
        };
        res.evals += 1;
        match c.slice {
            None => {
                if bag(&rows) != bag(&input) {
                    fail(res, "not-a-permutation".into(), format!("{} input rows as a bag", input.len()), format!("{} rows; first differing shown: {}", rows.len(), crate::val::fmt_rows(&rows, 6)));
                    return;
                }
            }
            Some((off, lim)) => {
                let mut sorted = input.clone();
                sorted.sort_by(|a, b| cmp_rows(a, b, &c.keys));
                let want: Vec<Row> = sorted.iter().skip(off).take(lim).cloned().collect();
                if rows.len() != want.len() {
                    fail(res, "wrong-slice-size".into(), format!("{} rows", want.len()), format!("{} rows", rows.len()));
                    return;
                }
                if c.keys.is_empty() {
                    // unordered: any sub-bag of the right cardinality
                    let mut pool = bag(&input);
                    for r in bag(&rows) {
                        match pool.iter().position(|x| *x == r) {
                            Some(i) => {
                                pool.remove(i);
                            }
                            None => {
                                fail(res, "slice-not-subbag".into(), "a sub-bag of the input".into(), crate::val::fmt_row(&r));
                                return;
                            }
                        }
                    }
                } else {
                    // keys of the slice are determined; rows within tie groups may vary
                    for (a, b) in rows.iter().zip(&want) {
                        if cmp_rows(a, b, &c.keys) != Ordering::Equal {
                            fail(res, "wrong-slice".into(), crate::val::fmt_rows(&want, 8), crate::val::fmt_rows(&rows, 8));
                            return;
                        }
                    }
                    let inb = bag(&input);
                    for r in bag(&rows) {
                        if !inb.contains(&r) {
                            fail(res, "slice-row-not-in-input".into(), "rows of the input".into(), crate::val::fmt_row(&r));
                            return;
                        }
                    }
                }
            }
        }
    }
    if !rows.is_empty() {
        res.nontrivial += 1;
    }
    res.outcomes.insert(format!("rows:{}", rows.len().min(4)));
}

fn key(ord: usize, desc: bool, nf: Option<bool>) -> OrderKey {
    OrderKey { ordinal: ord, desc, nulls_first: nf, by_name: false }
}

fn cases(tier: Tier) -> Vec<Case> {
    let mut out = Vec::new();
    let full = tier.is_thorough();
    // ---- (1) all 2^16 values of 16-bit keys in three arrangements
    let sweeps: Vec<(&str, String)> = vec![
        ("smallint", "CAST(x - 32768 AS SMALLINT)".into()),
        ("usmallint", "CAST(x AS USMALLINT)".into()),
    ];
    let arrangements: Vec<(&str, &str)> = vec![("ascending", "g"), ("descending", "65535 - g"), ("stride", "(g * 40503) % 65536")];
    for (tn, expr) in &sweeps {
        for (an, arr) in &arrangements {
            for (dn, desc, nf) in dir_variants() {
                if !full && !(dn == "asc" || dn == "desc-nl") && *an != "stride" {
                    continue;
                }
                let src = format!("(SELECT CASE WHEN x % 1000 <> 7 THEN {expr} END AS k FROM (SELECT {arr} AS x FROM generate_series(0, 65535) s(g)) a) q");
                let pcfg: Vec<(usize, usize)> = if full { vec![(1, 2048), (3, 2048), (4, 500)] } else { vec![(3, 2048)] };
                for (p, b) in pcfg {
                    out.push(Case { shape: format!("sweep16:{tn}"), sets: vec![format!("SET partitions TO {p}"), format!("SET batch_size TO {b}")], setup: vec![], sql: format!("SELECT k FROM {src} ORDER BY k{}", dir_sql(desc, nf)), keys: vec![key(1, desc, nf)], input_sql: Some(format!("SELECT k FROM {src}")), slice: None, note: format!("{an} {dn} P{p} B{b}") });
                }
            }
        }
    }
    // ---- (2) boundary alphabets of every sortable type, duplicated, small batches
    let types = [T::Boolean, T::Int8, T::Int16, T::Int32, T::Int64, T::UInt8, T::UInt16, T::UInt32, T::UInt64, T::Float16, T::Float32, T::Float64, T::Decimal64, T::Decimal128, T::Utf8, T::Date32, T::Timestamp, T::Interval];
    for t in types {
        let alpha = match fnreg::alphabet(t, false) {
            Some(a) => a,
            None => continue,
        };
        // each value twice, interleaved
        let mut rows: Vec<String> = Vec::new();
        for (i, a) in alpha.iter().enumerate() {
            rows.push(format!("({a}, {i})"));
        }
        for (i, a) in alpha.iter().enumerate().rev() {
            rows.push(format!("({a}, {})", i + 100));
        }
        let src = format!("(VALUES {}) v(k, p)", rows.join(", "));
        for (dn, desc, nf) in dir_variants() {
            let cfgs: Vec<(usize, usize)> = if full { vec![(1, 2048), (1, 1), (2, 2), (3, 3), (4, 1)] } else { vec![(1, 2048), (3, 2)] };
            for (p, b) in cfgs {
                out.push(Case { shape: format!("alphabet:{t}"), sets: vec![format!("SET partitions TO {p}"), format!("SET batch_size TO {b}")], setup: vec![], sql: format!("SELECT k, p FROM {src} ORDER BY k{}", dir_sql(desc, nf)), keys: vec![key(1, desc, nf)], input_sql: Some(format!("SELECT k, p FROM {src}")), slice: None, note: format!("{dn} P{p} B{b}") });
            }
        }
    }
    // ---- (2b) dense bit patterns: values that differ in one byte / bit region of the fixed-width key encoding only
    // (neighbouring doubles, integers around every byte boundary)
    {
        let mut fams: Vec<(&str, Vec<String>)> = Vec::new();
        let mut f64s: Vec<String> = Vec::new();
        for base in [1.0f64.to_bits(), (-1.0f64).to_bits(), 0u64, 1e300f64.to_bits(), (-2.5e-300f64).to_bits()] {
            for d in [0u64, 1, 2, 3, 0x7FFF_FFFF, 0x8000_0000, 0xFFFF_FFFF, 0x1_0000_0000, 0x1_0000_0001, 0xFFFF_FFFF_FFFF] {
                let v = f64::from_bits(base.wrapping_add(d));
                if v.is_finite() {
                    f64s.push(format!("CAST('{v:e}' AS DOUBLE)"));
                }
            }
        }
        fams.push(("Float64", f64s));
        let mut f32s: Vec<String> = Vec::new();
        for base in [1.0f32.to_bits(), (-1.0f32).to_bits(), 0u32, 1e30f32.to_bits()] {
            for d in [0u32, 1, 2, 0x7F, 0x80, 0xFF, 0x100, 0x7FFF, 0x8000, 0xFFFF, 0x1_0000] {
                let v = f32::from_bits(base.wrapping_add(d));
                if v.is_finite() {
                    f32s.push(format!("CAST('{v:e}' AS REAL)"));
                }
            }
        }
        fams.push(("Float32", f32s));
        let mut i64s: Vec<String> = Vec::new();
        let mut i32s: Vec<String> = Vec::new();
        let mut u64s: Vec<String> = Vec::new();
        for b in [0u32, 7, 8, 15, 16, 23, 24, 31, 32, 39, 40, 47, 48, 55, 56, 62] {
            for d in [-1i128, 0, 1] {
                let v = (1i128 << b) + d;
                for sgn in [1i128, -1] {
                    let x = v * sgn;
                    if x >= i64::MIN as i128 && x <= i64::MAX as i128 {
                        i64s.push(format!("CAST({x} AS BIGINT)"));
                    }
                    if x >= i32::MIN as i128 && x <= i32::MAX as i128 {
                        i32s.push(format!("CAST({x} AS INT)"));
                    }
                    if x >= 0 {
                        u64s.push(format!("CAST({x} AS UBIGINT)"));
                    }
                }
            }
        }
        u64s.push("CAST(18446744073709551615 AS UBIGINT)".into());
        u64s.push("CAST(9223372036854775808 AS UBIGINT)".into());
        fams.push(("Int64", i64s));
        fams.push(("Int32", i32s));
        fams.push(("UInt64", u64s));
        for (tn, vals) in fams {
            // deterministic shuffle: stride through the list
            let n = vals.len();
            let rows: Vec<String> = (0..n).map(|i| format!("({}, {i})", vals[(i * 7 + 3) % n])).collect();
            let src = format!("(VALUES {}) v(k, p)", rows.join(", "));
            for (dn, desc, nf) in dir_variants() {
                if !full && !(dn == "asc" || dn == "desc-nl") {
                    continue;
                }
                for (p, b) in if full { vec![(1usize, 2048usize), (2, 3), (3, 1)] } else { vec![(1, 2048), (2, 3)] } {
                    out.push(Case { shape: format!("bits:{tn}"), sets: vec![format!("SET partitions TO {p}"), format!("SET batch_size TO {b}")], setup: vec![], sql: format!("SELECT k, p FROM {src} ORDER BY k{}", dir_sql(desc, nf)), keys: vec![key(1, desc, nf)], input_sql: Some(format!("SELECT k, p FROM {src}")), slice: None, note: format!("{dn} P{p} B{b}") });
                }
            }
        }
    }
    // ---- (3) strings: all strings of length <= 3 over a byte-order-sensitive alphabet, with shared prefixes
    let sigma = ["\u{1}", "a", "b", "\u{7f}", "é", "\u{ff}", "\u{10ffff}"];
    let mut strs: Vec<String> = vec![String::new()];
    let mut cur = vec![String::new()];
    for _ in 0..if full { 3 } else { 2 } {
        let mut next = Vec::new();
        for s in &cur {
            for c in sigma {
                next.push(format!("{s}{c}"));
            }
        }
        strs.extend(next.iter().cloned());
        cur = next;
    }
    for plen in [0usize, 11, 12, 13, 40] {
        let prefix: String = "p".repeat(plen);
        let rows: Vec<String> = strs.iter().enumerate().map(|(i, s)| format!("('{}{}', {})", prefix, s.replace('\'', "''"), i)).collect();
        let mut all = rows.clone();
        all.push("(CAST(NULL AS TEXT), -1)".into());
        all.push("(NULL, -2)".into());
        // shuffle deterministically: stride
        let n = all.len();
        let shuffled: Vec<String> = (0..n).map(|i| all[(i * 37) % n].clone()).collect();
        let src_ok = gcd(37, n) == 1;
        let src = format!("(VALUES {}) v(k, p)", if src_ok { shuffled.join(", ") } else { all.join(", ") });
        for (dn, desc, nf) in dir_variants() {
            if !full && !(dn == "asc" || dn == "desc") {
                continue;
            }
            let cfgs: Vec<(usize, usize)> = if full { vec![(1, 2048), (3, 7), (2, 64)] } else { vec![(1, 2048), (3, 7)] };
            for (p, b) in cfgs {
                out.push(Case { shape: format!("strings:prefix{plen}"), sets: vec![format!("SET partitions TO {p}"), format!("SET batch_size TO {b}")], setup: vec![], sql: format!("SELECT k, p FROM {src} ORDER BY k{}", dir_sql(desc, nf)), keys: vec![key(1, desc, nf)], input_sql: Some(format!("SELECT k, p FROM {src}")), slice: None, note: format!("{dn} P{p} B{b}") });
            }
        }
    }
    // ---- (4) multi-key ties
    {
        let mut rows = Vec::new();
        let ks = ["CAST(NULL AS INT)", "1", "2"];
        // strings that agree on the 12-byte sort prefix and differ only beyond it: the order between them is
        // decided by the full-string comparison, also when the rows meet in a merge of sorted runs
        let ts = ["CAST(NULL AS TEXT)", "'a'", "'pppppppppppp'", "'ppppppppppppa'", "'ppppppppppppab'", "'ppppppppppppb'"];
        let mut i = 0;
        for a in ks {
            for b in ts {
                for c in ks {
                    rows.push(format!("({a}, {b}, {c}, {i})"));
                    i += 1;
                }
            }
        }
        let n = rows.len();
        let shuffled: Vec<String> = (0..n).map(|i| rows[(i * 5) % n].clone()).collect();
        let src = format!("(VALUES {}) v(a, b, c, p)", shuffled.join(", "));
        for m in 0..8u32 {
            let d = [m & 1 != 0, m & 2 != 0, m & 4 != 0];
            for nfv in [None, Some(true), Some(false)] {
                let cfgs: Vec<(usize, usize)> = if full { vec![(1, 2048), (3, 2), (2, 5)] } else { vec![(3, 2)] };
                for (p, b) in cfgs {
                    out.push(Case {
                        shape: "multikey".into(),
                        sets: vec![format!("SET partitions TO {p}"), format!("SET batch_size TO {b}")],
                        setup: vec![],
                        sql: format!("SELECT a, b, c, p FROM {src} ORDER BY a{}, b{}, 3{}", dir_sql(d[0], nfv), dir_sql(d[1], nfv), dir_sql(d[2], nfv)),
                        keys: vec![key(1, d[0], nfv), key(2, d[1], nfv), key(3, d[2], nfv)],
                        input_sql: Some(format!("SELECT a, b, c, p FROM {src}")),
                        slice: None,
                        note: format!("dirs {d:?} nulls {nfv:?} P{p} B{b}"),
                    });
                    // the same sort through the limit hint (top-k), total order (p last) so that the slice is exact
                    out.push(Case {
                        shape: "multikey-topk".into(),
                        sets: vec![format!("SET partitions TO {p}"), format!("SET batch_size TO {b}")],
                        setup: vec![],
                        sql: format!("SELECT a, b, c, p FROM {src} ORDER BY a{}, b{}, 3{}, p LIMIT 20 OFFSET 3", dir_sql(d[0], nfv), dir_sql(d[1], nfv), dir_sql(d[2], nfv)),
                        keys: vec![key(1, d[0], nfv), key(2, d[1], nfv), key(3, d[2], nfv), key(4, false, None)],
                        input_sql: Some(format!("SELECT a, b, c, p FROM {src}")),
                        slice: Some((3, 20)),
                        note: format!("dirs {d:?} nulls {nfv:?} P{p} B{b}"),
                    });
                }
            }
        }
    }
    // ---- (4b) top-k sweep: every window (LIMIT k OFFSET o) over keys with runs of ties after the fixed-width prefix
    // pass (duplicate strings resolved by a secondary key, strings sharing a 14-byte prefix): the cut falls before,
    // inside, at the start and at the end of every tie run
    {
        let data: Vec<(Option<&str>, i32)> = vec![
            (Some("a"), 1), (Some("b"), 2), (Some("c"), 9), (Some("c"), 8), (Some("c"), 7), (Some("c"), 3), (Some("pppppppppppppp3"), 1), (Some("pppppppppppppp1"), 2),
            (Some("pppppppppppppp2"), 3), (Some("pppppppppppppp1"), 0), (None, 5), (None, 4), (Some("d"), 1), (Some("pppppppppppppp"), 6), (Some("c"), 1),
        ];
        let n = data.len();
        let rows: Vec<String> = (0..n).map(|i| { let (s0, id) = &data[(i * 4) % n]; format!("({}, {id})", s0.map(|x| format!("'{x}'")).unwrap_or_else(|| "CAST(NULL AS TEXT)".into())) }).collect();
        let src = format!("(VALUES {}) v(s, id)", rows.join(", "));
        for (d1, d2) in [(false, false), (true, false), (false, true), (true, true)] {
            if !full && d1 != d2 {
                continue;
            }
            for off in if full { vec![0usize, 1, 2, 5] } else { vec![0usize, 2] } {
                for lim in 0..=n + 1 {
                    for (p, b) in if full { vec![(1usize, 2048usize), (3, 2), (2, 4)] } else { vec![(1, 2048), (3, 2)] } {
                        out.push(Case {
                            shape: "topk-sweep".into(),
                            sets: vec![format!("SET partitions TO {p}"), format!("SET batch_size TO {b}")],
                            setup: vec![],
                            sql: format!("SELECT s, id FROM {src} ORDER BY s{}, id{} LIMIT {lim} OFFSET {off}", dir_sql(d1, None), dir_sql(d2, None)),
                            keys: vec![key(1, d1, None), key(2, d2, None)],
                            input_sql: Some(format!("SELECT s, id FROM {src}")),
                            slice: Some((off, lim)),
                            note: format!("desc {d1}/{d2} LIMIT {lim} OFFSET {off} P{p} B{b}"),
                        });
                    }
                }
            }
        }
    }
    // ---- (5) LIMIT / OFFSET around 0, batch size and N
    {
        let n = 7usize;
        for bs in [2usize, 3] {
            let src = "(SELECT CASE WHEN g % 4 <> 0 THEN g % 3 END AS k, g AS p FROM generate_series(1, 7) s(g)) q";
            let vals: BTreeSet<usize> = [0, 1, 2, n - 1, n, n + 1, bs - 1, bs, bs + 1].into_iter().collect();
            for &lim in &vals {
                for &off in &vals {
                    for p in if full { vec![1usize, 2, 3] } else { vec![1usize, 3] } {
                        let sets = vec![format!("SET partitions TO {p}"), format!("SET batch_size TO {bs}")];
                        // ordered by a total key (k, p)
                        out.push(Case { shape: "limit:ordered".into(), sets: sets.clone(), setup: vec![], sql: format!("SELECT k, p FROM {src} ORDER BY k, p LIMIT {lim} OFFSET {off}"), keys: vec![key(1, false, None), key(2, false, None)], input_sql: Some(format!("SELECT k, p FROM {src}")), slice: Some((off, lim)), note: format!("limit {lim} offset {off} P{p} B{bs}") });
                        // ordered with ties
                        out.push(Case { shape: "limit:ordered-ties".into(), sets: sets.clone(), setup: vec![], sql: format!("SELECT k, p FROM {src} ORDER BY k DESC LIMIT {lim} OFFSET {off}"), keys: vec![key(1, true, None)], input_sql: Some(format!("SELECT k, p FROM {src}")), slice: Some((off, lim)), note: format!("limit {lim} offset {off} P{p} B{bs}") });
                        // unordered
                        out.push(Case { shape: "limit:unordered".into(), sets: sets.clone(), setup: vec![], sql: format!("SELECT k, p FROM {src} LIMIT {lim} OFFSET {off}"), keys: vec![], input_sql: Some(format!("SELECT k, p FROM {src}")), slice: Some((off, lim)), note: format!("limit {lim} offset {off} P{p} B{bs}") });
                        // inside a derived table, and with the optimizer off (full sort + slice instead of the limit hint)
                        out.push(Case { shape: "limit:derived".into(), sets: sets.clone(), setup: vec![], sql: format!("SELECT k, p FROM (SELECT k, p FROM {src} ORDER BY k, p LIMIT {lim} OFFSET {off}) z ORDER BY k, p"), keys: vec![key(1, false, None), key(2, false, None)], input_sql: Some(format!("SELECT k, p FROM {src}")), slice: Some((off, lim)), note: format!("limit {lim} offset {off} P{p} B{bs}") });
                        let mut s2 = sets.clone();
                        s2.push("SET enable_optimizer TO false".into());
                        out.push(Case { shape: "limit:ordered-noopt".into(), sets: s2, setup: vec![], sql: format!("SELECT k, p FROM {src} ORDER BY k, p LIMIT {lim} OFFSET {off}"), keys: vec![key(1, false, None), key(2, false, None)], input_sql: Some(format!("SELECT k, p FROM {src}")), slice: Some((off, lim)), note: format!("optimizer off; limit {lim} offset {off} P{p} B{bs}") });
                    }
                }
            }
        }
    }
    out
}

fn gcd(a: usize, b: usize) -> usize {
    if b == 0 { a } else { gcd(b, a % b) }
}

pub fn run(tier: Tier) -> i32 {
    let mut rep = Report::new("C08", tier, "exploration");
    let cs = cases(tier);
    let results = par_run(cs.len(), Driver::new, |d, i| {
        let mut res = Res::default();
        run_case(d, &cs[i], &mut res);
        if !d.dirty {
            // reset session configuration for the next case
            d.must("SET enable_optimizer TO true");
        }
        res
    });
    let (mut evals, mut nontriv) = (0u64, 0u64);
    let mut outcomes = BTreeSet::new();
    for rr in results {
        evals += rr.evals;
        nontriv += rr.nontrivial;
        outcomes.extend(rr.outcomes);
        for (k, rp) in rr.fails {
            rep.fail(k, rp);
        }
    }
    let shapes: BTreeSet<String> = cs.iter().map(|c| c.shape.clone()).collect();
    rep.cov("evaluations", json!(evals));
    rep.cov("distinct_nontrivial", json!(nontriv));
    rep.cov("rule", json!("(1) all 65 536 values (+NULLs) of SMALLINT and USMALLINT keys in ascending / descending / stride-permuted input for the ASC/DESC x NULLS FIRST/LAST/default combinations; (2) the boundary alphabet of every sortable type, each value twice, under small batch sizes and several partitions; (3) all strings of length <= 2 (quick) / 3 (thorough) over {U+0001,a,b,U+007F,e-acute,U+00FF,U+10FFFF} with shared prefixes of 0/11/12/13/40 bytes; (4) three-key sorts with ties in all 8 direction combinations; (5) all (limit, offset) pairs from {0,1,2,N-1,N,N+1,bs-1,bs,bs+1}^2 ordered / with ties / unordered / in a derived table / optimizer off. Oracle: output is a permutation (or the exact slice) of the input and every adjacent pair respects RM's comparator (NULLs largest by default, NaN above numbers, byte-wise strings). Each case is distinct by construction; non-trivial = >= 1 row returned and accepted"));
    rep.cov("cases", json!(cs.len()));
    rep.cov("shapes", json!(shapes.into_iter().collect::<Vec<_>>()));
    rep.cov("distinct_outcomes", json!(outcomes.into_iter().collect::<Vec<_>>()));
    rep.cov("exhaustive", json!(true));
    rep.cov("samples", json!([cs[0].sql.chars().take(300).collect::<String>(), cs[cs.len() / 2].sql.chars().take(300).collect::<String>(), cs[cs.len() - 1].sql.chars().take(300).collect::<String>()]));
    rep.finish()
}
