//! C01 - SELECT results equal SQL bag semantics: every term of the algebra up to
//! depth k over every database of its scope, against the reference model RM.
use serde_json::json;

use super::rel::{RawFail, Worker, blame, outcome_fail_class};
use crate::drv::Outcome;
use crate::alg::{self, Term};
use crate::infra::{Replay, Report, Tier, par_run, samples};
use crate::rm::{self, RmErr};

pub struct CaseStats {
    pub evals: u64,
    pub nontrivial: u64,
    pub rm_unsupported: u64,
    pub outcomes: std::collections::BTreeSet<String>,
    pub dbs: u64,
    pub reduced: bool,
    pub fails: Vec<RawFail>,
}

/// mode 0 = TEMP tables, 1 = inline VALUES
pub fn check_term(w: &mut Worker, ti: usize, t: &Term, r: usize, budget: usize, modes: &[u8]) -> CaseStats {
    let scope = alg::scope_for(&t.q, r, budget);
    let mut st = CaseStats { evals: 0, nontrivial: 0, rm_unsupported: 0, outcomes: Default::default(), dbs: scope.dbs.len() as u64, reduced: scope.reduced, fails: vec![] };
    let mut seen_fail_classes: std::collections::BTreeSet<String> = Default::default();
    for db in &scope.dbs {
        let rmdb = db.to_rm();
        for &mode in modes {
            w.ensure_clean();
            let (sql, setup) = if mode == 0 {
                let (pq, setup) = w.physicalize(&t.q, db);
                (pq.sql(), setup)
            } else {
                (alg::inline_values(&t.q, db).sql(), vec![])
            };
            let out = w.d.q(&sql);
            st.evals += 1;
            let mut fail: Option<(String, String, String)> = None; // class, expected, observed
            match &out {
                Outcome::Rows(rows) => match rm::check_result(&rmdb, &t.q, &rows.names, &rows.types, &rows.rows) {
                    Ok(None) => {
                        if !rows.rows.is_empty() {
                            st.nontrivial += 1;
                        }
                        st.outcomes.insert(format!("rows:{}", rows.rows.len().min(5)));
                    }
                    Ok(Some(m)) => fail = Some((m.class().to_string(), "RM".into(), m.text().to_string())),
                    Err(RmErr::Runtime(e)) => fail = Some(("missing-error".into(), format!("error: {e}"), out.brief())),
                    Err(RmErr::Unsupported(_)) => st.rm_unsupported += 1,
                },
                Outcome::Error { msg, .. } => match rm::eval_query(&rmdb, &t.q) {
                    Err(RmErr::Runtime(_)) => {
                        st.nontrivial += 1;
                        st.outcomes.insert("error".into());
                    }
                    Err(RmErr::Unsupported(_)) => st.rm_unsupported += 1,
                    Ok(rel) => {
                        if out.not_implemented() {
                            st.outcomes.insert("not-implemented".into());
                        } else {
                            fail = Some((format!("unexpected-error:{}", crate::infra::msg_template(msg)), format!("rows {}", crate::val::fmt_rows(&rel.rows, 8)), msg.clone()))
                        }
                    }
                },
                o => {
                    let c = outcome_fail_class(o).unwrap();
                    fail = Some((c, "rows or error".into(), o.brief()));
                }
            }
            if let Some((class, expected, observed)) = fail {
                st.outcomes.insert(format!("FAIL:{class}"));
                if seen_fail_classes.insert(format!("{class}/{mode}")) {
                    let mut steps: Vec<(usize, String)> = setup.iter().map(|s| (0usize, s.clone())).collect();
                    steps.push((0, sql.clone()));
                    st.fails.push(RawFail {
                        term_idx: ti,
                        class,
                        replay: Replay { check: "C01".into(), steps, expected, observed, note: format!("shape={} db={} mode={}", t.shape, db.describe(), if mode == 0 { "tables" } else { "values" }), ..Default::default() },
                    });
                }
            }
        }
    }
    st
}

pub fn run(tier: Tier) -> i32 {
    let mut rep = Report::new("C01", tier, "exploration");
    let (depth, full, r, budget) = match tier {
        Tier::Quick => (2, false, 2, 40),
        Tier::Thorough => (2, true, 3, 150),
    };
    let terms = alg::terms(depth, full);
    let results = par_run(terms.len(), Worker::new, |w, i| {
        let modes: &[u8] = if tier.is_thorough() || terms[i].depth <= 1 { &[0, 1] } else if i % 2 == 0 { &[0] } else { &[1] };
        check_term(w, i, &terms[i], r, budget, modes)
    });
    let mut fails = Vec::new();
    let (mut evals, mut nontriv, mut unsup, mut dbs, mut reduced) = (0u64, 0u64, 0u64, 0u64, 0u64);
    let mut outcomes = std::collections::BTreeSet::new();
    for s in results {
        evals += s.evals;
        nontriv += s.nontrivial;
        unsup += s.rm_unsupported;
        dbs += s.dbs;
        if s.reduced {
            reduced += 1;
        }
        outcomes.extend(s.outcomes);
        fails.extend(s.fails);
    }
    for (key, replay) in blame("C01", &terms, &fails) {
        rep.fail(key, replay);
    }
    rep.cov("evaluations", json!(evals));
    rep.cov("distinct_nontrivial", json!(nontriv));
    rep.cov("rule", json!(format!("every algebra term of depth <= {depth} (alphabet: {}) x every database with <= {r} rows per mentioned table over 3-value column domains (per-term budget {budget}; scope lowered for {reduced} terms) x source rendering (TEMP tables / inline VALUES); a case is non-trivial when the engine returned >= 1 row (or the expected error) and agreed with RM; each (term, db, mode) is distinct by construction", if full { "full" } else { "core" })));
    rep.cov("terms", json!(terms.len()));
    rep.cov("term_db_pairs", json!(dbs));
    rep.cov("rm_unsupported_skipped", json!(unsup));
    rep.cov("distinct_outcomes", json!(outcomes.into_iter().collect::<Vec<_>>()));
    rep.cov("exhaustive", json!(true));
    let sm: Vec<_> = samples(&terms).iter().map(|t| json!({"shape": t.shape, "sql": t.q.sql()})).collect();
    rep.cov("samples", json!(sm));
    rep.finish()
}
