//! C17 - reading a CSV file returns the RFC-4180 records with inferred types,
//! independent of read-chunk, batch and partition boundaries.
use std::collections::{BTreeMap, BTreeSet};

use serde_json::json;

use super::rel::outcome_fail_class;
use crate::drv::{Driver, Outcome};
use crate::infra::{Replay, Report, Tier, msg_template, par_run};
use crate::val::{Row, Val, bag};
use crate::vfs::Answer;

#[derive(Clone, Debug, PartialEq)]
struct Field {
    text: String,
    quoted: bool,
}

/// RFC-4180 parser for a given dialect. None = not a valid file under this dialect
/// (unterminated quote, text after a closing quote, ragged records).
fn rfc4180(data: &str, delim: char, quote: char) -> Option<Vec<Vec<Field>>> {
    let mut recs: Vec<Vec<Field>> = Vec::new();
    let mut rec: Vec<Field> = Vec::new();
    let cs: Vec<char> = data.chars().collect();
    let mut i = 0;
    let mut cur = String::new();
    let mut quoted = false;
    let mut at_field_start = true;
    let mut any_in_record = false;
    while i < cs.len() {
        let c = cs[i];
        if at_field_start && c == quote {
            // quoted field
            quoted = true;
            i += 1;
            loop {
                if i >= cs.len() {
                    return None; // unterminated
                }
                if cs[i] == quote {
                    if i + 1 < cs.len() && cs[i + 1] == quote {
                        cur.push(quote);
                        i += 2;
                        continue;
                    }
                    i += 1;
                    break;
                }
                cur.push(cs[i]);
                i += 1;
            }
            at_field_start = false;
            any_in_record = true;
            // must be followed by delimiter / newline / EOF
            if i < cs.len() && cs[i] != delim && cs[i] != '\n' && cs[i] != '\r' {
                return None;
            }
            continue;
        }
        if c == delim {
            rec.push(Field { text: std::mem::take(&mut cur), quoted });
            quoted = false;
            at_field_start = true;
            any_in_record = true;
            i += 1;
            continue;
        }
        if c == '\n' || (c == '\r' && i + 1 < cs.len() && cs[i + 1] == '\n') {
            rec.push(Field { text: std::mem::take(&mut cur), quoted });
            quoted = false;
            recs.push(std::mem::take(&mut rec));
            at_field_start = true;
            any_in_record = false;
            i += if c == '\r' { 2 } else { 1 };
            continue;
        }
        if c == quote && !quoted {
            // a quote inside an unquoted field: RFC-4180 forbids it; engines differ
            return None;
        }
        cur.push(c);
        at_field_start = false;
        any_in_record = true;
        i += 1;
    }
    if any_in_record || !cur.is_empty() || !rec.is_empty() {
        rec.push(Field { text: cur, quoted });
        recs.push(rec);
    }
    if recs.is_empty() {
        return Some(recs);
    }
    let w = recs[0].len();
    if recs.iter().any(|r| r.len() != w) {
        return None;
    }
    Some(recs)
}

#[derive(Clone, Copy, Debug, PartialEq, Eq, PartialOrd, Ord)]
enum ColTy {
    Bool,
    Int,
    Float,
    Text,
}

fn infer(values: &[&Field]) -> ColTy {
    let non_empty: Vec<&&Field> = values.iter().filter(|f| !(f.text.is_empty())).collect();
    if non_empty.is_empty() {
        return ColTy::Text;
    }
    let is_bool = |s: &str| matches!(s.to_ascii_lowercase().as_str(), "true" | "false" | "t" | "f");
    if non_empty.iter().all(|f| !f.quoted && is_bool(&f.text)) {
        return ColTy::Bool;
    }
    if non_empty.iter().all(|f| !f.quoted && f.text.parse::<i64>().is_ok() && !f.text.starts_with('+')) {
        return ColTy::Int;
    }
    if non_empty.iter().all(|f| !f.quoted && f.text.trim() == f.text && f.text.parse::<f64>().is_ok() && f.text.chars().all(|c| c.is_ascii_digit() || "+-.eE".contains(c))) {
        return ColTy::Float;
    }
    ColTy::Text
}

fn ty_name(t: ColTy) -> &'static str {
    match t {
        ColTy::Bool => "Boolean",
        ColTy::Int => "Int64",
        ColTy::Float => "Float64",
        ColTy::Text => "Utf8",
    }
}

fn convert(f: &Field, t: ColTy) -> Vec<Val> {
    // admissible engine values for this field (a set where the docs are silent)
    if f.text.is_empty() {
        return if f.quoted && t == ColTy::Text { vec![Val::Null, Val::Str(String::new())] } else { vec![Val::Null] };
    }
    match t {
        ColTy::Bool => vec![Val::Bool(matches!(f.text.to_ascii_lowercase().as_str(), "true" | "t"))],
        ColTy::Int => vec![Val::Int(f.text.parse::<i64>().unwrap_or(0) as i128)],
        ColTy::Float => vec![Val::f64(f.text.parse::<f64>().unwrap_or(0.0))],
        ColTy::Text => vec![Val::Str(f.text.clone())],
    }
}

/// Does the engine result equal the RFC-4180 parse under (delim, quote, header)?
fn explains(recs: &[Vec<Field>], header: bool, names: &[String], types: &[String], rows: &[Row]) -> bool {
    if recs.is_empty() {
        return rows.is_empty();
    }
    let w = recs[0].len();
    if types.len() != w {
        return false;
    }
    let data = if header { &recs[1..] } else { recs };
    if header {
        if recs.is_empty() {
            return false;
        }
        for (c, n) in names.iter().enumerate() {
            if &recs[0][c].text != n {
                return false;
            }
        }
    }
    if data.len() != rows.len() {
        return false;
    }
    for c in 0..w {
        let col: Vec<&Field> = data.iter().map(|r| &r[c]).collect();
        let t = infer(&col);
        let no_values = col.iter().all(|f| f.text.is_empty());
        if no_values {
            // no sampled value constrains the type: every type "fits" (only NULLs are produced)
            if rows.iter().any(|row| !row[c].is_null() && row[c] != Val::Str(String::new())) {
                return false;
            }
            continue;
        }
        if ty_name(t) != types[c] {
            return false;
        }
        for (r, row) in rows.iter().enumerate() {
            let adm = convert(col[r], t);
            if !adm.iter().any(|v| v.norm() == row[c].norm()) {
                return false;
            }
        }
    }
    true
}

const DIALECTS: [(char, char); 8] = [(',', '"'), (',', '\''), ('|', '"'), ('|', '\''), (';', '"'), (';', '\''), ('\t', '"'), ('\t', '\'')];

#[derive(Clone, Debug)]
enum Cell {
    Plain(String),
    Quoted(String),
}

fn render(grid: &[Vec<Cell>], delim: char, quote: char, crlf: bool, final_newline: bool) -> String {
    let nl = if crlf { "\r\n" } else { "\n" };
    let mut out = String::new();
    for (ri, row) in grid.iter().enumerate() {
        let fields: Vec<String> = row
            .iter()
            .map(|c| match c {
                Cell::Plain(s) => s.clone(),
                Cell::Quoted(s) => format!("{quote}{}{quote}", s.replace(quote, &format!("{quote}{quote}"))),
            })
            .collect();
        out.push_str(&fields.join(&delim.to_string()));
        if ri + 1 < grid.len() || final_newline {
            out.push_str(nl);
        }
    }
    out
}

fn special_cells(delim: char, quote: char) -> Vec<Cell> {
    vec![
        Cell::Plain(String::new()),
        Cell::Plain("a".into()),
        Cell::Plain("1".into()),
        Cell::Plain("-7".into()),
        Cell::Plain("1.5".into()),
        Cell::Plain("true".into()),
        Cell::Plain("é😀".into()),
        Cell::Plain(" padded ".into()),
        Cell::Quoted(format!("a{delim}b")),
        Cell::Quoted(format!("say {quote}hi{quote}")),
        Cell::Quoted("line1\nline2".into()),
        Cell::Quoted("line1\r\nline2".into()),
        Cell::Quoted(String::new()),
    ]
}

struct FileCase {
    name: String,
    data: String,
    gen_dialect: (char, char),
}

fn files(tier: Tier) -> Vec<FileCase> {
    let mut out = Vec::new();
    let shapes: Vec<(usize, usize)> = if tier.is_thorough() { vec![(1, 1), (1, 2), (2, 1), (2, 2), (3, 2), (2, 3), (4, 3), (3, 1), (4, 1)] } else { vec![(1, 1), (2, 2), (3, 2)] };
    let dialects: Vec<(char, char)> = if tier.is_thorough() { DIALECTS.to_vec() } else { vec![(',', '"'), ('|', '\''), ('\t', '"')] };
    for (rows, cols) in shapes {
        for &(delim, quote) in &dialects {
            let specials = special_cells(delim, quote);
            for header in [true, false] {
                let base = |r: usize, c: usize| -> Cell {
                    if header && r == 0 { Cell::Plain(format!("h{c}")) } else { Cell::Plain(format!("v{r}{c}")) }
                };
                let positions: Vec<(usize, usize)> = (if header { 1 } else { 0 }..rows + if header { 1 } else { 0 }).flat_map(|r| (0..cols).map(move |c| (r, c))).collect();
                let total_rows = rows + if header { 1 } else { 0 };
                let mut grids: Vec<(String, Vec<Vec<Cell>>)> = Vec::new();
                let plain: Vec<Vec<Cell>> = (0..total_rows).map(|r| (0..cols).map(|c| base(r, c)).collect()).collect();
                grids.push(("plain".into(), plain.clone()));
                // one special cell at every position
                for (pi, &(r, c)) in positions.iter().enumerate() {
                    for (si, s) in specials.iter().enumerate() {
                        let mut g = plain.clone();
                        g[r][c] = s.clone();
                        grids.push((format!("1sp:{pi}:{si}"), g.clone()));
                        // two special cells (thorough: all pairs; quick: same special in the next position)
                        for (pj, &(r2, c2)) in positions.iter().enumerate().skip(pi + 1) {
                            // thorough: all pairs of positions x all pairs of specials for grids of <= 6 cells; for the larger
                            // grids neighbouring positions (next cell, cell below) x 3 partner specials (the full product is
                            // ~10^8 reads); quick: the same special in the next position
                            let big = positions.len() > 6;
                            let range: Vec<usize> = if tier.is_thorough() && !big {
                                (0..specials.len()).collect()
                            } else if tier.is_thorough() {
                                vec![si, (si + 5) % specials.len(), (si + 9) % specials.len()]
                            } else {
                                vec![si, (si + 5) % specials.len()]
                            };
                            if !tier.is_thorough() && pj != pi + 1 {
                                continue;
                            }
                            if tier.is_thorough() && big && pj != pi + 1 && pj != pi + cols {
                                continue;
                            }
                            for sj in range {
                                let mut g2 = g.clone();
                                g2[r2][c2] = specials[sj].clone();
                                grids.push((format!("2sp:{pi}:{si}:{pj}:{sj}"), g2));
                            }
                        }
                    }
                }
                // a whole typed column: all values of one kind
                for (kn, vals) in [("ints", vec!["1", "-7", "", "42"]), ("floats", vec!["1.5", "-2", "", "1e3"]), ("bools", vec!["true", "false", "", "true"]), ("mixed", vec!["1", "x", "", "2.5"])] {
                    let mut g = plain.clone();
                    for (k, r) in (if header { 1 } else { 0 }..total_rows).enumerate() {
                        g[r][0] = Cell::Plain(vals[k % vals.len()].to_string());
                    }
                    grids.push((format!("col:{kn}"), g));
                }
                for (gname, g) in grids {
                    let endings: Vec<(bool, bool)> = if tier.is_thorough() { vec![(false, true), (false, false), (true, true), (true, false)] } else { vec![(false, true), (true, false)] };
                    for (crlf, fin) in endings {
                        out.push(FileCase { name: format!("{rows}x{cols}:{}:{}:h{}:{}{}:{gname}", delim.escape_default(), quote, header as u8, if crlf { "crlf" } else { "lf" }, if fin { "+nl" } else { "" }), data: render(&g, delim, quote, crlf, fin), gen_dialect: (delim, quote) });
                    }
                }
            }
        }
    }
    // size families beyond the 4 096-byte inference sample: the type / width changes only after the sample
    for (name, late) in [("late-text", "zzz"), ("late-float", "2.5"), ("late-int", "7")] {
        let mut s = String::from("id,v\n");
        for i in 0..1500 {
            s.push_str(&format!("{i},{}\n", i % 10));
        }
        s.push_str(&format!("1500,{late}\n"));
        out.push(FileCase { name: format!("sample-boundary:{name}"), data: s, gen_dialect: (',', '"') });
    }
    {
        let mut s = String::from("a,b,c\n");
        for i in 0..70_000 {
            s.push_str(&format!("{i},\"x{i},y\",{}\n", if i % 3 == 0 { "" } else { "1.5" }));
        }
        out.push(FileCase { name: "rows-70000".into(), data: s, gen_dialect: (',', '"') });
    }
    out
}

#[derive(Default)]
struct Res {
    evals: u64,
    nontrivial: u64,
    unexplained_skipped: u64,
    outcomes: BTreeSet<String>,
    fails: Vec<(String, Replay)>,
}

fn read(d: &mut Driver, path: &str) -> Outcome {
    d.q(&format!("SELECT * FROM read_csv('{path}')"))
}

fn family_of(name: &str) -> String {
    // shape : delimiter : quote : header : ending : grid-kind (positions stripped)
    let parts: Vec<&str> = name.split(':').collect();
    if parts.len() >= 6 {
        let kind = parts[5];
        let sp: Vec<&str> = parts[5..].to_vec();
        let special = if kind == "1sp" && sp.len() >= 3 { format!("1sp:s{}", sp[2]) } else if kind == "2sp" && sp.len() >= 5 { format!("2sp:s{}+s{}", sp[2], sp[4]) } else { sp.join(":") };
        format!("{}:{}:{}", parts[3], parts[4], special)
    } else {
        name.to_string()
    }
}

fn check_file(d: &mut Driver, fc: &FileCase, tier: Tier, res: &mut Res) {
    if d.dirty {
        *d = Driver::new();
    }
    let path = "f.csv";
    d.fs.clear_files();
    d.fs.put(path, fc.data.as_bytes().to_vec());
    d.fs.set_script(BTreeMap::new());
    d.must("SET partitions TO 1");
    d.must("SET batch_size TO 2048");
    let base = read(d, path);
    res.evals += 1;
    let fam = family_of(&fc.name);
    let mk = |sql: &str, script: Vec<(usize, String, usize)>, expected: String, observed: String, note: String| Replay { check: "C17".into(), files: vec![(path.to_string(), fc.data.as_bytes().to_vec())], script, steps: vec![(0, sql.to_string())], expected, observed, note, ..Default::default() };
    let sql = format!("SELECT * FROM read_csv('{path}')");
    let r = match &base {
        Outcome::Rows(r) => r.clone(),
        Outcome::Error { msg, .. } => {
            // a valid RFC-4180 file under its generating dialect must be readable; a file with no non-empty
            // field at all, or whose values stop fitting the sampled type after the sample, may be refused
            let recs = rfc4180(&fc.data, fc.gen_dialect.0, fc.gen_dialect.1).unwrap_or_default();
            let has_content = recs.iter().flatten().any(|f| !f.text.is_empty()) && recs.len() >= 1;
            if has_content && !fc.name.starts_with("sample-boundary") {
                res.fails.push((format!("C17|spurious-error:{}|{fam}", msg_template(msg)), mk(&sql, vec![], "the records of the file".into(), base.brief(), fc.name.clone())));
            }
            return;
        }
        o => {
            res.fails.push((format!("C17|{}|{fam}", outcome_fail_class(o).unwrap()), mk(&sql, vec![], "rows".into(), o.brief(), fc.name.clone())));
            return;
        }
    };
    // ---- (1) reference parse: some (dialect, header) must explain the result; the generating dialect is one candidate
    if fc.data.len() < 4000 {
        let mut explained = false;
        let mut candidates = 0;
        for (dl, q) in DIALECTS {
            if let Some(recs) = rfc4180(&fc.data, dl, q) {
                candidates += 1;
                // blank lines (a record that is one empty unquoted field) are not defined by RFC 4180 for
                // single-column data: both readings are admissible
                let no_blank: Vec<Vec<Field>> = recs.iter().filter(|r| !(r.len() == 1 && r[0].text.is_empty() && !r[0].quoted)).cloned().collect();
                for variant in [&recs, &no_blank] {
                    for h in [true, false] {
                        if explains(variant, h, &r.names, &r.types, &r.rows) {
                            explained = true;
                        }
                    }
                }
            }
        }
        if candidates == 0 {
            res.unexplained_skipped += 1;
        } else if !explained {
            let genp = rfc4180(&fc.data, fc.gen_dialect.0, fc.gen_dialect.1);
            res.fails.push((format!("C17|not-an-rfc4180-parse|{fam}"), mk(&sql, vec![], format!("the RFC-4180 records under one of the candidate dialects x header decisions with narrowest column types; under the generating dialect: {:?}", genp.map(|g| g.iter().map(|r| r.iter().map(|f| f.text.clone()).collect::<Vec<_>>()).collect::<Vec<_>>())), format!("names={:?} types={:?} rows={}", r.names, r.types, crate::val::fmt_rows(&r.rows, 8)), fc.name.clone())));
            return;
        } else {
            res.nontrivial += 1;
        }
    }
    // ---- (2) independence from batch size, partitions and read-chunk boundaries
    let same = |o: &Outcome| -> Result<(), String> {
        match o {
            Outcome::Rows(x) => {
                if x.names != r.names || x.types != r.types {
                    return Err(format!("schema {:?}/{:?} vs {:?}/{:?}", x.names, x.types, r.names, r.types));
                }
                if bag(&x.rows) != bag(&r.rows) {
                    return Err(format!("rows {} vs {}", crate::val::fmt_rows(&x.rows, 6), crate::val::fmt_rows(&r.rows, 6)));
                }
                Ok(())
            }
            o => Err(o.brief()),
        }
    };
    let cfgs: Vec<(usize, usize)> = if tier.is_thorough() { vec![(1, 1), (1, 2), (1, 3), (2, 2048), (3, 2), (3, 2048)] } else { vec![(1, 1), (3, 2)] };
    for (p, b) in cfgs {
        if fc.data.len() > 100_000 && b < 100 {
            continue;
        }
        if d.dirty {
            return;
        }
        d.must(&format!("SET partitions TO {p}"));
        d.must(&format!("SET batch_size TO {b}"));
        let o = read(d, path);
        res.evals += 1;
        if let Err(e) = same(&o) {
            let class = outcome_fail_class(&o).unwrap_or_else(|| "depends-on-config".into());
            res.fails.push((format!("C17|{class}|{fam}"), mk(&sql, vec![], "same rows as with partitions 1 / batch 2048".into(), e, format!("{} P{p} B{b}", fc.name))));
            return;
        }
    }
    if d.dirty {
        return;
    }
    d.must("SET partitions TO 1");
    d.must("SET batch_size TO 2048");
    // every split point (also with batch_size 1, so that completed records are flushed while a partial record is pending): one short read ending at byte offset k (optionally followed by a Pending)
    if fc.data.len() <= 64 {
        // how many reads does the default take?
        d.fs.reset_counters();
        let _ = read(d, path);
        let nreads = d.fs.reads();
        for ri in 0..nreads.min(6) {
            for k in 1..fc.data.len() {
                for (pend, bsz) in [(false, 2048usize), (true, 2048), (false, 1)] {
                    if pend && !(tier.is_thorough() || k % 4 == 1) {
                        continue;
                    }
                    if d.dirty {
                        return;
                    }
                    d.must(&format!("SET batch_size TO {bsz}"));
                    let mut script = BTreeMap::new();
                    script.insert(ri, Answer::Short(k));
                    if pend {
                        script.insert(ri + 1, Answer::Pending);
                    }
                    d.fs.set_script(script.clone());
                    let o = read(d, path);
                    res.evals += 1;
                    d.fs.set_script(BTreeMap::new());
                    if let Err(e) = same(&o) {
                        let class = outcome_fail_class(&o).unwrap_or_else(|| "depends-on-read-boundary".into());
                        let sc: Vec<(usize, String, usize)> = script.iter().map(|(i, a)| match a {
                            Answer::Short(n) => (*i, "short".to_string(), *n),
                            Answer::Pending => (*i, "pending".to_string(), 0),
                            Answer::Err => (*i, "err".to_string(), 0),
                            Answer::Full => (*i, "full".to_string(), 0),
                        }).collect();
                        res.fails.push((format!("C17|{class}|{fam}"), mk(&sql, sc, "same rows as with unsplit reads".into(), e, format!("{}: read #{ri} served {k} bytes{}, batch_size {bsz}", fc.name, if pend { " then Pending" } else { "" }))));
                        return;
                    }
                }
            }
        }
        res.nontrivial += 1;
    } else {
        // larger files: chunk sizes around line and sample boundaries
        for chunk in [1usize, 7, 64, 4095, 4096, 4097] {
            if fc.data.len() > 100_000 && chunk < 64 {
                continue;
            }
            if d.dirty {
                return;
            }
            d.fs.set_max_chunk(Some(chunk));
            let o = read(d, path);
            res.evals += 1;
            d.fs.set_max_chunk(None);
            if let Err(e) = same(&o) {
                let class = outcome_fail_class(&o).unwrap_or_else(|| "depends-on-read-boundary".into());
                res.fails.push((format!("C17|{class}|{fam}"), mk(&sql, vec![], "same rows as with unsplit reads".into(), e, format!("{}: every read limited to {chunk} bytes", fc.name))));
                return;
            }
        }
        res.nontrivial += 1;
    }
}

pub fn run(tier: Tier) -> i32 {
    let mut rep = Report::new("C17", tier, "exploration");
    let fs = files(tier);
    let results = par_run(fs.len(), Driver::new, |d, i| {
        let mut res = Res::default();
        check_file(d, &fs[i], tier, &mut res);
        res
    });
    let (mut evals, mut nontriv, mut skipped) = (0u64, 0u64, 0u64);
    let mut outcomes = BTreeSet::new();
    for rr in results {
        evals += rr.evals;
        nontriv += rr.nontrivial;
        skipped += rr.unexplained_skipped;
        outcomes.extend(rr.outcomes);
        for (k, rp) in rr.fails {
            rep.fail(k, rp);
        }
    }
    rep.cov("evaluations", json!(evals));
    rep.cov("distinct_nontrivial", json!(nontriv));
    rep.cov("rule", json!("files of rows x cols grids whose cells are plain distinct text with every choice of <= 2 special cells (empty, int, negative int, float, bool, multi-byte, padded, quoted with delimiter / doubled quote / LF / CRLF, quoted empty) and typed columns, rendered for delimiter in {, | ; TAB} x quote in {\" '} x header yes/no x LF/CRLF x final newline; plus files whose type changes after the 4 096-byte inference sample and a 70 000-row file. Oracle (1): the result equals the RFC-4180 parse (own parser) under one of the 8 candidate dialects x header decisions with the narrowest column types; (2) identical rows for every (partitions, batch_size) configuration and for one short read at every byte offset of every read call (optionally followed by Pending) through the VerifFs seam. non-trivial = files whose parse was explained / whose all split points agreed"));
    rep.cov("files", json!(fs.len()));
    rep.cov("files_without_valid_candidate", json!(skipped));
    rep.cov("distinct_outcomes", json!(outcomes.into_iter().collect::<Vec<_>>()));
    rep.cov("exhaustive", json!(true));
    rep.cov("samples", json!([fs[0].data.clone(), fs[fs.len() / 3].data.clone(), fs[fs.len() / 2].data.chars().take(200).collect::<String>()]));
    rep.finish()
}
