//! C18 - the announced schema is the schema of the rows produced.
//! Four-way agreement on every statement of a large enumerated family:
//! DESCRIBE <stmt>, QueryResult.output_schema, Array::datatype() of every returned
//! batch, and the variant (incl. decimal precision/scale, timestamp unit) of every value.
use std::collections::BTreeSet;

use glaredb_core::arrays::datatype::DataTypeId as T;
use serde_json::json;

use super::rel::outcome_fail_class;
use crate::alg::{self, DbInst};
use crate::drv::{Driver, Outcome, RowsOut};
use crate::fnreg;
use crate::infra::{Replay, Report, Tier, msg_template, par_run};
use crate::val::Val;

#[derive(Default)]
struct Res {
    evals: u64,
    nontrivial: u64,
    outcomes: BTreeSet<String>,
    fails: Vec<(String, Replay)>,
}

/// Does a value-variant tag agree with an announced type string?
fn tag_matches(ty: &str, tag: &str) -> bool {
    if ty == tag {
        return true;
    }
    // lists / structs: only the outer constructor is compared
    if ty.starts_with("List") && tag.starts_with("List") {
        return true;
    }
    if ty.starts_with("Struct") && tag.starts_with("Struct") {
        return true;
    }
    false
}

fn check_stmt(d: &mut Driver, family: &str, site: &str, setup: &[String], sql: &str, res: &mut Res) {
    if d.dirty {
        *d = Driver::new();
        for s in setup {
            d.must(s);
        }
    }
    let o = d.q(sql);
    res.evals += 1;
    let steps = |extra: &str| -> Vec<(usize, String)> {
        let mut v: Vec<(usize, String)> = setup.iter().map(|s| (0usize, s.clone())).collect();
        v.push((0, sql.to_string()));
        if !extra.is_empty() {
            v.push((0, extra.to_string()));
        }
        v
    };
    let r: RowsOut = match &o {
        Outcome::Rows(r) => r.clone(),
        Outcome::Error { .. } => {
            res.outcomes.insert("error".into());
            return;
        }
        o2 => {
            // panics / hangs are the subject of C15 / C16 / C05; C18 only judges produced schemas
            res.outcomes.insert(format!("not-a-schema-question:{}", outcome_fail_class(o2).unwrap_or_default().split(':').next().unwrap_or("")));
            return;
        }
    };
    // (ii) vs (iii): every batch carries the announced types
    for (bi, bt) in r.batch_types.iter().enumerate() {
        if bt != &r.types {
            res.fails.push((format!("C18|batch-type-differs|{family}:{site}"), Replay { check: "C18".into(), steps: steps(""), expected: format!("{:?} (output_schema)", r.types), observed: format!("batch {bi}: {bt:?}"), ..Default::default() }));
            return;
        }
    }
    // row width
    for row in &r.rows {
        if row.len() != r.types.len() {
            res.fails.push((format!("C18|row-width-differs|{family}:{site}"), Replay { check: "C18".into(), steps: steps(""), expected: format!("{} columns", r.types.len()), observed: format!("{} values", row.len()), ..Default::default() }));
            return;
        }
    }
    // (iv): value variants
    for (c, tags) in r.val_tags.iter().enumerate() {
        for tag in tags {
            if !tag_matches(&r.types[c], tag) {
                res.fails.push((format!("C18|value-variant-differs:{}->{}|{family}:{site}", generic(&r.types[c]), generic(tag)), Replay { check: "C18".into(), steps: steps(""), expected: format!("column {} announced as {}", c + 1, r.types[c]), observed: format!("produced a value of variant {tag}"), ..Default::default() }));
                return;
            }
        }
    }
    // (i): DESCRIBE announces the same names and types
    if !sql.trim_start().to_uppercase().starts_with("SELECT") && !sql.trim_start().to_uppercase().starts_with("WITH") && !sql.trim_start().starts_with('(') {
        res.nontrivial += 1;
        return;
    }
    let dsql = format!("DESCRIBE {sql}");
    let dsc = d.q(&dsql);
    res.evals += 1;
    match &dsc {
        Outcome::Rows(dr) => {
            let got: Vec<(String, String)> = dr.rows.iter().map(|row| (row[0].as_str().unwrap_or("?").to_string(), row[1].as_str().unwrap_or("?").to_string())).collect();
            let want: Vec<(String, String)> = r.names.iter().cloned().zip(r.types.iter().cloned()).collect();
            if got != want {
                res.fails.push((format!("C18|describe-differs|{family}:{site}"), Replay { check: "C18".into(), steps: steps(&dsql), expected: format!("{want:?}"), observed: format!("{got:?}"), ..Default::default() }));
                return;
            }
        }
        Outcome::Error { msg, .. } => {
            res.fails.push((format!("C18|describe-error:{}|{family}:{site}", msg_template(msg)), Replay { check: "C18".into(), steps: steps(&dsql), expected: "the schema of the statement".into(), observed: dsc.brief(), ..Default::default() }));
            return;
        }
        o2 => {
            res.fails.push((format!("C18|{}|describe:{family}:{site}", outcome_fail_class(o2).unwrap()), Replay { check: "C18".into(), steps: steps(&dsql), expected: "rows".into(), observed: o2.brief(), ..Default::default() }));
            return;
        }
    }
    res.nontrivial += 1;
    res.outcomes.insert("agree".into());
}

/// type string with the numbers removed (keys must not depend on p,s)
fn generic(s: &str) -> String {
    let mut out = String::new();
    let mut last = false;
    for c in s.chars() {
        if c.is_ascii_digit() {
            if !last {
                out.push('N');
            }
            last = true;
        } else {
            out.push(c);
            last = false;
        }
    }
    out
}

fn sql_types() -> Vec<T> {
    vec![T::Boolean, T::Int8, T::Int16, T::Int32, T::Int64, T::UInt8, T::UInt16, T::UInt32, T::UInt64, T::Float16, T::Float32, T::Float64, T::Decimal64, T::Decimal128, T::Utf8, T::Date32, T::Timestamp, T::Interval]
}

pub fn run(tier: Tier) -> i32 {
    let mut rep = Report::new("C18", tier, "exploration");
    crate::guard::set_wall_limit_ms(3000);
    // ---- work list: (family, site, setup, sql)
    let mut work: Vec<(String, String, Vec<String>, String)> = Vec::new();
    // (a) algebra terms over a fixed two-row database, inline VALUES
    let db = {
        let sc = alg::scope_for(&alg::base_terms()[0].q, 2, 1_000_000);
        let _ = sc;
        DbInst { tables: vec![("t".into(), vec![vec![Val::Int(1), Val::Null, Val::Str("x".into())], vec![Val::Null, Val::Int(3), Val::Str("long-string-13b".into())], vec![Val::Int(2), Val::Int(1), Val::Null]]), ("u".into(), vec![vec![Val::Int(1), Val::Int(3)], vec![Val::Null, Val::Null], vec![Val::Int(2), Val::Int(1)]])] }
    };
    let terms = alg::terms(2, tier.is_thorough());
    let step = if tier.is_thorough() { 1 } else { 3 };
    for t in terms.iter().step_by(step) {
        work.push(("term".into(), crate::checks::rel::shape_sig(&t.shape), vec![], alg::inline_values(&t.q, &db).sql()));
    }
    // (b) every scalar signature on its last alphabet tuple, literal and column context
    for s in fnreg::scalar_sigs().into_iter().filter(|s| !s.volatile && s.category != "debug") {
        let mut argtys = s.args.clone();
        if let Some(v) = s.variadic {
            argtys.push(v);
        }
        if argtys.is_empty() || argtys.len() > 3 {
            continue;
        }
        let mut tuple1 = Vec::new();
        let mut tuple2 = Vec::new();
        let mut ok = true;
        for t in &argtys {
            match fnreg::alphabet(*t, true) {
                Some(a) => {
                    tuple1.push(a[1].clone());
                    tuple2.push(a[a.len() - 1].clone());
                }
                None => ok = false,
            }
        }
        if !ok {
            continue;
        }
        let site = format!("{}({})", s.name, argtys.iter().map(|t| t.to_string()).collect::<Vec<_>>().join(","));
        for tup in [tuple1, tuple2] {
            if let Some(call) = fnreg::call_sql(&s.name, &tup) {
                work.push(("fn-literal".into(), site.clone(), vec![], format!("SELECT {call}")));
                let cols: Vec<String> = (0..tup.len()).map(|i| format!("c{i}")).collect();
                if let Some(ccall) = fnreg::call_sql(&s.name, &cols) {
                    work.push(("fn-column".into(), site.clone(), vec![], format!("SELECT {ccall} FROM (VALUES ({}), ({})) v({})", tup.join(", "), tup.join(", "), cols.join(", "))));
                }
            }
        }
    }
    // (c) aggregates
    for s in fnreg::aggregate_sigs() {
        if s.args.len() != 1 {
            continue;
        }
        if let Some(a) = fnreg::alphabet(s.args[0], true) {
            let site = format!("{}({})", s.name, s.args[0]);
            work.push(("agg".into(), site.clone(), vec![], format!("SELECT {}(x) FROM (VALUES ({}), ({})) v(x)", s.name, a[1], a[a.len() - 1])));
            work.push(("agg-grouped".into(), site, vec![], format!("SELECT g, {}(x) FROM (VALUES (1, {}), (2, {})) v(g, x) GROUP BY g", s.name, a[1], a[a.len() - 1])));
        }
    }
    // (d) UNION over all ordered type pairs; CASE / coalesce over pairs
    for a in sql_types() {
        for b in sql_types() {
            let (aa, bb) = (fnreg::alphabet(a, true).unwrap(), fnreg::alphabet(b, true).unwrap());
            let site = format!("{a},{b}");
            work.push(("union".into(), site.clone(), vec![], format!("SELECT {} AS x UNION ALL SELECT {}", aa[1], bb[1])));
            work.push(("union-distinct".into(), site.clone(), vec![], format!("SELECT {} AS x UNION SELECT {}", aa[1], bb[1])));
            if tier.is_thorough() {
                work.push(("case".into(), site.clone(), vec![], format!("SELECT CASE WHEN g = 1 THEN {} ELSE {} END AS x FROM generate_series(1, 2) s(g)", aa[1], bb[1])));
                work.push(("coalesce".into(), site, vec![], format!("SELECT coalesce({}, {}) AS x", aa[0], bb[1])));
            }
        }
    }
    // (e) decimal (p,s) pairs under + - * / and literals
    let ps = [(1, 0), (2, 1), (3, 2), (9, 2), (18, 0), (18, 3), (18, 18), (19, 0), (19, 4), (38, 0), (38, 10), (38, 38)];
    for (p1, s1) in ps {
        for (p2, s2) in ps {
            for op in ["+", "-", "*", "/", "%"] {
                let l = format!("CAST('0' AS DECIMAL({p1},{s1}))");
                let r = format!("CAST('0' AS DECIMAL({p2},{s2}))");
                if op == "/" || op == "%" {
                    let r1 = format!("CAST('{}' AS DECIMAL({p2},{s2}))", if p2 > s2 { "1" } else { "0.1" });
                    work.push(("decimal-arith".into(), format!("dec{op}dec"), vec![], format!("SELECT {l} {op} {r1}")));
                } else {
                    work.push(("decimal-arith".into(), format!("dec{op}dec"), vec![], format!("SELECT {l} {op} {r}")));
                    work.push(("decimal-arith-column".into(), format!("dec{op}dec"), vec![], format!("SELECT a {op} b FROM (VALUES ({l}, {r})) v(a, b)")));
                }
            }
        }
    }
    for lit in ["1.5", "0.001", "123456789.123456789", "1.5 + 2", "1.5 * 2.25", "2 * 1.5", "1.5 + CAST(1 AS SMALLINT)", "1.5 - CAST(1 AS BIGINT)", "round(1.55, 1)", "-1.5", "abs(-1.5)"] {
        work.push(("decimal-literal".into(), "literal".into(), vec![], format!("SELECT {lit}")));
    }
    // (f) DESCRIBE of tables, views, table functions; DML and utility statements
    let setup: Vec<String> = vec!["CREATE TEMP TABLE dt (a INT, b TEXT, c DECIMAL(7,3), d DOUBLE, e DATE, f BOOLEAN, g BIGINT)".into(), "INSERT INTO dt VALUES (1, 'x', CAST('1.500' AS DECIMAL(7,3)), 1.5, CAST('2024-02-29' AS DATE), true, 5)".into(), "CREATE TEMP VIEW dv AS SELECT a, c FROM dt".into()];
    for (site, sql) in [
        ("table", "SELECT * FROM dt"),
        ("view", "SELECT * FROM dv"),
        ("series", "SELECT * FROM generate_series(1, 3)"),
        ("series-step", "SELECT * FROM generate_series(1, 10, 3)"),
        ("list_functions", "SELECT * FROM list_functions() LIMIT 3"),
        ("list_tables", "SELECT * FROM list_tables()"),
        ("list_schemas", "SELECT * FROM list_schemas()"),
        ("show", "SHOW partitions"),
        ("show-batch", "SHOW batch_size"),
        ("insert", "INSERT INTO dt (a) VALUES (2)"),
        ("describe-table", "DESCRIBE dt"),
        ("describe-view", "DESCRIBE dv"),
        ("describe-series", "DESCRIBE generate_series(1, 3)"),
        ("explain", "EXPLAIN SELECT a FROM dt"),
        ("set", "SET partitions TO 1"),
        ("values", "SELECT * FROM (VALUES (1, 'a', 1.5), (NULL, NULL, NULL)) v(a, b, c)"),
        ("values-unaliased", "VALUES (1, 'a')"),
        ("star-join", "SELECT * FROM dt x JOIN dv y ON x.a = y.a"),
        ("struct", "SELECT {'k': 1, 'j': 'x'}"),
        ("list", "SELECT [1, 2, 3], ['a']"),
        ("null", "SELECT NULL, NULL + 1, NULL::INT"),
        ("agg-types", "SELECT count(*), sum(a), avg(a), min(b), max(c), sum(c), avg(c), sum(d), sum(g) FROM dt"),
        ("ts", "SELECT epoch(0), epoch_ms(5), date_trunc('day', epoch(0))"),
        ("interval", "SELECT INTERVAL '1 day', CAST('2024-01-01' AS DATE) + 1, CAST('2024-01-01' AS DATE) - CAST('2023-01-01' AS DATE)"),
    ] {
        work.push(("catalog".into(), site.into(), setup.clone(), sql.into()));
    }
    // (g) set operations with several columns: every column is unified on its own, whatever the direction of
    // the casts the other columns need. For each unordered type pair whose one-column unions succeed, the
    // two- and three-column unions with opposing cast directions must succeed with the same column types.
    let tys = sql_types();
    let mut multi: Vec<(String, [String; 3], [String; 2])> = Vec::new();
    for (i, a) in tys.iter().enumerate() {
        for b in tys.iter().skip(i + 1) {
            let (aa, bb) = (fnreg::alphabet(*a, true).unwrap(), fnreg::alphabet(*b, true).unwrap());
            let (x, y) = (aa[1].clone(), bb[1].clone());
            multi.push((
                format!("{a},{b}"),
                [
                    format!("SELECT {x} AS c1, {y} AS c2 UNION ALL SELECT {y}, {x}"),
                    format!("SELECT {y} AS c1, {x} AS c2, {x} AS c3 UNION SELECT {x}, {y}, {x}"),
                    format!("SELECT c1, c2 FROM (SELECT {x} AS c1, {y} AS c2) l UNION ALL SELECT c1, c2 FROM (SELECT {y} AS c1, {x} AS c2) r WHERE false"),
                ],
                [format!("SELECT {x} AS c UNION ALL SELECT {y}"), format!("SELECT {y} AS c UNION ALL SELECT {x}")],
            ));
        }
    }
    let multi_res = par_run(multi.len(), Driver::new, |d, i| {
        let mut res = Res::default();
        if d.dirty {
            *d = Driver::new();
        }
        let (site, stmts, singles) = &multi[i];
        let s1 = d.q(&singles[0]);
        let s2 = d.q(&singles[1]);
        res.evals += 2;
        let (Outcome::Rows(r1), Outcome::Rows(r2)) = (&s1, &s2) else {
            res.outcomes.insert("pair-not-unifiable".into());
            return res;
        };
        if r1.types != r2.types {
            res.fails.push((format!("C18|union-type-depends-on-branch-order|{site}"), Replay { check: "C18".into(), steps: vec![(0, singles[0].clone()), (0, singles[1].clone())], expected: format!("{:?}", r1.types), observed: format!("{:?}", r2.types), ..Default::default() }));
            return res;
        }
        let t = r1.types[0].clone();
        // the third column of the three-column form has the same type in both branches: its own type
        let own = match d.q(&singles[0].split(" UNION ALL ").next().unwrap_or("").to_string()) {
            Outcome::Rows(r) => r.types[0].clone(),
            _ => t.clone(),
        };
        for (k, sql) in stmts.iter().enumerate() {
            let o = d.q(sql);
            res.evals += 1;
            match &o {
                Outcome::Rows(r) => {
                    let want = if k == 1 { vec![t.clone(), t.clone(), own.clone()] } else { vec![t.clone(); 2] };
                    if r.types != want || r.batch_types.iter().any(|bt| bt != &want) {
                        res.fails.push((format!("C18|union-multi-column:type-differs|{site}"), Replay { check: "C18".into(), steps: vec![(0, sql.clone())], expected: format!("{want:?} (each column unified like the one-column union)"), observed: format!("announced {:?}, batches {:?}", r.types, r.batch_types), ..Default::default() }));
                    } else {
                        res.nontrivial += 1;
                        res.outcomes.insert("agree".into());
                    }
                }
                Outcome::Error { msg, .. } => {
                    res.fails.push((format!("C18|union-multi-column:error:{}|{site}", msg_template(msg)), Replay { check: "C18".into(), steps: vec![(0, sql.clone())], expected: format!("rows of types {t} (both one-column unions of these types succeed)"), observed: o.brief(), ..Default::default() }));
                }
                o2 => {
                    res.outcomes.insert(format!("not-a-schema-question:{}", outcome_fail_class(o2).unwrap_or_default().split(':').next().unwrap_or("")));
                }
            }
            if d.dirty {
                *d = Driver::new();
            }
        }
        res
    });
    let results = par_run(work.len(), Driver::new, |d, i| {
        let mut res = Res::default();
        let (family, site, setup, sql) = &work[i];
        if !setup.is_empty() {
            *d = Driver::new();
            for s in setup {
                d.must(s);
            }
        }
        check_stmt(d, family, site, setup, sql, &mut res);
        // determinism of type resolution: bind again in this session and in a fresh engine
        if i % 7 == 0 && !d.dirty {
            let a = d.q(sql);
            let mut d2 = Driver::new();
            for s in setup {
                d2.must(s);
            }
            let b = d2.q(sql);
            res.evals += 2;
            if let (Outcome::Rows(x), Outcome::Rows(y)) = (&a, &b) {
                if x.types != y.types || x.names != y.names {
                    res.fails.push((format!("C18|type-resolution-not-deterministic|{family}:{site}"), Replay { check: "C18".into(), steps: vec![(0, sql.clone())], expected: format!("{:?}", x.types), observed: format!("{:?} in a fresh engine", y.types), ..Default::default() }));
                }
            }
        }
        if !setup.is_empty() {
            *d = Driver::new();
        }
        res
    });
    let (mut evals, mut nontriv) = (0u64, 0u64);
    let mut outcomes = BTreeSet::new();
    let mut results = results;
    results.extend(multi_res);
    for rr in results {
        evals += rr.evals;
        nontriv += rr.nontrivial;
        outcomes.extend(rr.outcomes);
        for (k, rp) in rr.fails {
            rep.fail(k, rp);
        }
    }
    let fams: BTreeSet<String> = work.iter().map(|w| w.0.clone()).collect();
    rep.cov("evaluations", json!(evals));
    rep.cov("distinct_nontrivial", json!(nontriv));
    rep.cov("rule", json!("every statement of: the algebra terms of depth <= 2 (C01), every scalar signature on two alphabet tuples in literal and column context, every unary aggregate plain and grouped, UNION [ALL] (and CASE / coalesce) over all ordered pairs of 18 types, two- and three-column unions with opposing cast directions over all unordered type pairs (each column must be unified like the one-column union), decimal arithmetic over 12x12 (precision, scale) pairs in literal and column context, catalog / table-function / DML / utility statements. Oracle: DESCRIBE <stmt> = QueryResult.output_schema (names and types) = Array::datatype() of every returned batch = the variant of every produced value including decimal precision/scale and timestamp unit; the same statement bound twice and in a fresh engine announces the same types. non-trivial = statements for which all views agreed"));
    rep.cov("statements", json!(work.len()));
    rep.cov("families", json!(fams.into_iter().collect::<Vec<_>>()));
    rep.cov("distinct_outcomes", json!(outcomes.into_iter().collect::<Vec<_>>()));
    rep.cov("exhaustive", json!(true));
    rep.cov("samples", json!([work[0].3.chars().take(200).collect::<String>(), work[work.len() / 2].3.chars().take(200).collect::<String>(), work[work.len() - 1].3.chars().take(200).collect::<String>()]));
    rep.finish()
}
