//! C02 - the optimizer never changes what a query returns.
//! Differential: enable_optimizer false (reference) vs true over the C01 space
//! plus one shortcut-forcing family per rewrite rule.
use serde_json::json;

use super::diff::{self, Config, DiffStats, Tolerance, cfg};
use super::rel::{RawFail, Worker, blame, outcome_fail_class};
use crate::alg::{self, DbInst, bags, domain, schema};
use crate::infra::{Replay, Report, Tier, par_run, samples};
use crate::rm::{Body, OrderKey, Query, Select};
use crate::val::{Row, Val};

pub struct Raw {
    pub name: &'static str,
    pub sql: &'static str,
    /// output ordinals the result is ordered by (checked as key sequence), and whether it is limited
    pub order: &'static [(usize, bool)],
    pub limited: bool,
    /// the statement contains a constant sub-expression whose evaluation fails; the
    /// optimizer may evaluate it at plan time (constant folding) although the
    /// unoptimized plan never evaluates it - the difference C02 permits.
    pub fold_error: bool,
}

const fn raw(name: &'static str, sql: &'static str) -> Raw {
    Raw { name, sql, order: &[], limited: false, fold_error: false }
}

pub fn rewrite_families() -> Vec<Raw> {
    vec![
        // constant folding
        raw("constfold:arith", "SELECT a + (1 + 1) AS x, b FROM t"),
        raw("constfold:and-true", "SELECT a, b FROM t WHERE a = 1 AND (1 = 1)"),
        raw("constfold:or-false", "SELECT a, b FROM t WHERE (1 = 0) OR a = 1"),
        raw("constfold:and-false", "SELECT a, b FROM t WHERE a = 1 AND (1 = 0)"),
        raw("constfold:or-true", "SELECT a, b FROM t WHERE a = 1 OR (1 = 1)"),
        raw("constfold:and-null", "SELECT a, b FROM t WHERE a = 1 AND NULL"),
        raw("constfold:or-null", "SELECT a, b FROM t WHERE a = 1 OR NULL"),
        raw("constfold:cmp", "SELECT a FROM t WHERE a > 1 + 1 - 1"),
        raw("constfold:case", "SELECT CASE WHEN 1 = 1 THEN a ELSE b END AS x FROM t"),
        Raw { name: "constfold:error-branch", sql: "SELECT a FROM t WHERE a = 7 AND CAST('x' AS INT) = 1", order: &[], limited: false, fold_error: true },
        raw("constfold:not", "SELECT a FROM t WHERE NOT (1 = 1 AND a = 1)"),
        // distributive OR
        raw("distor:2", "SELECT a, b, c FROM t WHERE (a = 1 AND b = 1) OR (a = 1 AND b = 3)"),
        raw("distor:3", "SELECT a, b, c FROM t WHERE (a = 1 AND b IS NULL) OR (a = 1 AND c = 'x') OR (a = 1)"),
        raw("distor:null", "SELECT a, b, c FROM t WHERE (a = 1 AND b = 1) OR (a = 1 AND NULL)"),
        raw("distor:not", "SELECT a, b, c FROM t WHERE NOT ((a = 1 AND b = 1) OR (a = 1 AND b = 3))"),
        // conjunction unnesting
        raw("unnest:and", "SELECT a, b, c FROM t WHERE (a = 1 AND (b = 1 AND c = 'x'))"),
        raw("unnest:or", "SELECT a, b, c FROM t WHERE (a = 1 OR (b = 1 OR c = 'x'))"),
        raw("unnest:mixed", "SELECT a, b, c FROM t WHERE (a = 1 AND (b = 1 OR (c = 'x' AND a < b)))"),
        // join filter OR
        raw("joinfilteror", "SELECT t.a, t.b, u.a, u.d FROM t, u WHERE (t.a = u.a AND t.b = 1) OR (t.a = u.a AND u.d = 3)"),
        raw("joinfilteror:on", "SELECT t.a, t.b, u.a, u.d FROM t JOIN u ON (t.a = u.a AND t.b = 1) OR (t.a = u.a AND u.d = 3)"),
        // LIKE rewrite
        raw("like:eq", "SELECT a, c FROM t WHERE c LIKE 'x'"),
        raw("like:prefix", "SELECT a, c FROM t WHERE c LIKE 'lo%'"),
        raw("like:suffix", "SELECT a, c FROM t WHERE c LIKE '%13b'"),
        raw("like:contains", "SELECT a, c FROM t WHERE c LIKE '%g-s%'"),
        raw("like:general", "SELECT a, c FROM t WHERE c LIKE 'lo_g%'"),
        raw("like:not", "SELECT a, c FROM t WHERE c NOT LIKE 'x%'"),
        // filter pushdown through joins
        raw("push:left:rightnull", "SELECT t.a, t.b, u.a, u.d FROM t LEFT JOIN u ON t.a = u.a WHERE u.d IS NULL"),
        raw("push:left:righteq", "SELECT t.a, t.b, u.a, u.d FROM t LEFT JOIN u ON t.a = u.a WHERE u.d = 1"),
        raw("push:left:lefteq", "SELECT t.a, t.b, u.a, u.d FROM t LEFT JOIN u ON t.a = u.a WHERE t.b = 1"),
        raw("push:left:coalesce", "SELECT t.a, t.b, u.a, u.d FROM t LEFT JOIN u ON t.a = u.a WHERE coalesce(u.d, 1) = 1"),
        raw("push:right:leftnull", "SELECT t.a, t.b, u.a, u.d FROM t RIGHT JOIN u ON t.a = u.a WHERE t.b IS NULL"),
        raw("push:right:righteq", "SELECT t.a, t.b, u.a, u.d FROM t RIGHT JOIN u ON t.a = u.a WHERE u.d = 1"),
        raw("push:inner:both", "SELECT t.a, t.b, u.a, u.d FROM t JOIN u ON t.a = u.a WHERE t.b < u.d AND t.b = 1"),
        raw("push:inner:or", "SELECT t.a, t.b, u.a, u.d FROM t JOIN u ON t.a = u.a WHERE t.b = 1 OR u.d = 1"),
        raw("push:cross:eq", "SELECT t.a, t.b, u.a, u.d FROM t, u WHERE t.a = u.a AND u.d = 3"),
        raw("push:left:on-left-only", "SELECT t.a, t.b, u.a, u.d FROM t LEFT JOIN u ON t.a = u.a AND t.b = 1"),
        raw("push:left:on-right-only", "SELECT t.a, t.b, u.a, u.d FROM t LEFT JOIN u ON t.a = u.a AND u.d = 1"),
        raw("push:semi", "SELECT a, b FROM t WHERE a IN (SELECT a FROM u) AND b = 1"),
        raw("push:mark", "SELECT a, b FROM t WHERE a IN (SELECT a FROM u WHERE d = 1) OR b = 1"),
        raw("push:mark:not", "SELECT a, b FROM t WHERE NOT (a IN (SELECT a FROM u WHERE d = 1)) AND b = 1"),
        raw("push:exists", "SELECT a, b FROM t WHERE EXISTS (SELECT 1 FROM u WHERE u.a = t.a AND u.d = 1) AND b IS NOT NULL"),
        raw("push:magic", "SELECT a, b FROM t WHERE b = (SELECT max(d) FROM u WHERE u.a = t.a) AND a = 1"),
        raw("push:magic:proj", "SELECT a, (SELECT max(d) FROM u WHERE u.a = t.a) AS m FROM t WHERE b = 1"),
        // below aggregates / projections / limits
        raw("push:agg:key", "SELECT a, n FROM (SELECT a, count(*) AS n FROM t GROUP BY a) s WHERE a = 1"),
        raw("push:agg:val", "SELECT a, n FROM (SELECT a, count(*) AS n FROM t GROUP BY a) s WHERE n > 1"),
        raw("push:agg:keynull", "SELECT a, n FROM (SELECT a, count(*) AS n FROM t GROUP BY a) s WHERE a IS NULL"),
        raw("push:agg:having", "SELECT a, sum(b) AS s FROM t GROUP BY a HAVING a = 1 OR sum(b) > 1"),
        raw("push:agg:global", "SELECT n FROM (SELECT count(*) AS n FROM t) s WHERE n = 0"),
        // ... and above an aggregate with several grouping sets: a filter on a grouping column must not be pushed
        // below the aggregate unless the column is in every grouping set
        raw("push:rollup:having-key1", "SELECT a, b, count(*) AS n FROM t GROUP BY ROLLUP (a, b) HAVING a = 1"),
        raw("push:rollup:having-key2", "SELECT a, b, count(*) AS n FROM t GROUP BY ROLLUP (a, b) HAVING b = 1"),
        raw("push:rollup:having-null", "SELECT a, b, sum(b) AS s FROM t GROUP BY ROLLUP (a, b) HAVING b IS NULL"),
        raw("push:rollup:outer", "SELECT a, b, n FROM (SELECT a, b, count(*) AS n FROM t GROUP BY ROLLUP (a, b)) s WHERE a = 1 AND n > 0"),
        raw("push:cube:outer-key2", "SELECT a, b, n FROM (SELECT a, b, count(*) AS n FROM t GROUP BY CUBE (a, b)) s WHERE b = 1"),
        raw("push:cube:having-or", "SELECT a, b, count(*) AS n FROM t GROUP BY CUBE (a, b) HAVING a = 1 OR b = 3"),
        raw("push:cube:grouping", "SELECT a, b, grouping(a) AS ga, count(*) AS n FROM t GROUP BY CUBE (a, b) HAVING a IS NOT NULL"),
        raw("push:rollup:text-key", "SELECT c, a, count(*) AS n FROM t GROUP BY ROLLUP (c, a) HAVING c = 'x'"),
        raw("push:agg:2keys-having1", "SELECT a, b, count(*) AS n FROM t GROUP BY a, b HAVING b = 1"),
        raw("push:agg:expr-key", "SELECT x, n FROM (SELECT a + 1 AS x, count(*) AS n FROM t GROUP BY a + 1) s WHERE x = 2"),
        raw("push:agg:distinct-agg", "SELECT a, n FROM (SELECT a, count(DISTINCT b) AS n FROM t GROUP BY a) s WHERE a = 1 OR n = 2"),
        raw("push:join-agg", "SELECT s.a, s.n, u.d FROM (SELECT a, count(*) AS n FROM t GROUP BY a) s JOIN u ON s.a = u.a WHERE s.a = 1 AND u.d = 3"),
        raw("push:leftjoin-agg", "SELECT u.a, s.n FROM u LEFT JOIN (SELECT a, count(*) AS n FROM t GROUP BY a) s ON s.a = u.a WHERE s.n IS NULL"),
        raw("push:window-free:unionagg", "SELECT a, n FROM (SELECT a, count(*) AS n FROM t GROUP BY a UNION ALL SELECT a, 0 FROM u) s WHERE a = 1"),
        raw("push:proj", "SELECT x, b FROM (SELECT a + 1 AS x, b FROM t) s WHERE x = 2"),
        raw("push:proj:case", "SELECT x FROM (SELECT CASE WHEN a IS NULL THEN 0 ELSE a END AS x FROM t) s WHERE x = 0"),
        raw("push:distinct", "SELECT a FROM (SELECT DISTINCT a FROM t) s WHERE a = 1"),
        raw("push:union", "SELECT a FROM (SELECT a FROM t UNION ALL SELECT a FROM u) s WHERE a = 1"),
        raw("push:limit-stops", "SELECT a FROM (SELECT a FROM t ORDER BY a LIMIT 1) s WHERE a = 2"),
        raw("push:limit-stops2", "SELECT a FROM (SELECT a FROM t ORDER BY a DESC NULLS LAST LIMIT 1) s WHERE a = 1"),
        raw("push:offset-stops", "SELECT a FROM (SELECT a FROM t ORDER BY a OFFSET 1) s WHERE a = 2"),
        // limit pushdown
        Raw { name: "limit:proj", sql: "SELECT a + 1 AS x FROM t ORDER BY 1 LIMIT 1", order: &[(1, false)], limited: true, fold_error: false },
        raw("limit:zero", "SELECT x FROM (SELECT a + 1 AS x FROM t) s LIMIT 0"),
        Raw { name: "limit:offset", sql: "SELECT a, b FROM t ORDER BY a, b LIMIT 2 OFFSET 1", order: &[(1, false), (2, false)], limited: true, fold_error: false },
        Raw { name: "limit:proj2", sql: "SELECT x, y FROM (SELECT a AS x, b AS y FROM t) s ORDER BY x DESC, y DESC LIMIT 2", order: &[(1, true), (2, true)], limited: true, fold_error: false },
        raw("limit:union", "SELECT count(*) FROM (SELECT a FROM t UNION ALL SELECT a FROM u LIMIT 1) s"),
        // column pruning
        raw("prune:dup", "SELECT a, a, b FROM t"),
        raw("prune:orderby-only", "SELECT b FROM t ORDER BY a"),
        raw("prune:joincond-only", "SELECT t.b FROM t JOIN u ON t.a = u.a"),
        raw("prune:matcte-twice", "WITH c AS MATERIALIZED (SELECT a, b, c FROM t) SELECT x.a FROM c x, c y WHERE x.b = y.b"),
        raw("prune:matcte-diffcols", "WITH c AS MATERIALIZED (SELECT a, b, c FROM t) SELECT x.a, y.c FROM c x JOIN c y ON x.b = y.a"),
        raw("prune:count", "SELECT count(*) FROM (SELECT a, b FROM t) s"),
        raw("prune:agg-unused", "SELECT a FROM (SELECT a, sum(b) AS s, count(*) AS n FROM t GROUP BY a) q"),
        raw("prune:subq", "SELECT b FROM t WHERE a IN (SELECT d FROM u)"),
        raw("prune:leftjoin-unused-right", "SELECT t.a FROM t LEFT JOIN u ON t.a = u.a"),
        raw("prune:union", "SELECT x FROM (SELECT a AS x, b AS y FROM t UNION ALL SELECT d, a FROM u) s"),
        // CSE
        raw("cse:basic", "SELECT a + b AS s1, (a + b) * 2 AS s2, CASE WHEN a + b > 2 THEN a + b ELSE 0 END AS s3 FROM t"),
        raw("cse:case-branches", "SELECT CASE WHEN a = 1 THEN b + 1 WHEN a = 2 THEN b + 1 ELSE b + 1 END AS x, b + 1 AS y FROM t"),
        raw("cse:where", "SELECT a + b AS s FROM t WHERE a + b > 1 AND a + b < 5"),
        raw("cse:guarded", "SELECT CASE WHEN c = 'x' THEN 0 ELSE a END AS x, CASE WHEN c = 'x' THEN 1 ELSE a END AS y FROM t"),
        raw("cse:agg", "SELECT a, sum(b) AS s1, sum(b) + 1 AS s2, count(*) AS n FROM t GROUP BY a"),
        // join reordering
        raw("reorder:chain3", "SELECT t1.a, u.d, t2.b FROM t t1 JOIN u ON t1.a = u.a JOIN t t2 ON u.d = t2.b"),
        raw("reorder:star3", "SELECT t1.a, u.d, t2.b FROM t t1 JOIN u ON t1.a = u.a JOIN t t2 ON t1.b = t2.b"),
        raw("reorder:cycle3", "SELECT t1.a, u.d, t2.b FROM t t1 JOIN u ON t1.a = u.a JOIN t t2 ON t1.b = t2.b AND t2.a = u.a"),
        raw("reorder:chain4", "SELECT t1.a, u1.d, t2.b, u2.d FROM t t1 JOIN u u1 ON t1.a = u1.a JOIN t t2 ON u1.d = t2.b JOIN u u2 ON t2.a = u2.a"),
        raw("reorder:left-mixed", "SELECT t1.a, u.d, t2.b FROM t t1 LEFT JOIN u ON t1.a = u.a JOIN t t2 ON t2.a = t1.a"),
        raw("reorder:left-mixed2", "SELECT t1.a, u.d, t2.b FROM t t1 JOIN t t2 ON t2.a = t1.a LEFT JOIN u ON t2.b = u.d"),
        raw("reorder:cross3", "SELECT t1.a, u.d, t2.b FROM t t1, u, t t2 WHERE t1.a = t2.a"),
        raw("reorder:cross-where", "SELECT t1.a, u.d, t2.b FROM t t1, u, t t2 WHERE t1.a = u.a AND u.d = t2.b AND t1.b < t2.b"),
        raw("reorder:cte-both-sides", "WITH c AS (SELECT a, b FROM t) SELECT c1.a, c2.b FROM c c1 JOIN u ON c1.a = u.a JOIN c c2 ON u.a = c2.a"),
        raw("reorder:matcte-both-sides", "WITH c AS MATERIALIZED (SELECT a, b FROM t) SELECT c1.a, c2.b FROM c c1 JOIN u ON c1.a = u.a JOIN c c2 ON u.a = c2.a"),
        raw("reorder:view-like-both-sides", "SELECT c1.a, c2.b FROM (SELECT a, b FROM t) c1 JOIN u ON c1.a = u.a JOIN (SELECT a, b FROM t) c2 ON u.a = c2.a"),
        raw("reorder:cte-values-both-sides", "WITH c AS (SELECT a, x FROM (VALUES (1,'a'),(2,'b'),(2,'c'),(NULL,'d'),(3,'e')) l(a,x)) SELECT c1.a, c2.x FROM c c1 JOIN u ON c1.a = u.a JOIN c c2 ON u.a = c2.a"),
        raw("reorder:selfjoin", "SELECT x.a, y.b FROM t x JOIN t y ON x.a = y.a"),
        raw("reorder:semi-chain", "SELECT t1.a FROM t t1 JOIN u ON t1.a = u.a WHERE t1.b IN (SELECT b FROM t)"),
        // sort-limit hint
        Raw { name: "sortlimit:asc", sql: "SELECT a, b, c FROM t ORDER BY 1, 2, 3 LIMIT 1", order: &[(1, false), (2, false), (3, false)], limited: true, fold_error: false },
        Raw { name: "sortlimit:desc-off", sql: "SELECT a, b, c FROM t ORDER BY 1 DESC, 2 DESC, 3 DESC LIMIT 1 OFFSET 1", order: &[(1, true), (2, true), (3, true)], limited: true, fold_error: false },
        Raw { name: "sortlimit:nested", sql: "SELECT a FROM (SELECT a, b FROM t ORDER BY a, b LIMIT 2) s ORDER BY a DESC LIMIT 1", order: &[(1, true)], limited: true, fold_error: false },
        // selection reordering with an erroring conjunct
        raw("selreorder:error", "SELECT a FROM t WHERE a = 7 AND CAST(c AS INT) = 1"),
        raw("selreorder:error2", "SELECT a FROM t WHERE CAST(c AS INT) = 1 AND a = 7"),
        raw("selreorder:cheap-first", "SELECT a, b, c FROM t WHERE c LIKE '%x%' AND a = 1 AND b IS NOT NULL"),
    ]
}

fn fake_query(r: &Raw) -> Option<Query> {
    if r.order.is_empty() && !r.limited {
        return None;
    }
    let mut q = Query::of(Select { distinct: false, items: vec![], from: None, where_: None, group_by: crate::rm::GroupBy::None, having: None });
    q.order_by = r.order.iter().map(|(o, d)| OrderKey { ordinal: *o, desc: *d, nulls_first: None, by_name: false }).collect();
    if r.limited {
        q.limit = Some(1);
    }
    let _ = Body::Select;
    Some(q)
}

/// Databases for the raw families: all bags up to (rt, ru) rows over full rows.
pub fn full_dbs(rt: usize, ru: usize) -> Vec<DbInst> {
    let sch = schema();
    let mut per: Vec<Vec<Vec<Row>>> = Vec::new();
    for (td, r) in sch.iter().zip([rt, ru]) {
        let mut rowvals: Vec<Row> = vec![vec![]];
        for (c, _) in &td.cols {
            let mut nv = Vec::new();
            for rv in &rowvals {
                for d in domain(td.name, c) {
                    let mut x = rv.clone();
                    x.push(d);
                    nv.push(x);
                }
            }
            rowvals = nv;
        }
        per.push(bags(rowvals.len(), r).into_iter().map(|b| b.into_iter().map(|i| rowvals[i].clone()).collect()).collect());
    }
    let mut out = Vec::new();
    for a in &per[0] {
        for b in &per[1] {
            out.push(DbInst { tables: vec![("t".into(), a.clone()), ("u".into(), b.clone())] });
        }
    }
    out
}

pub fn run_raw(check: &str, w: &mut Worker, db: &DbInst, fams: &[Raw], reference: &Config, others: &[Config], tol: Tolerance) -> DiffStats {
    let mut st = DiffStats { evals: 0, nontrivial: 0, permitted_asymmetry: 0, both_error: 0, outcomes: Default::default(), fails: vec![], dbs: 1 };
    let setup = db.setup_sql();
    let do_setup = |w: &mut Worker| {
        for s in &setup {
            w.d.must(s);
        }
    };
    w.ensure_clean();
    do_setup(w);
    for (fi, f) in fams.iter().enumerate() {
        if w.d.dirty {
            w.reset();
            do_setup(w);
        }
        diff::apply_config(w, reference);
        let ref_out = w.d.q(f.sql);
        st.evals += 1;
        st.outcomes.insert(ref_out.class().to_string());
        let fq = fake_query(f);
        let mut record = |st: &mut DiffStats, c: &Config, class: String, expected: String, observed: String| {
            let mut steps: Vec<(usize, String)> = setup.iter().map(|s| (0usize, s.clone())).collect();
            for s in &c.sets {
                steps.push((0, s.clone()));
            }
            steps.push((0, f.sql.to_string()));
            st.fails.push(RawFail { term_idx: fi, class: format!("{}@{}", class, c.name), replay: Replay { check: check.into(), steps, expected, observed, note: format!("family={} db={}", f.name, db.describe()), ..Default::default() } });
        };
        if let Some(c) = outcome_fail_class(&ref_out) {
            record(&mut st, reference, c, "rows or error".into(), ref_out.brief());
            continue;
        }
        for c in others {
            if w.d.dirty {
                w.reset();
                do_setup(w);
            }
            diff::apply_config(w, c);
            let out = w.d.q(f.sql);
            st.evals += 1;
            if f.fold_error && tol == Tolerance::OneSidedRuntimeError && ref_out.is_error() != out.is_error() && (ref_out.is_error() || ref_out.is_rows()) && (out.is_error() || out.is_rows()) {
                st.permitted_asymmetry += 1;
                continue;
            }
            if let Some((class, detail)) = diff::compare(fq.as_ref(), &ref_out, &out, tol, &mut st) {
                record(&mut st, c, class, format!("same as under {}: {}", reference.name, ref_out.brief()), detail);
            }
        }
    }
    st
}

pub fn run(tier: Tier) -> i32 {
    let mut rep = Report::new("C02", tier, "exploration");
    let reference = cfg("opt-off", &["SET enable_optimizer TO false"]);
    let others = vec![cfg("opt-on", &["SET enable_optimizer TO true"])];
    let (depth, full, r, budget, rt, ru) = match tier {
        Tier::Quick => (2, false, 2, 30, 2, 1),
        Tier::Thorough => (2, true, 3, 100, 2, 2),
    };
    // part 1: the algebra terms
    let terms = alg::terms(depth, full);
    let results = par_run(terms.len(), Worker::new, |w, i| diff::diff_term("C02", w, i, &terms[i], r, budget, &reference, &others, Tolerance::OneSidedRuntimeError, &[0, 1]));
    let mut evals = 0u64;
    let mut nontriv = 0u64;
    let mut asym = 0u64;
    let mut botherr = 0u64;
    let mut outcomes = std::collections::BTreeSet::new();
    let mut fails = Vec::new();
    let mut pairs = 0u64;
    for s in results {
        evals += s.evals;
        nontriv += s.nontrivial;
        asym += s.permitted_asymmetry;
        botherr += s.both_error;
        pairs += s.dbs;
        outcomes.extend(s.outcomes);
        fails.extend(s.fails);
    }
    for (key, replay) in blame("C02", &terms, &fails) {
        rep.fail(key, replay);
    }
    // part 2: rewrite families over full databases
    let fams = rewrite_families();
    let mut dbs = full_dbs(rt, ru);
    if tier.is_thorough() {
        dbs.extend(full_dbs(1, 2));
    }
    let results = par_run(dbs.len(), Worker::new, |w, i| run_raw("C02", w, &dbs[i], &fams, &reference, &others, Tolerance::OneSidedRuntimeError));
    let mut fam_evals = 0u64;
    for s in results {
        fam_evals += s.evals;
        nontriv += s.nontrivial;
        asym += s.permitted_asymmetry;
        botherr += s.both_error;
        outcomes.extend(s.outcomes);
        for f in s.fails {
            rep.fail(format!("C02|{}|family:{}", f.class, fams[f.term_idx].name), f.replay);
        }
    }
    rep.cov("evaluations", json!(evals + fam_evals));
    rep.cov("distinct_nontrivial", json!(nontriv));
    rep.cov("rule", json!(format!("(a) every algebra term of depth <= {depth} x every database of its scope (<= {r} rows, budget {budget}) and (b) {} rewrite-forcing statements x all {} databases with <= ({rt},{ru}) full rows per table; each executed with enable_optimizer=false (reference) and true; non-trivial = both sides returned >= 1 row and agreed", fams.len(), dbs.len())));
    rep.cov("terms", json!(terms.len()));
    rep.cov("term_db_pairs", json!(pairs));
    rep.cov("rewrite_families", json!(fams.len()));
    rep.cov("family_databases", json!(dbs.len()));
    rep.cov("permitted_asymmetry", json!(asym));
    rep.cov("both_sides_error", json!(botherr));
    rep.cov("distinct_outcomes", json!(outcomes.into_iter().collect::<Vec<_>>()));
    rep.cov("exhaustive", json!(true));
    let mut sm: Vec<_> = samples(&terms).iter().map(|t| json!({"shape": t.shape, "sql": t.q.sql()})).collect();
    sm.extend(samples(&fams.iter().map(|f| json!({"family": f.name, "sql": f.sql})).collect::<Vec<_>>()));
    rep.cov("samples", json!(sm));
    let _ = Val::Null;
    rep.finish()
}
