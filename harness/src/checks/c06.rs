//! C06 - joins return exactly the defined pairs and unmatched rows.
//! join form x condition x key type x all pairs of bags with <= 3 rows x
//! configuration, against RM's nested-loop join with SQL NULL semantics.
use std::collections::BTreeSet;

use serde_json::json;

use super::rel::outcome_fail_class;
use crate::alg::bags;
use crate::drv::{Driver, Outcome};
use crate::infra::{Replay, Report, Tier, msg_template, par_run};
use crate::rm::*;
use crate::val::{Row, Val};

#[derive(Clone)]
struct KeyType {
    name: &'static str,
    sql: &'static str,
    /// two distinct non-null key literals (SQL) and whether `k + 1` is meaningful
    lits: [&'static str; 2],
    numeric: bool,
}

fn key_types(tier: Tier) -> Vec<KeyType> {
    let mut v = vec![
        KeyType { name: "int", sql: "INT", lits: ["1", "2"], numeric: true },
        KeyType { name: "text", sql: "TEXT", lits: ["'x'", "'long-string-13b'"], numeric: false },
    ];
    if !tier.is_thorough() {
        // quick: DATE keys with <= 1 row per side (`date_col IN (SELECT date_col ..)` once failed to plan at all)
        v.push(KeyType { name: "date", sql: "DATE", lits: ["CAST('2024-02-29' AS DATE)", "CAST('1970-01-01' AS DATE)"], numeric: false });
    }
    if tier.is_thorough() {
        v.extend([
            // typed literals: a VALUES list takes the types of its first row (1 would make the column INT)
            KeyType { name: "bigint", sql: "BIGINT", lits: ["CAST(1 AS BIGINT)", "CAST(5000000000 AS BIGINT)"], numeric: true },
            KeyType { name: "double-zero", sql: "DOUBLE", lits: ["CAST(0.0 AS DOUBLE)", "CAST('-0.0' AS DOUBLE)"], numeric: false },
            KeyType { name: "double", sql: "DOUBLE", lits: ["CAST(1.5 AS DOUBLE)", "CAST(2.5 AS DOUBLE)"], numeric: false },
            KeyType { name: "bool", sql: "BOOLEAN", lits: ["true", "false"], numeric: false },
            KeyType { name: "date", sql: "DATE", lits: ["CAST('2024-02-29' AS DATE)", "CAST('1970-01-01' AS DATE)"], numeric: false },
            KeyType { name: "decimal", sql: "DECIMAL(9,2)", lits: ["CAST('1.50' AS DECIMAL(9,2))", "CAST('2.25' AS DECIMAL(9,2))"], numeric: false },
            KeyType { name: "text-prefix", sql: "TEXT", lits: ["'shared-prefix-0123456789-a'", "'shared-prefix-0123456789-b'"], numeric: false },
        ]);
    }
    v
}

/// join forms as (shape, query over tables l(k,p) and r(k,q))
fn forms(kt: &KeyType, full: bool) -> Vec<(String, Query)> {
    let mut out = Vec::new();
    let lk = || qcol("l", "k");
    let rk = || qcol("r", "k");
    let lp = || qcol("l", "p");
    let rq = || qcol("r", "q");
    let mut conds: Vec<(&str, Option<E>)> = vec![
        ("eq", Some(bin(Op::Eq, lk(), rk()))),
        ("eq2", Some(bin(Op::And, bin(Op::Eq, lk(), rk()), bin(Op::Eq, lp(), rq())))),
        ("eqlt", Some(bin(Op::And, bin(Op::Eq, lk(), rk()), bin(Op::Lt, lp(), rq())))),
        ("lt", Some(bin(Op::Lt, lk(), rk()))),
        ("or", Some(bin(Op::Or, bin(Op::Eq, lk(), rk()), bin(Op::Eq, lp(), rq())))),
        // a comparison one of whose operands references both inputs (cannot be a join key, must still filter)
        ("sum-eq", Some(bin(Op::Eq, bin(Op::Add, lp(), rq()), E::Int(1)))),
        ("eq-and-sum", Some(bin(Op::And, bin(Op::Eq, lk(), rk()), bin(Op::Lt, bin(Op::Add, lp(), rq()), E::Int(2))))),
        // operands written right side first (the extractor flips them)
        ("eq-rev", Some(bin(Op::Eq, rk(), lk()))),
        ("lt-rev", Some(bin(Op::Gt, rk(), lk()))),
        ("notdistinct-rev", Some(bin(Op::NotDistinct, rk(), lk()))),
        ("eq-notdistinct", Some(bin(Op::NotDistinct, lk(), rk()))),
    ];
    if full {
        conds.push(("ne", Some(bin(Op::Ne, lk(), rk()))));
        conds.push(("ponly", Some(bin(Op::Eq, lp(), rq()))));
    }
    if kt.numeric {
        conds.push(("eqexpr", Some(bin(Op::Eq, bin(Op::Add, lk(), E::Int(1)), rk()))));
    }
    let items = vec![Item::Expr(lk(), Some("lk".into())), Item::Expr(lp(), None), Item::Expr(rk(), Some("rk".into())), Item::Expr(rq(), None)];
    let litems = vec![Item::Expr(lk(), Some("lk".into())), Item::Expr(lp(), None)];
    let sel = |items: Vec<Item>, from: From| Query::of(Select { distinct: false, items, from: Some(from), where_: None, group_by: GroupBy::None, having: None });
    let jf = |kind: JoinKind, on: Option<E>, using: Vec<String>, natural: bool, comma: bool| From::Join { kind, l: Box::new(table("l")), r: Box::new(table("r")), on, using, natural, comma };
    for (cn, c) in &conds {
        for (kn, kind) in [("inner", JoinKind::Inner), ("left", JoinKind::Left), ("right", JoinKind::Right)] {
            out.push((format!("{kn}:{cn}"), sel(items.clone(), jf(kind, c.clone(), vec![], false, false))));
        }
        out.push((format!("semi:{cn}"), sel(litems.clone(), jf(JoinKind::Semi, c.clone(), vec![], false, false))));
        // comma join + WHERE
        let mut q = sel(items.clone(), jf(JoinKind::Cross, None, vec![], false, true));
        if let Body::Select(s) = &mut q.body {
            s.where_ = c.clone();
        }
        out.push((format!("comma-where:{cn}"), q));
        // EXISTS / NOT EXISTS with the condition as correlation
        let sub = {
            let mut s = Select { distinct: false, items: vec![Item::Expr(E::Int(1), None)], from: Some(table("r")), where_: c.clone(), group_by: GroupBy::None, having: None };
            s.where_ = c.clone();
            Query::of(s)
        };
        for neg in [false, true] {
            let mut q = sel(litems.clone(), table("l"));
            if let Body::Select(s) = &mut q.body {
                s.where_ = Some(E::Exists(Box::new(sub.clone()), neg));
            }
            out.push((format!("{}exists:{cn}", if neg { "not" } else { "" }), q));
        }
        // LATERAL
        let lat = {
            let s = Select { distinct: false, items: vec![Item::Expr(rk(), Some("rk".into())), Item::Expr(rq(), None)], from: Some(table("r")), where_: c.clone(), group_by: GroupBy::None, having: None };
            Query::of(s)
        };
        let f = From::Join { kind: JoinKind::Cross, l: Box::new(table("l")), r: Box::new(From::Sub { q: Box::new(lat), alias: "s".into(), lateral: true }), on: None, using: vec![], natural: false, comma: true };
        out.push((format!("lateral:{cn}"), sel(vec![Item::Expr(lk(), Some("lk".into())), Item::Expr(lp(), None), Item::Expr(qcol("s", "rk"), None), Item::Expr(qcol("s", "q"), None)], f)));
        // scalar subquery in the select list: count and max over the matching rows
        let cnt = Query::of(Select { distinct: false, items: vec![Item::Expr(E::Agg { f: AggF::Max, arg: Some(Box::new(rq())), distinct: false, filter: None }, None)], from: Some(table("r")), where_: c.clone(), group_by: GroupBy::None, having: None });
        out.push((format!("scalar-max:{cn}"), sel(vec![Item::Expr(lk(), Some("lk".into())), Item::Expr(lp(), None), Item::Expr(E::Scalar(Box::new(cnt)), Some("m".into()))], table("l"))));
    }
    // cross join
    out.push(("cross".into(), sel(items.clone(), jf(JoinKind::Cross, None, vec![], false, false))));
    out.push(("comma".into(), sel(items.clone(), jf(JoinKind::Cross, None, vec![], false, true))));
    // USING / NATURAL (both tables have column k)
    out.push(("inner:using".into(), sel(vec![Item::Star], jf(JoinKind::Inner, None, vec!["k".into()], false, false))));
    out.push(("left:using".into(), sel(vec![Item::Star], jf(JoinKind::Left, None, vec!["k".into()], false, false))));
    out.push(("inner:natural".into(), sel(vec![Item::Star], jf(JoinKind::Inner, None, vec![], true, false))));
    // IN / NOT IN / ANY / ALL on the key
    let one = Query::of(Select { distinct: false, items: vec![Item::Expr(rk(), None)], from: Some(table("r")), where_: None, group_by: GroupBy::None, having: None });
    let preds: Vec<(&str, E)> = vec![
        ("in", E::InQ(Box::new(lk()), Box::new(one.clone()), false)),
        ("notin", E::InQ(Box::new(lk()), Box::new(one.clone()), true)),
        ("eqany", E::Quant(Op::Eq, false, Box::new(lk()), Box::new(one.clone()))),
        ("neall", E::Quant(Op::Ne, true, Box::new(lk()), Box::new(one.clone()))),
        ("ltany", E::Quant(Op::Lt, false, Box::new(lk()), Box::new(one.clone()))),
        ("geall", E::Quant(Op::Ge, true, Box::new(lk()), Box::new(one.clone()))),
    ];
    for (n, p) in preds {
        let mut q = sel(litems.clone(), table("l"));
        if let Body::Select(s) = &mut q.body {
            s.where_ = Some(p.clone());
        }
        out.push((format!("subq:{n}"), q));
        // mark join: the predicate OR'ed with something else
        let mut q = sel(litems.clone(), table("l"));
        if let Body::Select(s) = &mut q.body {
            s.where_ = Some(bin(Op::Or, p, bin(Op::Eq, lp(), E::Int(0))));
        }
        out.push((format!("mark:{n}"), q));
    }
    out
}

struct Side {
    rows_sql: Vec<String>,
    rows: Vec<Row>,
}

/// inline VALUES rendering of a side (honours batch_size, unlike a TEMP-table scan)
fn values_from(kt: &KeyType, side: &Side, alias: &str, payload: &str) -> String {
    if side.rows_sql.is_empty() {
        return format!("(SELECT k, {payload} FROM (VALUES (CAST(NULL AS {}), 0)) v0(k, {payload}) WHERE false) AS {alias}", kt.sql);
    }
    let mut rows = side.rows_sql.clone();
    // type the first row
    if let Some(first) = rows.first_mut() {
        if let Some((k, rest)) = first.trim_start_matches('(').split_once(", ") {
            if k.starts_with("CAST(NULL") || kt.sql == "TEXT" || kt.sql == "BOOLEAN" {
                *first = format!("({k}, {rest}");
            } else {
                // (an identity cast such as CAST(CAST('..' AS DATE) AS DATE) is rejected by the engine: typed literals stay as they are)
                if !k.starts_with("CAST(") {
                    *first = format!("(CAST({k} AS {}), {rest}", kt.sql);
                }
            }
        }
    }
    format!("(VALUES {}) AS {alias}(k, {payload})", rows.join(", "))
}

/// Replace the standalone table identifiers `l` / `r` of a rendered statement by other FROM items.
fn substitute_sources(sql: &str, lsrc: &str, rsrc: &str) -> String {
    let b = sql.as_bytes();
    let mut out = String::with_capacity(sql.len() + lsrc.len() + rsrc.len());
    let is_id = |c: u8| c.is_ascii_alphanumeric() || c == b'_' || c == b'.' || c == b'"' || c == b'\'';
    let mut i = 0;
    let mut in_str = false;
    while i < b.len() {
        let c = b[i];
        if c == b'\'' {
            in_str = !in_str;
        }
        if !in_str && (c == b'l' || c == b'r') {
            let prev_ok = i == 0 || !is_id(b[i - 1]);
            let next_ok = i + 1 >= b.len() || !is_id(b[i + 1]);
            if prev_ok && next_ok {
                out.push_str(if c == b'l' { lsrc } else { rsrc });
                i += 1;
                continue;
            }
        }
        out.push(c as char);
        i += 1;
    }
    out
}

/// all bags of <= r rows over keys {NULL,k1,k2}; the payload is the row position
fn sides(kt: &KeyType, r: usize, probe: &mut Driver) -> Vec<Side> {
    // learn the engine values of the key literals once
    let mut keyvals: Vec<(String, Val)> = vec![(format!("CAST(NULL AS {})", kt.sql), Val::Null)];
    for l in kt.lits {
        let v = match probe.q(&if l.starts_with("CAST(") { format!("SELECT {l}") } else { format!("SELECT CAST({l} AS {})", kt.sql) }) {
            Outcome::Rows(r) if r.rows.len() == 1 => r.rows[0][0].clone(),
            _ => match probe.q(&format!("SELECT {l}")) {
                Outcome::Rows(r) if r.rows.len() == 1 => r.rows[0][0].clone(),
                o => panic!("cannot evaluate key literal {l}: {}", o.brief()),
            },
        };
        keyvals.push((l.to_string(), v));
    }
    bags(3, r)
        .into_iter()
        .map(|b| {
            let mut rows_sql = Vec::new();
            let mut rows = Vec::new();
            for (i, ki) in b.iter().enumerate() {
                rows_sql.push(format!("({}, {})", keyvals[*ki].0, i));
                rows.push(vec![keyvals[*ki].1.clone(), Val::Int(i as i128)]);
            }
            Side { rows_sql, rows }
        })
        .collect()
}

#[derive(Default)]
struct Res {
    evals: u64,
    nontrivial: u64,
    unsupported: u64,
    outcomes: BTreeSet<String>,
    fails: Vec<(String, Replay)>,
}

fn configs(tier: Tier) -> Vec<(String, Vec<String>)> {
    let mut v = Vec::new();
    // "large" batch = 16: the tables have <= 3 rows, and small buffers keep the run fast
    let (ps, bs): (&[usize], &[usize]) = if tier.is_thorough() { (&[1, 2, 3], &[1, 2, 16, 2048]) } else { (&[1, 3], &[2, 16]) };
    for hj in [true, false] {
        for &p in ps {
            for &b in bs {
                v.push((format!("P{p}B{b}HJ{}", if hj { "on" } else { "off" }), vec![format!("SET partitions TO {p}"), format!("SET batch_size TO {b}"), format!("SET enable_hash_joins TO {hj}")]));
            }
        }
    }
    v
}

fn run_db(kt: &KeyType, l: &Side, r: &Side, fs: &[(String, Query)], cfgs: &[(String, Vec<String>)], d: &mut Driver, res: &mut Res) {
    let mut db = Db::default();
    db.add_table("l", &[("k", Ty::Unknown), ("p", Ty::Int32)], l.rows.clone());
    db.add_table("r", &[("k", Ty::Unknown), ("q", Ty::Int32)], r.rows.clone());
    let mut setup = vec!["DROP TABLE IF EXISTS l".to_string(), "DROP TABLE IF EXISTS r".to_string(), format!("CREATE TEMP TABLE l (k {}, p INT)", kt.sql), format!("CREATE TEMP TABLE r (k {}, q INT)", kt.sql)];
    if !l.rows_sql.is_empty() {
        setup.push(format!("INSERT INTO l VALUES {}", l.rows_sql.join(", ")));
    }
    if !r.rows_sql.is_empty() {
        setup.push(format!("INSERT INTO r VALUES {}", r.rows_sql.join(", ")));
    }
    let mut ready = false;
    let mut seen: BTreeSet<String> = BTreeSet::new();
    for (cname, sets) in cfgs {
        for (shape, q) in fs {
            if d.dirty {
                *d = Driver::new();
                ready = false;
            }
            if !ready {
                for s in &setup {
                    d.must(s);
                }
                ready = true;
            }
            for s in sets {
                d.must(s);
            }
            // TEMP-table scans ignore batch_size (known finding under C03): small batch sizes use inline VALUES
            let small_b = cname.contains("B1H") || cname.contains("B2H");
            let sql = if small_b { substitute_sources(&q.sql(), &values_from(kt, l, "l", "p"), &values_from(kt, r, "r", "q")) } else { q.sql() };
            let out = d.q(&sql);
            res.evals += 1;
            let mut fail: Option<(String, String, String)> = None;
            match &out {
                Outcome::Rows(rows) => match check_result(&db, q, &rows.names, &rows.types, &rows.rows) {
                    Ok(None) => {
                        if !rows.rows.is_empty() {
                            res.nontrivial += 1;
                        }
                        res.outcomes.insert(format!("rows:{}", rows.rows.len().min(6)));
                    }
                    Ok(Some(m)) => fail = Some((m.class().to_string(), "RM nested-loop join".into(), m.text().to_string())),
                    Err(RmErr::Runtime(e)) => fail = Some(("missing-error".into(), e, out.brief())),
                    Err(RmErr::Unsupported(_)) => res.unsupported += 1,
                },
                Outcome::Error { msg, .. } => match eval_query(&db, q) {
                    Err(RmErr::Runtime(_)) => {
                        res.outcomes.insert("error".into());
                    }
                    Err(RmErr::Unsupported(_)) => res.unsupported += 1,
                    Ok(_) => {
                        if out.not_implemented() {
                            res.outcomes.insert("not-implemented".into());
                        } else {
                            fail = Some((format!("unexpected-error:{}", msg_template(msg)), "rows".into(), msg.clone()));
                        }
                    }
                },
                o => fail = Some((outcome_fail_class(o).unwrap(), "rows".into(), o.brief())),
            }
            if let Some((class, expected, observed)) = fail {
                let key = format!("C06|{class}|{shape}");
                if seen.insert(format!("{key}/{cname}")) {
                    let mut steps: Vec<(usize, String)> = setup.iter().map(|s| (0usize, s.clone())).collect();
                    steps.extend(sets.iter().map(|s| (0usize, s.clone())));
                    steps.push((0, sql.clone()));
                    res.fails.push((key, Replay { check: "C06".into(), steps, expected, observed, note: format!("key type {} config {cname} l={} r={}", kt.name, crate::val::fmt_rows(&l.rows, 5), crate::val::fmt_rows(&r.rows, 5)), ..Default::default() }));
                }
            }
        }
    }
}

/// many-to-many and capacity families: generated tables, hash join vs nested loop vs RM counts
fn big_families(d: &mut Driver, tier: Tier, res: &mut Res) {
    let sizes: Vec<(usize, usize, usize)> = if tier.is_thorough() { vec![(3, 4, 1), (7, 7, 1), (64, 65, 1), (180, 180, 180), (359, 10, 359), (600, 600, 300), (2049, 3, 5)] } else { vec![(3, 4, 1), (7, 7, 1), (180, 180, 180), (359, 10, 359)] };
    // (rows left, rows right, distinct keys): key = g % distinct, NULL every 7th
    for (n, m, dk) in sizes {
        for hj in [true, false] {
            for (p, b) in [(1usize, 2048usize), (3, 2048), (2, 3)] {
                if d.dirty {
                    *d = Driver::new();
                }
                let sets = vec![format!("SET partitions TO {p}"), format!("SET batch_size TO {b}"), format!("SET enable_hash_joins TO {hj}")];
                for s in &sets {
                    d.must(s);
                }
                let l = format!("(SELECT CASE WHEN g % 7 <> 0 THEN g % {dk} END AS k, g AS p FROM generate_series(1, {n}) s(g)) l");
                let r = format!("(SELECT CASE WHEN g % 7 <> 0 THEN g % {dk} END AS k, g AS q FROM generate_series(1, {m}) s(g)) r");
                // expected counts computed directly
                let keys = |cnt: usize| -> Vec<Option<usize>> { (1..=cnt).map(|g| if g % 7 == 0 { None } else { Some(g % dk) }).collect() };
                let (lk, rk) = (keys(n), keys(m));
                let mut inner = 0u64;
                let mut left_unmatched = 0u64;
                let mut sum_pq: i128 = 0;
                for (i, a) in lk.iter().enumerate() {
                    let mut matched = false;
                    for (j, bb) in rk.iter().enumerate() {
                        if a.is_some() && a == bb {
                            inner += 1;
                            matched = true;
                            sum_pq += (i as i128 + 1) * 1000 + (j as i128 + 1);
                        }
                    }
                    if !matched {
                        left_unmatched += 1;
                    }
                }
                let right_unmatched = rk.iter().filter(|b| b.is_none() || !lk.iter().any(|a| a == *b && a.is_some())).count() as u64;
                let cases: Vec<(&str, String, Vec<i128>)> = vec![
                    ("big:inner", format!("SELECT count(*), coalesce(sum(l.p * 1000 + r.q), CAST(0 AS BIGINT)) FROM {l} JOIN {r} ON l.k = r.k"), vec![inner as i128, sum_pq]),
                    ("big:left", format!("SELECT count(*), count(r.q) FROM {l} LEFT JOIN {r} ON l.k = r.k"), vec![(inner + left_unmatched) as i128, inner as i128]),
                    ("big:right", format!("SELECT count(*), count(l.p) FROM {l} RIGHT JOIN {r} ON l.k = r.k"), vec![(inner + right_unmatched) as i128, inner as i128]),
                    ("big:semi", format!("SELECT count(*) FROM {l} WHERE EXISTS (SELECT 1 FROM {r} WHERE r.k = l.k)"), vec![(n as u64 - left_unmatched) as i128]),
                    ("big:anti", format!("SELECT count(*) FROM {l} WHERE NOT EXISTS (SELECT 1 FROM {r} WHERE r.k = l.k)"), vec![left_unmatched as i128]),
                ];
                for (shape, sql, want) in cases {
                    if d.dirty {
                        *d = Driver::new();
                        for s in &sets {
                            d.must(s);
                        }
                    }
                    let o = d.q(&sql);
                    res.evals += 1;
                    let key_cfg = format!("n{n}m{m}k{dk}P{p}B{b}HJ{hj}");
                    match &o {
                        Outcome::Rows(r) if r.rows.len() == 1 => {
                            let got: Vec<i128> = r.rows[0].iter().map(|v| v.as_int().unwrap_or(i128::MIN)).collect();
                            if got != want {
                                let mut steps: Vec<(usize, String)> = sets.iter().map(|s| (0usize, s.clone())).collect();
                                steps.push((0, sql.clone()));
                                res.fails.push((format!("C06|wrong-count|{shape}"), Replay { check: "C06".into(), steps, expected: format!("{want:?}"), observed: format!("{got:?}"), note: key_cfg, ..Default::default() }));
                            } else {
                                res.nontrivial += 1;
                            }
                        }
                        o => {
                            let class = outcome_fail_class(o).unwrap_or_else(|| "unexpected-error".into());
                            let mut steps: Vec<(usize, String)> = sets.iter().map(|s| (0usize, s.clone())).collect();
                            steps.push((0, sql.clone()));
                            res.fails.push((format!("C06|{class}|{shape}"), Replay { check: "C06".into(), steps, expected: format!("{want:?}"), observed: o.brief(), note: key_cfg, ..Default::default() }));
                        }
                    }
                }
            }
        }
    }
}

pub fn run(tier: Tier) -> i32 {
    let mut rep = Report::new("C06", tier, "exploration");
    let kts = key_types(tier);
    let r = 3;
    let cfgs = configs(tier);
    let full = tier.is_thorough();
    let mut probe = Driver::new();
    let mut work: Vec<(usize, usize, usize)> = Vec::new();
    let mut all_sides: Vec<Vec<Side>> = Vec::new();
    for (ki, kt) in kts.iter().enumerate() {
        let s = sides(kt, r, &mut probe);
        for li in 0..s.len() {
            for ri in 0..s.len() {
                // quick: all pairs for int keys, pairs with <= 2 rows per side for the others
                if tier == Tier::Quick && ki > 0 && (s[li].rows.len() > 2 || s[ri].rows.len() > 2) {
                    continue;
                }
                if tier == Tier::Quick && ki > 1 && (s[li].rows.len() > 1 || s[ri].rows.len() > 1) {
                    continue;
                }
                work.push((ki, li, ri));
            }
        }
        all_sides.push(s);
    }
    let nwork = work.len();
    let results = par_run(nwork + 1, Driver::new, |d, i| {
        let mut res = Res::default();
        if i == nwork {
            big_families(d, tier, &mut res);
        } else {
            let (ki, li, ri) = work[i];
            let fs = forms(&kts[ki], full);
            run_db(&kts[ki], &all_sides[ki][li], &all_sides[ki][ri], &fs, &cfgs, d, &mut res);
        }
        res
    });
    let (mut evals, mut nontriv, mut unsup) = (0u64, 0u64, 0u64);
    let mut outcomes = BTreeSet::new();
    for rr in results {
        evals += rr.evals;
        nontriv += rr.nontrivial;
        unsup += rr.unsupported;
        outcomes.extend(rr.outcomes);
        for (k, rp) in rr.fails {
            rep.fail(k, rp);
        }
    }
    let nforms = forms(&kts[0], full).len();
    rep.cov("evaluations", json!(evals));
    rep.cov("distinct_nontrivial", json!(nontriv));
    rep.cov("rule", json!(format!("{} join forms (cross, inner, left, right, semi, lateral, [NOT] EXISTS, [NOT] IN, ANY/ALL, mark, scalar subquery, USING, NATURAL x up to 9 condition shapes) x {} key types x all pairs of bags with <= {r} rows over keys {{NULL,k1,k2}} with a distinguishing payload x {} configurations (partitions, batch_size, hash joins on/off), each compared with RM's nested-loop join; plus many-to-many / hash-directory-capacity families compared by exact counts and checksums; non-trivial = >= 1 row returned and equal to RM", nforms, kts.len(), cfgs.len())));
    rep.cov("database_pairs", json!(nwork));
    rep.cov("rm_unsupported_skipped", json!(unsup));
    rep.cov("distinct_outcomes", json!(outcomes.into_iter().collect::<Vec<_>>()));
    rep.cov("exhaustive", json!(true));
    rep.cov("samples", json!(forms(&kts[0], full).iter().take(3).map(|(s, q)| json!({"shape": s, "sql": q.sql()})).collect::<Vec<_>>()));
    rep.finish()
}
