//! C15 - every statement text yields a result or an error; the session survives.
use std::collections::BTreeSet;

use serde_json::json;

use super::rel::outcome_fail_class;
use crate::drv::{Driver, Outcome};
use crate::fnreg;
use crate::infra::{Replay, Report, Tier, par_run};
use crate::val::Val;

const TOKENS: [&str; 28] = ["SELECT", "FROM", "WHERE", "GROUP", "BY", "ORDER", "LIMIT", "JOIN", "ON", "AS", "WITH", "VALUES", "UNION", "CASE", "WHEN", "THEN", "END", "(", ")", ",", "*", ".", "=", "1", "'s'", "t", "a", "NULL"];

const SETUP: [&str; 3] = ["CREATE TEMP TABLE t (a INT, b TEXT)", "INSERT INTO t VALUES (1, 'x'), (2, NULL), (NULL, 'y')", "CREATE TEMP VIEW vt AS SELECT a FROM t"];

fn corpus() -> Vec<&'static str> {
    vec![
        "SELECT 1",
        "SELECT a, b FROM t WHERE a = 1 ORDER BY a LIMIT 1",
        "SELECT t.a, count(*) FROM t GROUP BY t.a HAVING count(*) > 0",
        "SELECT a FROM t UNION ALL SELECT a FROM t",
        "WITH c AS (SELECT a FROM t) SELECT * FROM c",
        "WITH c AS MATERIALIZED (SELECT a FROM t) SELECT * FROM c, c AS d",
        "SELECT CASE WHEN a = 1 THEN 'one' ELSE b END FROM t",
        "SELECT * FROM t JOIN t AS u ON t.a = u.a",
        "SELECT * FROM t LEFT JOIN t AS u USING (a)",
        "SELECT a FROM t WHERE a IN (SELECT a FROM t)",
        "SELECT a, (SELECT max(a) FROM t) FROM t",
        "SELECT * FROM (VALUES (1, 'a'), (2, 'b')) v(x, y)",
        "SELECT * FROM generate_series(1, 3)",
        "SELECT a::TEXT, CAST(b AS TEXT) FROM t",
        "SELECT a BETWEEN 1 AND 2, a IS NULL, b LIKE 'x%' FROM t",
        "SELECT DISTINCT a FROM t ORDER BY a DESC NULLS LAST",
        "SELECT a FROM t LIMIT 1 OFFSET 1",
        "SELECT sum(a) FILTER (WHERE a > 1), count(DISTINCT b) FROM t",
        "SELECT a, b, grouping(a) FROM t GROUP BY ROLLUP (a, b)",
        "SELECT [1, 2, 3], {'k': 1}",
        "SELECT * FROM t, LATERAL (SELECT t.a + 1) s",
        "DESCRIBE SELECT a FROM t",
        "DESCRIBE t",
        "EXPLAIN SELECT a FROM t WHERE a = 1",
        "SHOW partitions",
        "SET partitions TO 2",
        "RESET partitions",
        "CREATE TEMP TABLE x1 (a INT)",
        "CREATE TEMP TABLE x2 AS SELECT a FROM t",
        "CREATE TEMP VIEW x3 AS SELECT a FROM t",
        "CREATE SCHEMA x4",
        "INSERT INTO t VALUES (9, 'z')",
        "INSERT INTO t SELECT a, b FROM t WHERE a = 99",
        "DROP TABLE IF EXISTS nosuch",
        "SELECT * FROM vt",
        "SELECT \"a\", t.\"b\" FROM \"t\"",
        "SELECT -a, +a, a % 2, a / 1, a * 2 - 1 FROM t",
        "SELECT 'it''s', E'x', 1.5e0, .5, 1.",
        "SELECT a FROM t WHERE NOT (a = 1 OR b IS NOT NULL) AND a <> 2",
        "SELECT EXISTS (SELECT 1 FROM t), a = ANY (SELECT a FROM t) FROM t",
        "SELECT * FROM t AS t1 CROSS JOIN t AS t2",
        "SELECT * FROM read_csv('nofile.csv')",
        "SELECT * FROM read_parquet('nofile.parquet')",
        "SELECT upper(b), length(b), substring(b, 1, 1) FROM t",
        "SELECT INTERVAL '1 day', DATE '2024-01-01'",
        "SELECT a FROM t INTERSECT SELECT a FROM t",
        "SELECT a FROM t EXCEPT SELECT a FROM t",
        "SELECT * FROM t FULL JOIN t u ON t.a = u.a",
        "WITH RECURSIVE r AS (SELECT 1) SELECT * FROM r",
        "SELECT row_number() OVER (ORDER BY a) FROM t",
        "SELECT DISTINCT ON (a) a, b FROM t",
        "ATTACH 'x' AS y",
        "SELECT a FROM t; SELECT 2",
        "",
        ";",
    ]
}

#[derive(Default)]
struct Res {
    evals: u64,
    nontrivial: u64,
    rows: u64,
    errors: u64,
    outcomes: BTreeSet<String>,
    fails: Vec<(String, Replay)>,
}

struct W {
    d: Driver,
    expected_count: i128,
}

impl W {
    fn new() -> W {
        let mut d = Driver::new();
        // termination is judged by the wall-clock watchdog here, not by the scheduler's step horizon
        d.horizon = 50_000_000;
        for s in SETUP {
            d.must(s);
        }
        W { d, expected_count: 3 }
    }
    fn fresh(&mut self) {
        *self = W::new();
    }
}

/// returns false when the statement hung or killed the process
fn run_stmt(w: &mut W, sql: &str, family: &str, res: &mut Res, probe: bool) -> bool {
    if w.d.dirty {
        w.fresh();
    }
    let o = w.d.q(sql);
    res.evals += 1;
    match &o {
        Outcome::Rows(_) => res.rows += 1,
        Outcome::Error { .. } => res.errors += 1,
        o2 => {
            let class = outcome_fail_class(o2).unwrap();
            let mut steps: Vec<(usize, String)> = SETUP.iter().map(|s| (0usize, s.to_string())).collect();
            steps.push((0, sql.to_string()));
            res.fails.push((format!("C15|{class}|{family}"), Replay { check: "C15".into(), steps, expected: "a result or an error".into(), observed: o2.brief(), note: family.to_string(), ..Default::default() }));
            return !matches!(o2, Outcome::Hang { .. } | Outcome::Abort { .. });
        }
    }
    if probe {
        // the same session keeps answering; after an error nothing changed
        let before = w.expected_count;
        let p = w.d.q("SELECT count(*) FROM t");
        res.evals += 1;
        let cnt = match &p {
            Outcome::Rows(r) => r.rows.first().and_then(|x| x.first()).and_then(|v| v.as_int()),
            _ => None,
        };
        match (o.is_error(), cnt) {
            (true, Some(c)) if c == before => res.nontrivial += 1,
            (false, Some(c)) => {
                // a successful statement may have changed t (INSERT / DROP / CREATE): follow it
                w.expected_count = c;
                res.nontrivial += 1;
            }
            (true, other) => {
                // the statement failed but the table changed, or the session stopped answering
                let t_dropped = matches!(&p, Outcome::Error { .. });
                let mut steps: Vec<(usize, String)> = SETUP.iter().map(|s| (0usize, s.to_string())).collect();
                steps.push((0, sql.to_string()));
                steps.push((0, "SELECT count(*) FROM t".into()));
                res.fails.push((format!("C15|{}|{family}", if t_dropped { "session-broken-after-error" } else { "failed-statement-changed-state" }), Replay { check: "C15".into(), steps, expected: format!("count(*) = {before} after the failed statement"), observed: format!("{other:?} / {}", p.brief()), note: family.to_string(), ..Default::default() }));
                w.fresh();
            }
            (false, None) => {
                // t was dropped / replaced by a successful statement: rebuild for the next case
                w.fresh();
            }
        }
    }
    true
}

/// all token sequences of length 1..=n
fn token_sequences(w: &mut W, first: usize, maxlen: usize, res: &mut Res) {
    // sequences starting with TOKENS[first]
    let mut idx = vec![first];
    loop {
        let sql: String = idx.iter().map(|&i| TOKENS[i]).collect::<Vec<_>>().join(" ");
        run_stmt(w, &sql, "token-sequence", res, false);
        // next sequence in length-lexicographic DFS order
        if idx.len() < maxlen {
            idx.push(0);
            continue;
        }
        loop {
            if idx.len() == 1 {
                return;
            }
            let last = idx.len() - 1;
            if idx[last] + 1 < TOKENS.len() {
                idx[last] += 1;
                break;
            }
            idx.pop();
        }
    }
}

fn tokenize(s: &str) -> Vec<String> {
    // coarse tokenisation on whitespace and punctuation, keeping string literals together
    let mut out = Vec::new();
    let mut cur = String::new();
    let mut in_str = false;
    for c in s.chars() {
        if in_str {
            cur.push(c);
            if c == '\'' {
                in_str = false;
                out.push(std::mem::take(&mut cur));
            }
            continue;
        }
        if c == '\'' {
            if !cur.is_empty() {
                out.push(std::mem::take(&mut cur));
            }
            cur.push(c);
            in_str = true;
        } else if c.is_whitespace() {
            if !cur.is_empty() {
                out.push(std::mem::take(&mut cur));
            }
        } else if "(),.*=<>;+-/%[]{}:".contains(c) {
            if !cur.is_empty() {
                out.push(std::mem::take(&mut cur));
            }
            out.push(c.to_string());
        } else {
            cur.push(c);
        }
    }
    if !cur.is_empty() {
        out.push(cur);
    }
    out
}

fn mutations(w: &mut W, stmt: &str, res: &mut Res, bytes: bool) {
    let toks = tokenize(stmt);
    let join = |t: &[String]| t.join(" ");
    run_stmt(w, stmt, "corpus", res, true);
    for i in 0..toks.len() {
        // delete
        let mut t = toks.clone();
        t.remove(i);
        run_stmt(w, &join(&t), "token-mutation:delete", res, true);
        // duplicate
        let mut t = toks.clone();
        t.insert(i, toks[i].clone());
        run_stmt(w, &join(&t), "token-mutation:duplicate", res, true);
        // swap with neighbour
        if i + 1 < toks.len() {
            let mut t = toks.clone();
            t.swap(i, i + 1);
            run_stmt(w, &join(&t), "token-mutation:swap", res, true);
        }
        // replace by every alphabet token
        for tk in TOKENS {
            let mut t = toks.clone();
            t[i] = tk.to_string();
            run_stmt(w, &join(&t), "token-mutation:replace", res, true);
        }
    }
    if bytes {
        let b = stmt.as_bytes();
        for i in 0..b.len() {
            for x in [0x00u8, 0x22, 0x27, 0x28, 0x29, 0x2D, 0x3B, 0x5C, 0x80, 0xC3, 0xF0, 0xFF] {
                let mut m = b.to_vec();
                m[i] = x;
                // the API takes &str: invalid UTF-8 is represented by its lossy decoding and by the raw
                // bytes reinterpreted as Latin-1, both submitted
                let lossy = String::from_utf8_lossy(&m).to_string();
                run_stmt(w, &lossy, "byte-mutation", res, false);
            }
        }
    }
}

/// depth sweeps on a thread with the stack size of a process main thread
fn depth_sweeps(res: &mut Res, max_pow: u32) {
    let families: Vec<(&str, Box<dyn Fn(usize) -> String + Send>)> = vec![
        ("parens", Box::new(|n| format!("SELECT {}1{}", "(".repeat(n), ")".repeat(n)))),
        ("subqueries", Box::new(|n| format!("SELECT * FROM {}(SELECT 1){}", "(SELECT * FROM ".repeat(n), ")".repeat(n)).replace(")(", ") x (").replace("))", ") y)"))),
        ("case", Box::new(|n| format!("SELECT {}1{}", "CASE WHEN true THEN ".repeat(n), " END".repeat(n)))),
        ("not", Box::new(|n| format!("SELECT {}true", "NOT ".repeat(n)))),
        ("unary-minus", Box::new(|n| format!("SELECT {}1", "- ".repeat(n)))),
        ("binary-chain", Box::new(|n| format!("SELECT 1{}", " + 1".repeat(n)))),
        ("and-chain", Box::new(|n| format!("SELECT a FROM t WHERE a = 0{}", " AND a = 0".repeat(n)))),
        ("joins", Box::new(|n| format!("SELECT count(*) FROM t t0{}", (1..=n).map(|i| format!(" JOIN t t{i} ON t{i}.a = t0.a")).collect::<String>()))),
        ("cte-chain", Box::new(|n| format!("WITH c0 AS (SELECT 1 AS x){} SELECT * FROM c{n}", (1..=n).map(|i| format!(", c{i} AS (SELECT x FROM c{})", i - 1)).collect::<String>()))),
        ("union-chain", Box::new(|n| format!("SELECT 1{}", " UNION ALL SELECT 1".repeat(n)))),
        ("select-list", Box::new(|n| format!("SELECT {}", vec!["1"; n.max(1)].join(", ")))),
        ("in-list", Box::new(|n| format!("SELECT 1 IN ({})", vec!["2"; n.max(1)].join(", ")))),
        ("values-rows", Box::new(|n| format!("SELECT count(*) FROM (VALUES {}) v(x)", vec!["(1)"; n.max(1)].join(", ")))),
        ("long-string", Box::new(|n| format!("SELECT length('{}')", "x".repeat(n * 64)))),
        ("long-ident", Box::new(|n| format!("SELECT 1 AS {}", "x".repeat(n * 16)))),
        ("nested-func", Box::new(|n| format!("SELECT {}1{}", "abs(".repeat(n), ")".repeat(n)))),
        ("array-nest", Box::new(|n| format!("SELECT {}1{}", "[".repeat(n), "]".repeat(n)))),
    ];
    let out = std::thread::Builder::new()
        .stack_size(8 << 20)
        .spawn(move || {
            crate::drv::set_quiet(true);
            let mut local = Res::default();
            let mut w = W::new();
            for (name, f) in families {
                let mut reached = 0usize;
                for k in 0..=max_pow {
                    let n = 1usize << k;
                    let sql = f(n);
                    let before = local.fails.len();
                    run_stmt(&mut w, &sql, &format!("depth:{name}"), &mut local, false);
                    if local.fails.len() > before {
                        // stop this family at the first non rows|error outcome; shorten the stored statement
                        if let Some(last) = local.fails.last_mut() {
                            // whether the first failure of a family shows as a wall-limit hang or as a stack
                            // overflow depends on timing: one class for both
                            last.0 = last.0.replace("C15|hang|", "C15|depth-limit|").replace("C15|abort|", "C15|depth-limit|");
                            last.1.observed = format!("{} [n = {n}]", last.1.observed);
                            last.1.note = format!("depth family {name}, n = {n} (reached n = {reached} cleanly)");
                            if let Some(st) = last.1.steps.last_mut() {
                                if st.1.len() > 4000 {
                                    st.1 = format!("{} ... [{} bytes]", &st.1[..300], st.1.len());
                                }
                            }
                        }
                        break;
                    }
                    reached = n;
                }
                local.outcomes.insert(format!("depth:{name}:clean-up-to-{reached}"));
            }
            local
        })
        .unwrap()
        .join();
    match out {
        Ok(l) => {
            res.evals += l.evals;
            res.rows += l.rows;
            res.errors += l.errors;
            res.nontrivial += l.nontrivial;
            res.outcomes.extend(l.outcomes);
            res.fails.extend(l.fails);
        }
        Err(_) => res.fails.push(("C15|harness-thread-died|depth".into(), Replay::default())),
    }
}

/// every scalar function name applied to every (wrong or right) tuple of one value per type
fn ill_typed(w: &mut W, name: &str, res: &mut Res) {
    use glaredb_core::arrays::datatype::DataTypeId as T;
    let types = [T::Boolean, T::Int8, T::Int32, T::Int64, T::UInt8, T::UInt64, T::Float32, T::Float64, T::Decimal64, T::Utf8, T::Date32, T::Timestamp, T::Interval];
    let vals: Vec<String> = types.iter().filter_map(|t| fnreg::alphabet(*t, true).map(|a| a[1].clone())).collect();
    let mut all = vals.clone();
    all.push("NULL".into());
    all.push("[1, 2]".into());
    let fam = format!("ill-typed:{name}");
    for a in &all {
        if let Some(c) = fnreg::call_sql(name, &[a.clone()]) {
            if !run_stmt(w, &format!("SELECT {c}"), &fam, res, false) {
                return; // do not feed a function that hangs or kills the process any further
            }
        }
        for b in &all {
            if let Some(c) = fnreg::call_sql(name, &[a.clone(), b.clone()]) {
                if !run_stmt(w, &format!("SELECT {c}"), &fam, res, false) {
                    return;
                }
            }
        }
    }
    let fam = fam.as_str();
    if let Some(c) = fnreg::call_sql(name, &[]) {
        run_stmt(w, &format!("SELECT {c}"), fam, res, false);
    }
    if let Some(c) = fnreg::call_sql(name, &[all[1].clone(), all[9].clone(), all[2].clone()]) {
        run_stmt(w, &format!("SELECT {c}"), fam, res, false);
    }
}

/// statements that fail at run time on the k-th row / in some partition, followed by probes
fn runtime_failures(w: &mut W, res: &mut Res) {
    for p in [1, 2, 3] {
        for k in [1, 2, 5, 2048, 2049, 5000] {
            for q in [
                format!("SELECT CAST(CASE WHEN g = {k} THEN 'x' ELSE '1' END AS INT) FROM generate_series(1, 6000) s(g)"),
                format!("SELECT sum(CAST(CASE WHEN g = {k} THEN 'x' ELSE '1' END AS INT)) FROM generate_series(1, 6000) s(g) GROUP BY g % 7"),
                format!("SELECT * FROM generate_series(1, 6000) s(g) JOIN (SELECT CAST(CASE WHEN h = {k} THEN 'x' ELSE '1' END AS INT) AS v FROM generate_series(1, 6000) r(h)) z ON g = v"),
                format!("INSERT INTO t SELECT CAST(CASE WHEN g = {k} THEN 'x' ELSE '1' END AS INT), 'n' FROM generate_series(1, 6000) s(g)"),
                format!("CREATE TEMP TABLE never AS SELECT CAST(CASE WHEN g = {k} THEN 'x' ELSE '1' END AS INT) AS v FROM generate_series(1, 6000) s(g)"),
                format!("SELECT 1 / (g - {k}) FROM generate_series(1, 6000) s(g)"),
            ] {
                if w.d.dirty {
                    w.fresh();
                }
                w.d.must(&format!("SET partitions TO {p}"));
                run_stmt(w, &q, "runtime-failure", res, true);
                // the failed CTAS must not leave the table behind
                if q.starts_with("CREATE") && !w.d.dirty {
                    let o = w.d.q("SELECT count(*) FROM never");
                    res.evals += 1;
                    if o.is_rows() {
                        res.fails.push(("C15|failed-statement-changed-state|runtime-failure:ctas".into(), Replay { check: "C15".into(), steps: vec![(0, q.clone()), (0, "SELECT count(*) FROM never".into())], expected: "table 'never' does not exist after the failed CREATE TABLE AS".into(), observed: o.brief(), note: format!("P{p} k{k}"), ..Default::default() }));
                        w.fresh();
                    }
                }
            }
        }
    }
}

pub fn run(tier: Tier) -> i32 {
    let mut rep = Report::new("C15", tier, "fault_enumeration");
    crate::guard::set_wall_limit_ms(6_000);
    let maxlen = if tier.is_thorough() { 5 } else { 4 };
    let cor = corpus();
    let names: Vec<String> = {
        let mut s: BTreeSet<String> = fnreg::scalar_sigs().into_iter().filter(|s| !s.volatile && s.category != "debug").map(|s| s.name).collect();
        s.extend(fnreg::aggregate_sigs().into_iter().map(|s| s.name));
        s.into_iter().collect()
    };
    // phase 1: depth sweeps, alone (a stack overflow kills the child; the supervisor attributes it and restarts)
    let mut sweep = Res::default();
    depth_sweeps(&mut sweep, if tier.is_thorough() { 16 } else { 13 });
    crate::guard::set_wall_limit_ms(4_000);
    // phase 2: everything else in parallel
    let n_tok = TOKENS.len();
    let n_cor = cor.len();
    let n_fn = names.len();
    // statements that stress the operators' output capacity bookkeeping (a result is due in bounded time whatever the
    // session settings are)
    let sized: Vec<String> = [1usize, 2, 100, 2047, 2048, 2049, 5000]
        .iter()
        .flat_map(|n| {
            vec![
                format!("SELECT count(*), sum(b) FROM generate_series(1, {n}) g(a), (VALUES (a + 1)) v(b)"),
                format!("SELECT count(*) FROM generate_series(1, {n}) g(a), LATERAL (SELECT a + 1 AS b) s"),
                format!("SELECT count(*), max(a) FROM (SELECT a FROM generate_series(1, {n}) g(a) ORDER BY a DESC LIMIT {n}) q"),
                format!("SELECT count(*) FROM generate_series(1, {n}) g(a) JOIN generate_series(1, {n}) h(b) ON a = b"),
                format!("SELECT count(DISTINCT a % 7), count(*) FROM generate_series(1, {n}) g(a)"),
                format!("SELECT count(*) FROM (SELECT a FROM generate_series(1, {n}) g(a) UNION SELECT a + 1 FROM generate_series(1, {n}) h(a)) q"),
            ]
        })
        .collect();
    let settings: Vec<Vec<&str>> = vec![vec!["SET batch_size TO 1"], vec!["SET batch_size TO 2", "SET partitions TO 3"], vec!["SET batch_size TO 100", "SET partitions TO 1"], vec!["SET partitions TO 1"], vec!["SET partitions TO 8", "SET enable_hash_joins TO false"], vec!["SET enable_optimizer TO false"]];
    let n_set = settings.len();
    let results = par_run(n_tok + n_cor + n_fn + 2 + n_set, W::new, |w, i| {
        let mut res = Res::default();
        if i < n_tok {
            token_sequences(w, i, maxlen, &mut res);
        } else if i < n_tok + n_cor {
            mutations(w, cor[i - n_tok], &mut res, tier.is_thorough() || (i - n_tok) % 3 == 0);
        } else if i < n_tok + n_cor + n_fn {
            ill_typed(w, &names[i - n_tok - n_cor], &mut res);
        } else if i == n_tok + n_cor + n_fn {
            runtime_failures(w, &mut res);
        } else if i >= n_tok + n_cor + n_fn + 2 {
            // every corpus statement and the sized statements under non-default session settings
            let sets = &settings[i - (n_tok + n_cor + n_fn + 2)];
            w.fresh();
            let mut alive = true;
            for stmt in cor.iter().map(|s| s.to_string()).chain(sized.iter().cloned()) {
                if stmt.starts_with("SET ") || stmt.starts_with("RESET") {
                    continue;
                }
                for st in sets {
                    let _ = w.d.q(st);
                }
                // batch_size 1 multiplies the cost of the largest sized statements: keep them for the other settings
                if sets[0] == "SET batch_size TO 1" && (stmt.contains("5000") || stmt.contains("2049") || stmt.contains("2048") || stmt.contains("2047")) && stmt.contains("JOIN") {
                    continue;
                }
                alive = run_stmt(w, &stmt, &format!("settings:{}", sets.join(";").replace("SET ", "").replace(" TO ", "=")), &mut res, false);
            }
            w.fresh();
        } else {
            // all 1- and 2-byte strings (as far as they are valid UTF-8)
            for a in 0u16..256 {
                if let Ok(s) = String::from_utf8(vec![a as u8]) {
                    run_stmt(w, &s, "short-bytes", &mut res, false);
                }
                for b in 0u16..256 {
                    if let Ok(s) = String::from_utf8(vec![a as u8, b as u8]) {
                        run_stmt(w, &s, "short-bytes", &mut res, false);
                    }
                }
            }
        }
        res
    });
    let (mut evals, mut nontriv, mut rows, mut errors) = (sweep.evals, sweep.nontrivial, sweep.rows, sweep.errors);
    let mut outcomes = sweep.outcomes;
    for (k, r) in sweep.fails {
        rep.fail(k, r);
    }
    for rr in results {
        evals += rr.evals;
        nontriv += rr.nontrivial;
        rows += rr.rows;
        errors += rr.errors;
        outcomes.extend(rr.outcomes);
        for (k, rp) in rr.fails {
            rep.fail(k, rp);
        }
    }
    rep.cov("evaluations", json!(evals));
    rep.cov("distinct_nontrivial", json!(nontriv + rows.min(1) + errors.min(1)));
    rep.cov("rule", json!(format!("(1) all token sequences of length <= {maxlen} over a 28-token alphabet; (2) {} corpus statements (every statement form of the dialect and the unsupported constructs) under every single-token deletion / duplication / neighbour swap / replacement by each alphabet token, and every single-byte substitution by 12 bytes at every position; all 1- and 2-byte strings; (3) 17 depth / length families with n = 1, 2, 4, ... on an 8 MiB stack, each stopped at the first outcome that is not rows|error; (4) every function name applied to every pair of one value per type (ill-typed calls); (5) statements failing at run time on row k in {{1,2,5,2048,2049,5000}} with 1-3 partitions (SELECT, aggregate, join build side, INSERT, CTAS, division by zero); (6) every corpus statement and 42 sized statements (lateral VALUES / joins / sorts / unions over 1..5000 rows) under 6 non-default session settings (batch_size 1 / 2 / 100, partitions 1 / 3 / 8, nested-loop joins, optimizer off). Each corpus / run-time case is followed by a probe in the same session. A fault is distinct by its text; non-trivial = probes that confirmed the session state after the statement", cor.len())));
    rep.cov("statements_with_rows", json!(rows));
    rep.cov("statements_with_error", json!(errors));
    rep.cov("distinct_outcomes", json!(outcomes.into_iter().collect::<Vec<_>>()));
    rep.cov("exhaustive", json!(true));
    rep.cov("samples", json!(["SELECT FROM WHERE (", "SELECT a , b FROM t WHERE a = 1 ORDER ORDER BY a LIMIT 1", "SELECT ((((((((1))))))))  -- n = 8 ... 2^13"]));
    let _ = Val::Null;
    rep.finish()
}
