//! C16 - no statement makes the engine's unsafe code touch memory it does not own.
//!
//! The deciding step is the other checks' bounded exhaustive enumeration; this check re-runs a set of them on
//! a build of the same harness and engine instrumented with AddressSanitizer (nightly, -Zsanitizer=address),
//! so that every enumerated execution is monitored for out-of-bounds accesses, use-after-free and double free
//! in the hand-managed buffers (debug assertions and overflow checks stay on, so the internal consistency
//! assertions are checked as well). A sanitizer report aborts the child; the supervisor attributes it to the
//! statement in flight, re-runs without it, and this driver pairs the report with the statement.
use std::collections::BTreeSet;
use std::path::{Path, PathBuf};
use std::process::{Command, Stdio};
use std::time::{Duration, Instant};

use serde_json::json;

use crate::infra::{Replay, Report, Tier, msg_template, one_line, verif_root};

fn asan_bin() -> PathBuf {
    verif_root().join("target").join("asan").join("x86_64-unknown-linux-gnu").join("release").join("vcheck")
}

struct SubRun {
    check: &'static str,
    evaluations: u64,
    wall: f64,
    exit: Option<i32>,
    timed_out: bool,
    reports: Vec<(String, String)>,
    aborted: Vec<String>,
    other_violations: usize,
}

fn parse_report(text: &str) -> (String, String) {
    // "==123==ERROR: AddressSanitizer: heap-buffer-overflow on address ..."
    let kind = text.lines().find_map(|l| l.split("ERROR: AddressSanitizer: ").nth(1)).map(|r| r.split_whitespace().next().unwrap_or("?").to_string()).unwrap_or_else(|| "?".into());
    // first frame inside the engine
    let frame = text
        .lines()
        .filter(|l| l.trim_start().starts_with('#'))
        .find_map(|l| l.split(" in ").nth(1).filter(|f| f.contains("glaredb")).map(|f| f.split(" /").next().unwrap_or(f).split('(').next().unwrap_or(f).trim().to_string()))
        .unwrap_or_else(|| "?".into());
    (kind, msg_template(&frame.replace("::h", "::").chars().take(80).collect::<String>()))
}

fn run_sub(check: &'static str, wall_cap: Duration, thorough: bool) -> Result<SubRun, String> {
    let root = verif_root().join("target").join("c16").join(check);
    let _ = std::fs::remove_dir_all(&root);
    std::fs::create_dir_all(root.join("asan")).map_err(|e| e.to_string())?;
    for f in ["known_findings.jsonl", "properties.jsonl"] {
        let _ = std::fs::copy(verif_root().join(f), root.join(f));
    }
    let start = Instant::now();
    let mut child = Command::new(asan_bin())
        .args([check, "--tier", if check == "C16A" && thorough { "thorough" } else { "quick" }])
        .env_remove("VERIF_CHILD")
        .env_remove("VERIF_INFLIGHT")
        .env_remove("VERIF_SKIP_FILE")
        .env("VERIF_ROOT", &root)
        .env("ASAN_OPTIONS", format!("abort_on_error=1:detect_leaks=0:handle_segv=1:allocator_may_return_null=1:malloc_context_size=0:quarantine_size_mb=32:log_path={}", root.join("asan").join("report").display()))
        .env("RUST_BACKTRACE", "0")
        .stdout(Stdio::piped())
        .stderr(Stdio::null())
        .spawn()
        .map_err(|e| format!("cannot start the sanitizer build of the harness: {e}"))?;
    let mut timed_out = false;
    let status = loop {
        match child.try_wait() {
            Ok(Some(s)) => break Some(s),
            Ok(None) => {
                if start.elapsed() > wall_cap {
                    let _ = child.kill();
                    timed_out = true;
                    break child.wait().ok();
                }
                std::thread::sleep(Duration::from_millis(200));
            }
            Err(e) => return Err(format!("waiting for the sanitizer run of {check}: {e}")),
        }
    };
    let mut out = String::new();
    if let Some(mut so) = child.stdout.take() {
        use std::io::Read;
        let _ = so.read_to_string(&mut out);
    }
    let evaluations = std::fs::read_to_string(root.join("evidence").join(format!("{check}.json"))).ok().and_then(|t| serde_json::from_str::<serde_json::Value>(&t).ok()).map(|v| v["coverage"]["evaluations"].as_u64().or(v["coverage"]["states"].as_u64()).unwrap_or(0)).unwrap_or(0);
    let mut reports = Vec::new();
    if let Ok(rd) = std::fs::read_dir(root.join("asan")) {
        let mut files: Vec<PathBuf> = rd.filter_map(|e| e.ok().map(|e| e.path())).collect();
        files.sort_by_key(|p| std::fs::metadata(p).and_then(|m| m.modified()).ok());
        for f in files {
            if let Ok(t) = std::fs::read_to_string(&f) {
                if !t.contains("ERROR: AddressSanitizer") {
                    continue; // warnings only (e.g. a refused allocation request)
                }
                let (k, fr) = parse_report(&t);
                reports.push((format!("{k}|{fr}"), t.lines().take(12).collect::<Vec<_>>().join("\n")));
            }
        }
    }
    let aborted: Vec<String> = std::fs::read_to_string(root.join("target").join("guard").join("aborts.jsonl")).unwrap_or_default().lines().filter_map(|l| serde_json::from_str::<serde_json::Value>(l).ok()).map(|v| v["sql"].as_str().unwrap_or("").to_string()).collect();
    let other_violations = out.lines().filter(|l| l.starts_with("VIOLATION")).count();
    Ok(SubRun { check, evaluations, wall: start.elapsed().as_secs_f64(), exit: status.and_then(|s| s.code()), timed_out, reports, aborted, other_violations })
}

pub fn run(tier: Tier) -> i32 {
    let mut rep = Report::new("C16", tier, "exploration");
    if !Path::new(&asan_bin()).exists() {
        rep.machinery_errors.push(format!("the AddressSanitizer build of the harness is missing ({}); /verif/bin/vcheck C16 builds it", asan_bin().display()));
        return rep.finish();
    }
    let (subs, cap): (Vec<&'static str>, u64) = match tier {
        Tier::Quick => (vec!["C16A", "C10"], 2700),
        Tier::Thorough => (vec!["C16A", "C01", "C03", "C05", "C06", "C07", "C08", "C09", "C10", "C11", "C12", "C13", "C17", "C19", "C20", "C04"], 7200),
    };
    let mut total = 0u64;
    let mut per = Vec::new();
    let mut kinds: BTreeSet<String> = BTreeSet::new();
    let mut samples = Vec::new();
    for s in subs {
        match run_sub(s, Duration::from_secs(cap), tier.is_thorough()) {
            Err(e) => rep.machinery_errors.push(e),
            Ok(r) => {
                total += r.evaluations;
                if r.timed_out {
                    rep.machinery_errors.push(format!("the sanitizer run of {s} exceeded {cap} s and was stopped"));
                }
                if r.evaluations == 0 && !r.timed_out {
                    rep.machinery_errors.push(format!("the sanitizer run of {s} executed nothing (child exit {:?})", r.exit));
                }
                if r.exit == Some(2) {
                    rep.machinery_errors.push(format!("the sanitizer run of {s} ended with a machinery failure (exit 2)"));
                }
                for (i, (key, head)) in r.reports.iter().enumerate() {
                    kinds.insert(key.clone());
                    let stmt = r.aborted.get(i).cloned().unwrap_or_else(|| "(statement not attributed)".into());
                    rep.fail(
                        format!("C16|asan:{key}|{s}"),
                        Replay { check: format!("C16/{s}"), steps: vec![(0, stmt)], expected: "no sanitizer report".into(), observed: one_line(head, 900), note: format!("AddressSanitizer report while re-running the enumeration of {s} on the sanitizer build; replay with /verif/target/asan/x86_64-unknown-linux-gnu/release/vcheck sql '<statement>' (ASAN_OPTIONS=detect_leaks=0)"), ..Default::default() },
                    );
                }
                if samples.len() < 3 {
                    samples.push(json!({"enumeration_of": s, "executions_under_sanitizer": r.evaluations}));
                }
                per.push(json!({"check": r.check, "executions_under_sanitizer": r.evaluations, "wall_s": r.wall, "child_exit": r.exit, "sanitizer_reports": r.reports.len(), "statements_that_killed_the_child": r.aborted.len(), "functional_violation_lines_ignored_here": r.other_violations}));
            }
        }
    }
    rep.cov("evaluations", json!(total));
    rep.cov("distinct_nontrivial", json!(total));
    rep.cov("rule", json!("every execution of the quick enumeration of the listed checks (quick: the buffer-boundary alphabet C16A - value lengths around the 12-byte inline limit and multi-block heaps x row counts around the 2048-row chunk x partitions / batch sizes x 30 operator templates and file reads - and C10's valid Parquet files; thorough: all statement-level checks and the schedule explorers) is repeated on an AddressSanitizer build (engine + harness, debug assertions and overflow checks on); non-trivial = executed under the sanitizer (counted from the sub-run's own evidence). Functional verdicts of the sub-runs belong to their own properties and are ignored here; only sanitizer reports count"));
    rep.cov("per_enumeration", json!(per));
    rep.cov("distinct_outcomes", json!(kinds.into_iter().collect::<Vec<_>>()));
    rep.cov("samples", json!(samples));
    rep.cov("exhaustive", json!(true));
    rep.assume("allocator_may_return_null=1: an absurd allocation request (known under C19 as resource blow-up) fails like in the normal build instead of being reported by the sanitizer");
    rep.assume("AddressSanitizer detects out-of-bounds, use-after-free and double free on instrumented code (engine and harness; std is not instrumented); reads of uninitialised memory and misalignment are not detected by it");
    rep.assume("data races are not decided here: the thread-level explorer serialises threads; the race clause of C16 is not claimed");
    rep.finish()
}
