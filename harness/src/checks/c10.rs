//! C10 - reading a valid Parquet file returns exactly the rows it encodes.
use std::collections::{BTreeMap, BTreeSet};

use serde_json::json;

use super::rel::outcome_fail_class;
use crate::drv::{Driver, Outcome};
use crate::infra::{Replay, Report, Tier, msg_template, par_run};
use crate::pqgen::*;
use crate::val::{Row, Val, bag};
use crate::vfs::Answer;

pub fn type_alphabet(phys: Phys, logical: Logical) -> Vec<PV> {
    match (phys, logical) {
        (Phys::Boolean, _) => vec![PV::Bool(true), PV::Bool(false), PV::Bool(true), PV::Bool(true), PV::Bool(false)],
        (Phys::Int32, Logical::Int8) => [-128, -1, 0, 1, 127].iter().map(|x| PV::I32(*x)).collect(),
        (Phys::Int32, Logical::Int16) => [-32768, -1, 0, 300, 32767].iter().map(|x| PV::I32(*x)).collect(),
        (Phys::Int32, Logical::UInt8) => [0, 1, 127, 128, 255].iter().map(|x| PV::I32(*x)).collect(),
        (Phys::Int32, Logical::UInt16) => [0, 1, 32767, 32768, 65535].iter().map(|x| PV::I32(*x)).collect(),
        (Phys::Int32, Logical::UInt32) => [0i64, 1, 2147483647, 2147483648, 4294967295].iter().map(|x| PV::I32(*x as u32 as i32)).collect(),
        (Phys::Int32, Logical::Date) => [-719162, -1, 0, 19782, 2932896].iter().map(|x| PV::I32(*x)).collect(),
        (Phys::Int32, Logical::Decimal(..)) => [-999999999, -1, 0, 150, 999999999].iter().map(|x| PV::I32(*x)).collect(),
        (Phys::Int32, _) => [i32::MIN, -1, 0, 1, i32::MAX].iter().map(|x| PV::I32(*x)).collect(),
        (Phys::Int64, Logical::UInt64) => [0u64, 1, 9223372036854775807, 9223372036854775808, u64::MAX].iter().map(|x| PV::I64(*x as i64)).collect(),
        (Phys::Int64, Logical::Decimal(..)) => [-999999999999999999i64, -1, 0, 1500, 999999999999999999].iter().map(|x| PV::I64(*x)).collect(),
        (Phys::Int64, Logical::TimestampMillis | Logical::TimestampMicros) => [-1i64, 0, 1, 1709210096789, 253402300799000].iter().map(|x| PV::I64(*x)).collect(),
        (Phys::Int64, _) => [i64::MIN, -1, 0, 1, i64::MAX].iter().map(|x| PV::I64(*x)).collect(),
        (Phys::Float, _) => [0.0f32, -1.5, f32::NAN, f32::INFINITY, 3.4e38].iter().map(|x| PV::F32(*x)).collect(),
        (Phys::Double, _) => [0.0f64, -1.5, f64::NAN, f64::NEG_INFINITY, 1.7e308].iter().map(|x| PV::F64(*x)).collect(),
        (Phys::ByteArray, Logical::Utf8) => ["", "a", "é😀", "long-string-over-12-bytes", "xxxxxxxxxxxxxxxxxxxxxxxxxxxxxxxxxxxxxxxx"].iter().map(|s| PV::Bytes(s.as_bytes().to_vec())).collect(),
        (Phys::ByteArray, _) => vec![PV::Bytes(vec![]), PV::Bytes(vec![0]), PV::Bytes(vec![0xff, 0xfe]), PV::Bytes(b"long-binary-over-12-bytes".to_vec()), PV::Bytes(vec![7; 40])],
    }
}

pub fn type_encodings() -> Vec<(Phys, Logical, Vec<Enc>)> {
    let int_encs = vec![Enc::Plain, Enc::Dict, Enc::DeltaBinaryPacked, Enc::ByteStreamSplit];
    let mut v = vec![(Phys::Boolean, Logical::None, vec![Enc::Plain, Enc::Rle])];
    for l in [Logical::None, Logical::Int8, Logical::Int16, Logical::UInt8, Logical::UInt16, Logical::UInt32, Logical::Date, Logical::Decimal(9, 2)] {
        v.push((Phys::Int32, l, int_encs.clone()));
    }
    // INT64 with the TIMESTAMP_MILLIS / TIMESTAMP_MICROS converted types is refused by the reader at plan time
    // (only the newer LogicalType annotation is supported, which pqgen does not write): not in the alphabet
    for l in [Logical::None, Logical::UInt64, Logical::Decimal(18, 3)] {
        v.push((Phys::Int64, l, int_encs.clone()));
    }
    v.push((Phys::Float, Logical::None, vec![Enc::Plain, Enc::Dict, Enc::ByteStreamSplit]));
    v.push((Phys::Double, Logical::None, vec![Enc::Plain, Enc::Dict, Enc::ByteStreamSplit]));
    for l in [Logical::Utf8, Logical::None] {
        v.push((Phys::ByteArray, l, vec![Enc::Plain, Enc::Dict, Enc::DeltaLengthByteArray, Enc::DeltaByteArray]));
    }
    v
}

/// all compositions of n into positive parts
fn compositions(n: usize) -> Vec<Vec<usize>> {
    if n == 0 {
        return vec![vec![]];
    }
    let mut out = Vec::new();
    for first in 1..=n {
        for mut rest in compositions(n - first) {
            let mut v = vec![first];
            v.append(&mut rest);
            out.push(v);
        }
    }
    out
}

#[derive(Clone)]
pub struct FileCase {
    pub name: String,
    pub site: String,
    pub cols: Vec<Column>,
    pub row_groups: Vec<usize>,
}

fn mk_col(name: &str, phys: Phys, logical: Logical, vals: Vec<Option<PV>>, optional: bool, enc: Enc, v2: bool, codec: Codec, pages: Vec<usize>, levels: LevelMode) -> Column {
    Column { name: name.into(), phys, logical, optional, values: vals, enc, old_dict_id: false, v2, codec, levels, stats: StatsMode::Exact, page_rows: pages }
}

fn small_files(tier: Tier) -> Vec<FileCase> {
    let mut out = Vec::new();
    let full = tier.is_thorough();
    let layouts: Vec<Vec<usize>> = if full { compositions(5) } else { vec![vec![5], vec![1, 1, 1, 1, 1], vec![2, 3], vec![4, 1]] };
    let masks: Vec<u32> = if full { (0..32).collect() } else { vec![0b11111, 0b00000, 0b10101, 0b01010, 0b11110, 0b00001, 0b10000, 0b00111] };
    for (phys, logical, encs) in type_encodings() {
        let alpha = type_alphabet(phys, logical);
        for enc in encs {
            let site = format!("{phys:?}/{logical:?}/{enc:?}");
            for v2 in [false, true] {
                for layout in &layouts {
                    // required
                    let vals: Vec<Option<PV>> = alpha.iter().cloned().map(Some).collect();
                    out.push(FileCase { name: format!("{site}/v{}/required/pages{layout:?}", if v2 { 2 } else { 1 }), site: site.clone(), cols: vec![mk_col("c", phys, logical, vals, false, enc, v2, Codec::None, layout.clone(), LevelMode::Rle)], row_groups: vec![5] });
                    for &m in &masks {
                        let vals: Vec<Option<PV>> = alpha.iter().enumerate().map(|(i, v)| if m & (1 << i) != 0 { Some(v.clone()) } else { None }).collect();
                        let lm = [LevelMode::Rle, LevelMode::BitPacked, LevelMode::Mixed][(m as usize) % 3];
                        out.push(FileCase { name: format!("{site}/v{}/mask{m:05b}/pages{layout:?}", if v2 { 2 } else { 1 }), site: site.clone(), cols: vec![mk_col("c", phys, logical, vals, true, enc, v2, Codec::None, layout.clone(), lm)], row_groups: vec![if m % 2 == 0 { 5 } else { 3 }] });
                    }
                }
            }
            // codecs x page version x 3 layouts (4 types in quick)
            for codec in [Codec::Snappy, Codec::Gzip, Codec::Zstd] {
                for v2 in [false, true] {
                    for layout in [vec![5], vec![2, 3], vec![1, 1, 1, 1, 1]] {
                        if !full && !matches!((phys, logical), (Phys::Int32, Logical::None) | (Phys::ByteArray, Logical::Utf8) | (Phys::Double, _) | (Phys::Boolean, _)) {
                            continue;
                        }
                        let vals: Vec<Option<PV>> = alpha.iter().enumerate().map(|(i, v)| if i == 1 { None } else { Some(v.clone()) }).collect();
                        out.push(FileCase { name: format!("{site}/v{}/{codec:?}/pages{layout:?}", if v2 { 2 } else { 1 }), site: site.clone(), cols: vec![mk_col("c", phys, logical, vals, true, enc, v2, codec, layout, LevelMode::Mixed)], row_groups: vec![5] });
                    }
                }
            }
        }
    }
    out
}

fn long_files(tier: Tier) -> Vec<FileCase> {
    let mut out = Vec::new();
    let ns: Vec<usize> = if tier.is_thorough() { vec![7, 8, 9, 31, 32, 33, 63, 64, 65, 127, 128, 129, 255, 256, 257, 1023, 1024, 1025, 2049] } else { vec![8, 33, 129, 257, 1025] };
    for (phys, logical, encs) in type_encodings() {
        if !tier.is_thorough() && !matches!((phys, logical), (Phys::Int32, Logical::None) | (Phys::Int64, Logical::None) | (Phys::ByteArray, Logical::Utf8) | (Phys::Double, _) | (Phys::Boolean, _) | (Phys::Int32, Logical::UInt8)) {
            continue;
        }
        let alpha = type_alphabet(phys, logical);
        for enc in encs {
            let site = format!("{phys:?}/{logical:?}/{enc:?}");
            for &n in &ns {
                for (pn, pat) in ["constant", "alternating", "ramp", "cycle"].iter().enumerate() {
                    for (nn, nullpat) in ["none", "every2", "runs8"].iter().enumerate() {
                        if !tier.is_thorough() && (pn + nn + n) % 3 != 0 {
                            continue;
                        }
                        let vals: Vec<Option<PV>> = (0..n)
                            .map(|i| {
                                let null = match *nullpat {
                                    "every2" => i % 2 == 1,
                                    "runs8" => (i / 9) % 2 == 1,
                                    _ => false,
                                };
                                if null {
                                    return None;
                                }
                                Some(match *pat {
                                    "constant" => alpha[1].clone(),
                                    "alternating" => alpha[i % 2].clone(),
                                    "ramp" => match &alpha[2] {
                                        // every value inside the range of the logical type (a file with -1000 in a
                                        // UINT_16 column is not a valid file)
                                        PV::I32(_) => match logical {
                                            Logical::UInt8 => PV::I32((i % 256) as i32),
                                            Logical::Int8 => PV::I32((i % 256) as i32 - 128),
                                            Logical::UInt16 => PV::I32(((i * 37) % 65536) as i32),
                                            Logical::Int16 => PV::I32(((i * 37) % 65536) as i32 - 32768),
                                            Logical::UInt32 => PV::I32((i as u32).wrapping_mul(2_000_003) as i32),
                                            _ => PV::I32(i as i32 * 3 - 1000),
                                        },
                                        PV::I64(_) => match logical {
                                            Logical::UInt64 => PV::I64((i as u64).wrapping_mul(9_000_000_000_000_007) as i64),
                                            _ => PV::I64(i as i64 * 1_000_003 - 5),
                                        },
                                        PV::F32(_) => PV::F32(i as f32 * 0.5),
                                        PV::F64(_) => PV::F64(i as f64 * 0.25),
                                        PV::Bytes(_) => PV::Bytes(format!("prefix-{:05}", i).into_bytes()),
                                        PV::Bool(_) => PV::Bool(i % 3 == 0),
                                    },
                                    _ => alpha[i % alpha.len()].clone(),
                                })
                            })
                            .collect();
                        let pages = if n > 100 { vec![n / 3 + 1] } else { vec![n] };
                        out.push(FileCase { name: format!("{site}/long{n}/{pat}/{nullpat}"), site: site.clone(), cols: vec![mk_col("c", phys, logical, vals, *nullpat != "none", enc, n % 2 == 0, Codec::None, pages, LevelMode::Mixed)], row_groups: vec![n] });
                    }
                }
            }
        }
    }
    out
}

#[derive(Default)]
pub struct Res {
    pub evals: u64,
    pub nontrivial: u64,
    pub outcomes: BTreeSet<String>,
    pub fails: Vec<(String, Replay)>,
}

pub fn expected_rows(fc: &FileCase) -> Vec<Row> {
    let n = fc.cols[0].values.len();
    (0..n).map(|i| fc.cols.iter().map(|c| expected_val(c.phys, c.logical, &c.values[i])).collect()).collect()
}

fn rows_equal(a: &[Row], b: &[Row]) -> bool {
    a.len() == b.len() && a.iter().zip(b).all(|(x, y)| x.len() == y.len() && x.iter().zip(y).all(|(u, v)| u.norm() == v.norm() || dec_eq(u, v)))
}

fn dec_eq(u: &Val, v: &Val) -> bool {
    matches!((u, v), (Val::Dec(a, _, s1), Val::Dec(b, _, s2)) if a == b && s1 == s2)
}

fn check_file(d: &mut Driver, fc: &FileCase, tier: Tier, res: &mut Res) {
    if d.dirty {
        *d = Driver::new();
    }
    let (bytes, _layout) = write_file(&fc.cols, &fc.row_groups);
    d.fs.clear_files();
    d.fs.put("f.parquet", bytes.clone());
    d.fs.set_script(BTreeMap::new());
    let want = expected_rows(fc);
    let want_types: Vec<String> = fc.cols.iter().map(|c| expected_type(c.phys, c.logical)).collect();
    let sql = "SELECT * FROM read_parquet('f.parquet')";
    let mk = |sets: &[String], script: Vec<(usize, String, usize)>, expected: String, observed: String| Replay { check: "C10".into(), files: vec![("f.parquet".into(), bytes.clone())], script, steps: sets.iter().map(|s| (0usize, s.clone())).chain(std::iter::once((0usize, sql.to_string()))).collect(), expected, observed, note: fc.name.clone(), ..Default::default() };
    let small = want.len() <= 8;
    let cfgs: Vec<(usize, usize)> = if small {
        if tier.is_thorough() { vec![(1, 2048), (1, 1), (1, 2), (1, 3), (2, 2), (3, 7)] } else { vec![(1, 2048), (1, 1), (2, 2)] }
    } else if tier.is_thorough() {
        vec![(1, 2048), (1, 5), (1, 32), (1, 100), (3, 32)]
    } else {
        vec![(1, 2048), (1, 5), (2, 100)]
    };
    for (p, b) in cfgs {
        if d.dirty {
            *d = Driver::new();
            d.fs.put("f.parquet", bytes.clone());
        }
        let sets = vec![format!("SET partitions TO {p}"), format!("SET batch_size TO {b}")];
        for s in &sets {
            d.must(s);
        }
        let o = d.q(sql);
        res.evals += 1;
        match &o {
            Outcome::Rows(r) => {
                if r.types != want_types {
                    res.fails.push((format!("C10|wrong-type|{}", fc.site), mk(&sets, vec![], format!("{want_types:?}"), format!("{:?}", r.types))));
                    return;
                }
                let ok = if p == 1 { rows_equal(&r.rows, &want) } else { bag(&r.rows) == bag(&want) || rows_equal(&bag(&r.rows), &bag(&want)) };
                if !ok {
                    res.fails.push((format!("C10|wrong-rows|{}", fc.site), mk(&sets, vec![], crate::val::fmt_rows(&want, 10), crate::val::fmt_rows(&r.rows, 10))));
                    return;
                }
                res.nontrivial += 1;
            }
            Outcome::Error { msg, .. } => {
                res.fails.push((format!("C10|spurious-error:{}|{}", msg_template(msg), fc.site), mk(&sets, vec![], "the rows of the file".into(), o.brief())));
                return;
            }
            o2 => {
                res.fails.push((format!("C10|{}|{}", outcome_fail_class(o2).unwrap(), fc.site), mk(&sets, vec![], "the rows of the file".into(), o2.brief())));
                return;
            }
        }
    }
    // environment answers: one deviation (short read / Pending) at every read call of the scan
    if small && !d.dirty {
        d.must("SET partitions TO 1");
        d.must("SET batch_size TO 2048");
        d.fs.reset_counters();
        let _ = d.q(sql);
        let nreads = d.fs.reads();
        for ri in 0..nreads.min(24) {
            for ans in [Answer::Short(1), Answer::Short(7), Answer::Pending] {
                if d.dirty {
                    return;
                }
                let mut script = BTreeMap::new();
                script.insert(ri, ans);
                d.fs.set_script(script);
                let o = d.q(sql);
                res.evals += 1;
                d.fs.set_script(BTreeMap::new());
                let ok = matches!(&o, Outcome::Rows(r) if rows_equal(&r.rows, &want));
                if !ok {
                    let sc = vec![(ri, match ans { Answer::Short(_) => "short".to_string(), Answer::Pending => "pending".to_string(), _ => "full".to_string() }, match ans { Answer::Short(k) => k, _ => 0 })];
                    res.fails.push((format!("C10|{}|{}", outcome_fail_class(&o).unwrap_or_else(|| "depends-on-read-answer".into()), fc.site), mk(&[], sc, crate::val::fmt_rows(&want, 10), o.brief())));
                    return;
                }
            }
        }
        res.nontrivial += 1;
    }
}

/// metadata table functions report what the footer says
fn check_metadata(d: &mut Driver, res: &mut Res) {
    let alpha = type_alphabet(Phys::Int32, Logical::None);
    let vals: Vec<Option<PV>> = (0..10).map(|i| if i % 4 == 3 { None } else { Some(alpha[i % 5].clone()) }).collect();
    let svals: Vec<Option<PV>> = (0..10).map(|i| Some(PV::Bytes(format!("s{i}").into_bytes()))).collect();
    for rgs in [vec![10usize], vec![6, 4], vec![3, 3, 4], vec![1]] {
        for codec in [Codec::None, Codec::Snappy] {
            if d.dirty {
                *d = Driver::new();
            }
            let cols = vec![mk_col("a", Phys::Int32, Logical::None, vals.clone(), true, Enc::Dict, false, codec, vec![3], LevelMode::Rle), mk_col("s", Phys::ByteArray, Logical::Utf8, svals.clone(), false, Enc::Plain, true, codec, vec![4], LevelMode::Rle)];
            let (bytes, _) = write_file(&cols, &rgs);
            d.fs.clear_files();
            d.fs.put("m.parquet", bytes.clone());
            let mk = |sql: &str, expected: String, observed: String| Replay { check: "C10".into(), files: vec![("m.parquet".into(), bytes.clone())], steps: vec![(0, sql.to_string())], expected, observed, note: format!("row groups {rgs:?} codec {codec:?}"), ..Default::default() };
            // expected row group boundaries as pqgen lays them out
            let mut bounds = Vec::new();
            let mut s = 0;
            let mut k = 0;
            while s < 10 {
                let n = rgs[k % rgs.len()].min(10 - s);
                bounds.push(n);
                s += n;
                k += 1;
            }
            let q1 = "SELECT version, num_rows, created_by, num_row_groups FROM parquet.file_metadata('m.parquet')";
            let o = d.q(q1);
            res.evals += 1;
            let want = vec![vec![Val::Int(2), Val::Int(10), Val::Str("verif pqgen".into()), Val::Int(bounds.len() as i128)]];
            match &o {
                Outcome::Rows(r) if r.rows == want => res.nontrivial += 1,
                o2 => res.fails.push(("C10|metadata-differs|file_metadata".into(), mk(q1, crate::val::fmt_rows(&want, 4), o2.brief()))),
            }
            let q2 = "SELECT num_rows, num_columns, ordinal FROM parquet.rowgroup_metadata('m.parquet')";
            let o = d.q(q2);
            res.evals += 1;
            let want: Vec<Row> = bounds.iter().enumerate().map(|(i, n)| vec![Val::Int(*n as i128), Val::Int(2), Val::Int(i as i128)]).collect();
            match &o {
                Outcome::Rows(r) if r.rows == want => res.nontrivial += 1,
                o2 => res.fails.push(("C10|metadata-differs|rowgroup_metadata".into(), mk(q2, crate::val::fmt_rows(&want, 6), o2.brief()))),
            }
            let q3 = "SELECT rowgroup_ordinal, column_ordinal, physical_type, max_definition_level, num_values FROM parquet.column_metadata('m.parquet')";
            let o = d.q(q3);
            res.evals += 1;
            let mut want: Vec<Row> = Vec::new();
            for (i, n) in bounds.iter().enumerate() {
                want.push(vec![Val::Int(i as i128), Val::Int(0), Val::Str("INT32".into()), Val::Int(1), Val::Int(*n as i128)]);
                want.push(vec![Val::Int(i as i128), Val::Int(1), Val::Str("BYTE_ARRAY".into()), Val::Int(0), Val::Int(*n as i128)]);
            }
            match &o {
                Outcome::Rows(r) if r.rows == want => res.nontrivial += 1,
                o2 => res.fails.push(("C10|metadata-differs|column_metadata".into(), mk(q3, crate::val::fmt_rows(&want, 8), o2.brief()))),
            }
        }
    }
}

pub fn run(tier: Tier) -> i32 {
    let mut rep = Report::new("C10", tier, "exploration");
    let mut files = small_files(tier);
    files.extend(long_files(tier));
    // multi-column / dictionary-then-plain-free composite
    let n = files.len();
    let results = par_run(n + 1, Driver::new, |d, i| {
        let mut res = Res::default();
        if i == n {
            check_metadata(d, &mut res);
        } else {
            check_file(d, &files[i], tier, &mut res);
        }
        res
    });
    let (mut evals, mut nontriv) = (0u64, 0u64);
    let mut outcomes = BTreeSet::new();
    for rr in results {
        evals += rr.evals;
        nontriv += rr.nontrivial;
        outcomes.extend(rr.outcomes);
        for (k, rp) in rr.fails {
            rep.fail(k, rp);
        }
    }
    rep.cov("evaluations", json!(evals));
    rep.cov("distinct_nontrivial", json!(nontriv));
    rep.cov("rule", json!("files written by the independent writer pqgen: {BOOLEAN, INT32 x 8 annotations, INT64 x 5 annotations, FLOAT, DOUBLE, BYTE_ARRAY x 2} x every legal encoding (PLAIN, RLE_DICTIONARY, RLE, DELTA_BINARY_PACKED, DELTA_LENGTH_BYTE_ARRAY, DELTA_BYTE_ARRAY, BYTE_STREAM_SPLIT) x {required, optional with NULL masks over 5 values (all 32 in thorough), level encodings RLE / bit-packed / mixed} x page v1/v2 x page compositions of the 5 values (all 16 in thorough) x codecs {none, snappy, gzip, zstd}; long-run families n around 8/32/64/128/256/1024 with constant / alternating / ramp / cycle values and NULL patterns read with batch sizes 5/32/100/2048 (decoders resumed mid-page, mid-run, mid-miniblock); each read under several (partitions, batch_size) and, for small files, with one short read / Pending at every read call. Oracle: the rows given to the writer (order within the file for 1 partition, bag otherwise) with the documented engine types; metadata table functions equal the footer. non-trivial = reads that returned the expected rows"));
    rep.cov("files", json!(n));
    rep.cov("distinct_outcomes", json!(outcomes.into_iter().collect::<Vec<_>>()));
    rep.cov("exhaustive", json!(true));
    rep.cov("samples", json!([files[0].name, files[n / 2].name, files[n - 1].name]));
    rep.assume("pqgen (harness/src/pqgen.rs) is written from the Parquet specification; repetition levels / nested columns are not generated");
    rep.finish()
}
