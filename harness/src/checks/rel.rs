//! Shared machinery of the relational E-ENUM checks (C01, C02, C03, C06, C09...).
use std::collections::{BTreeMap, BTreeSet, HashMap};

use crate::drv::{Driver, Outcome};
use crate::alg::{DbInst, Term, schema, val_sql};
use crate::infra::{Replay, panic_class};
use crate::rm::{Body, Cte, E, From, Item, Query, Ty};

/// Physical table pool: TEMP tables keyed by content, reused across cases.
pub struct Worker {
    pub d: Driver,
    cache: HashMap<String, String>,
    counter: usize,
    pub rebuilds: usize,
}

impl Worker {
    pub fn new() -> Worker {
        Worker { d: Driver::new(), cache: HashMap::new(), counter: 0, rebuilds: 0 }
    }

    pub fn reset(&mut self) {
        self.d = Driver::new();
        self.cache.clear();
        // the counter is never reset: a physical name always denotes one content
        self.rebuilds += 1;
    }

    pub fn ensure_clean(&mut self) {
        if self.d.dirty || self.cache.len() > 3000 {
            self.reset();
        }
    }

    /// Returns the physical table name holding exactly `rows` for schema table `name`,
    /// plus the statements that create it (for replay files).
    pub fn phys_table(&mut self, name: &str, rows: &[crate::val::Row]) -> (String, Vec<String>) {
        let td = schema().into_iter().find(|t| t.name == name).expect("schema table");
        let key = format!("{}|{}", name, crate::val::fmt_rows(rows, 1000));
        let cols: Vec<String> = td.cols.iter().map(|(c, ty)| format!("{} {}", c, if *ty == Ty::Text { "TEXT" } else { "INT" })).collect();
        let mk = |phys: &str| -> Vec<String> {
            let mut v = vec![format!("CREATE TEMP TABLE {} ({})", phys, cols.join(", "))];
            if !rows.is_empty() {
                let vs: Vec<String> = rows.iter().map(|r| format!("({})", r.iter().map(val_sql).collect::<Vec<_>>().join(", "))).collect();
                v.push(format!("INSERT INTO {} VALUES {}", phys, vs.join(", ")));
            }
            v
        };
        if let Some(p) = self.cache.get(&key) {
            let p = p.clone();
            let stmts = mk(&p);
            return (p, stmts);
        }
        self.counter += 1;
        let phys = format!("{}_{}", name, self.counter);
        let stmts = mk(&phys);
        for s in &stmts {
            self.d.must(s);
        }
        self.cache.insert(key, phys.clone());
        (phys, stmts)
    }

    /// Rewrite q so that schema tables refer to physical tables with `db`'s contents.
    pub fn physicalize(&mut self, q: &Query, db: &DbInst) -> (Query, Vec<String>) {
        let mut q = q.clone();
        let mut setup = Vec::new();
        let mut map: BTreeMap<String, String> = BTreeMap::new();
        for (name, rows) in &db.tables {
            let (p, s) = self.phys_table(name, rows);
            setup.extend(s);
            map.insert(name.clone(), p);
        }
        rename_query(&mut q, &map, &BTreeSet::new());
        (q, setup)
    }
}

fn rename_query(q: &mut Query, map: &BTreeMap<String, String>, shadow: &BTreeSet<String>) {
    let mut shadow = shadow.clone();
    let ctes: &mut Vec<Cte> = &mut q.ctes;
    for c in ctes.iter_mut() {
        rename_query(&mut c.q, map, &shadow);
        shadow.insert(c.name.clone());
    }
    match &mut q.body {
        Body::Select(s) => {
            if let Some(f) = &mut s.from {
                rename_from(f, map, &shadow);
            }
            for it in &mut s.items {
                if let Item::Expr(e, _) = it {
                    rename_expr(e, map, &shadow);
                }
            }
            if let Some(w) = &mut s.where_ {
                rename_expr(w, map, &shadow);
            }
            if let Some(h) = &mut s.having {
                rename_expr(h, map, &shadow);
            }
        }
        Body::Union { l, r, .. } => {
            rename_query(l, map, &shadow);
            rename_query(r, map, &shadow);
        }
    }
}

fn rename_from(f: &mut From, map: &BTreeMap<String, String>, shadow: &BTreeSet<String>) {
    match f {
        From::Table { name, alias } => {
            if shadow.contains(name) {
                return;
            }
            if let Some(p) = map.get(name) {
                if alias.is_none() {
                    *alias = Some(name.clone());
                }
                *name = p.clone();
            }
        }
        From::Values { .. } => {}
        From::Sub { q, .. } => rename_query(q, map, shadow),
        From::Join { l, r, on, .. } => {
            rename_from(l, map, shadow);
            rename_from(r, map, shadow);
            if let Some(e) = on {
                rename_expr(e, map, shadow);
            }
        }
    }
}

fn rename_expr(e: &mut E, map: &BTreeMap<String, String>, shadow: &BTreeSet<String>) {
    match e {
        E::Bin(_, l, r) => {
            rename_expr(l, map, shadow);
            rename_expr(r, map, shadow);
        }
        E::Not(x) | E::Neg(x) | E::IsNull(x, _) | E::Grouping(x) | E::CastAs(x, _) => rename_expr(x, map, shadow),
        E::Case(arms, els) => {
            for (c, v) in arms {
                rename_expr(c, map, shadow);
                rename_expr(v, map, shadow);
            }
            if let Some(x) = els {
                rename_expr(x, map, shadow);
            }
        }
        E::Coalesce(v) => v.iter_mut().for_each(|x| rename_expr(x, map, shadow)),
        E::Between(a, b, c, _) => {
            rename_expr(a, map, shadow);
            rename_expr(b, map, shadow);
            rename_expr(c, map, shadow);
        }
        E::InList(x, l, _) => {
            rename_expr(x, map, shadow);
            l.iter_mut().for_each(|y| rename_expr(y, map, shadow));
        }
        E::Agg { arg, filter, .. } => {
            if let Some(a) = arg {
                rename_expr(a, map, shadow);
            }
            if let Some(f) = filter {
                rename_expr(f, map, shadow);
            }
        }
        E::Scalar(q) | E::Exists(q, _) => rename_query(q, map, shadow),
        E::InQ(x, q, _) | E::Quant(_, _, x, q) => {
            rename_expr(x, map, shadow);
            rename_query(q, map, shadow);
        }
        _ => {}
    }
}

/// One failing case before blame attribution.
#[derive(Clone, Debug)]
pub struct RawFail {
    pub term_idx: usize,
    pub class: String,
    pub replay: Replay,
}

pub fn outcome_fail_class(o: &Outcome) -> Option<String> {
    match o {
        Outcome::Panic { loc, msg } => Some(panic_class(loc, msg)),
        Outcome::Hang { .. } => Some("hang".into()),
        Outcome::Abort { .. } => Some("abort".into()),
        _ => None,
    }
}

/// Attribute failures to the innermost failing sub-term with the same class:
/// key = `<check>|<class>|<root shape>`.
pub fn blame(check: &str, terms: &[Term], fails: &[RawFail]) -> Vec<(String, Replay)> {
    // failing (shape, class) set
    let mut failing: BTreeSet<(String, String)> = BTreeSet::new();
    for f in fails {
        failing.insert((terms[f.term_idx].shape.clone(), f.class.clone()));
    }
    let failing_shapes_by_class: BTreeMap<String, BTreeSet<String>> = {
        let mut m: BTreeMap<String, BTreeSet<String>> = BTreeMap::new();
        for (s, c) in &failing {
            m.entry(c.clone()).or_default().insert(s.clone());
        }
        m
    };
    let mut out = Vec::new();
    for f in fails {
        let shape = &terms[f.term_idx].shape;
        let set = &failing_shapes_by_class[&f.class];
        // innermost failing sub-shape: the shortest failing shape that is a substring of this shape
        let mut root = shape.clone();
        for s in set {
            if s.len() < root.len() && shape.contains(s.as_str()) {
                root = s.clone();
            }
        }
        out.push((format!("{}|{}|{}", check, f.class, shape_sig(&root)), f.replay.clone()));
    }
    out
}

/// Abstract a shape to operator + heads of its arguments:
/// `join:left:eq(filter:eq1(t),u)` -> `join:left:eq(filter:eq1,u)`;
/// `order:1asc<union(u,t)>` -> `order:1asc<union(u,t)>` (wrappers keep one more level).
pub fn shape_sig(shape: &str) -> String {
    fn head(s: &str) -> &str {
        let end = s.find(|c| c == '(' || c == '<').unwrap_or(s.len());
        &s[..end]
    }
    fn split_args(s: &str) -> Vec<&str> {
        let mut out = Vec::new();
        let mut depth = 0i32;
        let mut start = 0;
        for (i, c) in s.char_indices() {
            match c {
                '(' | '<' => depth += 1,
                ')' | '>' => depth -= 1,
                ',' if depth == 0 => {
                    out.push(&s[start..i]);
                    start = i + 1;
                }
                _ => {}
            }
        }
        out.push(&s[start..]);
        out
    }
    let h = head(shape);
    if h.len() == shape.len() {
        return shape.to_string();
    }
    let open = shape.as_bytes()[h.len()] as char;
    let inner = &shape[h.len() + 1..shape.len() - 1];
    if open == '<' {
        return format!("{}<{}>", h, shape_sig(inner));
    }
    let args: Vec<String> = split_args(inner).iter().map(|a| head(a).to_string()).collect();
    format!("{}({})", h, args.join(","))
}
