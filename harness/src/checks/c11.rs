//! C11 - scan pushdown (projection, filter, statistics pruning) and multi-file scans only skip work.
//!
//! Part A: Parquet files written by pqgen (3 columns, 3 row groups, every statistics configuration the
//! writer can produce) x every predicate of a small grammar over the column under test x projection lists:
//! the scan with everything pushed down must return the rows that "read everything, then filter" returns
//! (a TEMP-table copy of the file, whose contents are first compared with the rows given to the writer),
//! and the rows of the scan with the optimizer (= every pushdown) switched off; for constants that are
//! members of the column's alphabet the expected row ids are also computed by the harness itself.
//! Part B: VerifFs trees x glob patterns / file lists x partitions x reader: the scan of a pattern returns
//! the multiset union of the single-file scans of exactly the files a reference glob matcher selects.
use std::collections::{BTreeMap, BTreeSet};

use serde_json::json;

use super::rel::outcome_fail_class;
use crate::drv::{Driver, Outcome, sql_str};
use crate::infra::{Replay, Report, Tier, msg_template, par_run};
use crate::pqgen::*;
use crate::val::{Row, bag};

#[derive(Clone)]
struct TypeSpec {
    name: &'static str,
    phys: Phys,
    logical: Logical,
    /// 5 values ascending in the logical order of the type
    alpha: Vec<PV>,
    /// SQL literal of each alphabet value
    lits: Vec<String>,
    /// further constants: (SQL, position in the order: rank*2 = equal to alpha[rank], rank*2+1 = strictly between alpha[rank] and alpha[rank+1], -1 = below all)
    /// None = no harness-side expectation (implicit cast / non-finite / other type)
    extras: Vec<(String, Option<i32>)>,
    /// harness computes expected ids for comparisons (exact, totally ordered types only)
    rm: bool,
    /// SQL name of the column's engine type: every alphabet constant is also rendered as CAST(k AS type), so that
    /// `a = k` compares a bare column with a constant of its own type (the form the scan-filter pushdown accepts)
    sql_type: &'static str,
}

fn i32s(v: [i64; 5]) -> Vec<PV> {
    v.iter().map(|x| PV::I32(*x as u32 as i32)).collect()
}

fn ex(s: &str, pos: Option<i32>) -> (String, Option<i32>) {
    (s.to_string(), pos)
}

fn type_specs() -> Vec<TypeSpec> {
    let mut v = Vec::new();
    let num = |name: &'static str, phys, logical, alpha: Vec<PV>, lits: Vec<&str>, extras: Vec<(String, Option<i32>)>| TypeSpec {
        name,
        phys,
        logical,
        alpha,
        lits: lits.into_iter().map(|s| s.to_string()).collect(),
        extras,
        // UInt64 columns are compared with BIGINT literals through a lossy implicit cast (2^63-1 = 2^63): a C05 matter, no model here
        rm: name != "uint64",
        sql_type: match name {
            "int32" => "INT",
            "int8" => "TINYINT",
            "int16" => "SMALLINT",
            "uint8" => "UTINYINT",
            "uint16" => "USMALLINT",
            "uint32" => "UINT",
            "int64" => "BIGINT",
            "uint64" => "UBIGINT",
            "date" => "DATE",
            "dec9_2" => "DECIMAL(9,2)",
            "dec18_3" => "DECIMAL(18,3)",
            _ => "",
        },
    };
    v.push(num("int32", Phys::Int32, Logical::None, i32s([-2147483648, -1, 0, 7, 2147483647]), vec!["-2147483648", "-1", "0", "7", "2147483647"], vec![ex("-5", Some(1)), ex("3", Some(5)), ex("8", Some(7)), ex("2147483648", Some(9)), ex("-2147483649", Some(-1)), ex("1.5", Some(5)), ex("7.0", Some(6)), ex("7::BIGINT", Some(6)), ex("7::SMALLINT", Some(6)), ex("'7'", None)]));
    v.push(num("int8", Phys::Int32, Logical::Int8, i32s([-128, -1, 0, 5, 127]), vec!["-128", "-1", "0", "5", "127"], vec![ex("-129", Some(-1)), ex("128", Some(9)), ex("300", Some(9)), ex("3", Some(5)), ex("261", Some(9)), ex("5::INT", Some(6)), ex("-251", Some(-1))]));
    v.push(num("int16", Phys::Int32, Logical::Int16, i32s([-32768, -1, 0, 300, 32767]), vec!["-32768", "-1", "0", "300", "32767"], vec![ex("40000", Some(9)), ex("3", Some(5)), ex("65836", Some(9)), ex("-32769", Some(-1))]));
    v.push(num("uint8", Phys::Int32, Logical::UInt8, i32s([0, 1, 127, 128, 255]), vec!["0", "1", "127", "128", "255"], vec![ex("-1", Some(-1)), ex("256", Some(9)), ex("3", Some(3)), ex("200", Some(7)), ex("257", Some(9)), ex("-128", Some(-1))]));
    v.push(num("uint16", Phys::Int32, Logical::UInt16, i32s([0, 1, 32767, 32768, 65535]), vec!["0", "1", "32767", "32768", "65535"], vec![ex("-1", Some(-1)), ex("65536", Some(9)), ex("40000", Some(7)), ex("-32768", Some(-1))]));
    v.push(num("uint32", Phys::Int32, Logical::UInt32, i32s([0, 1, 2147483647, 2147483648, 4294967295]), vec!["0", "1", "2147483647", "2147483648", "4294967295"], vec![ex("-1", Some(-1)), ex("4294967296", Some(9)), ex("3000000000", Some(7)), ex("5", Some(3)), ex("-2147483648", Some(-1))]));
    v.push(num("int64", Phys::Int64, Logical::None, vec![PV::I64(i64::MIN), PV::I64(-1), PV::I64(0), PV::I64(1), PV::I64(i64::MAX)], vec!["-9223372036854775808", "-1", "0", "1", "9223372036854775807"], vec![ex("5", Some(7)), ex("-5", Some(1)), ex("0.5", Some(5))]));
    v.push(num("uint64", Phys::Int64, Logical::UInt64, vec![PV::I64(0), PV::I64(1), PV::I64(i64::MAX), PV::I64(i64::MIN), PV::I64(-1)], vec!["0", "1", "9223372036854775807", "9223372036854775808", "18446744073709551615"], vec![ex("-1", Some(-1)), ex("5", Some(3)), ex("10000000000000000000", Some(7))]));
    v.push(num("date", Phys::Int32, Logical::Date, i32s([-719162, -1, 0, 19782, 2932896]), vec!["DATE '0001-01-01'", "DATE '1969-12-31'", "DATE '1970-01-01'", "DATE '2024-02-29'", "DATE '9999-12-31'"], vec![ex("DATE '2000-01-01'", Some(5)), ex("DATE '1969-12-30'", Some(1)), ex("'2024-02-29'", None)]));
    v.push(num("dec9_2", Phys::Int32, Logical::Decimal(9, 2), i32s([-999999999, -1, 0, 150, 999999999]), vec!["-9999999.99", "-0.01", "0.00", "1.50", "9999999.99"], vec![ex("1.5", Some(6)), ex("1", Some(5)), ex("2", Some(7)), ex("1.505", Some(7)), ex("0", Some(4)), ex("-0.005", Some(3))]));
    v.push(num("dec18_3", Phys::Int64, Logical::Decimal(18, 3), vec![PV::I64(-999999999999999999), PV::I64(-1), PV::I64(0), PV::I64(1500), PV::I64(999999999999999999)], vec!["-999999999999999.999", "-0.001", "0.000", "1.500", "999999999999999.999"], vec![ex("1.5", Some(6)), ex("2", Some(7)), ex("1.5005", Some(7))]));
    v.push(TypeSpec { name: "float", phys: Phys::Float, logical: Logical::None, alpha: vec![PV::F32(-1.5), PV::F32(0.0), PV::F32(2.5), PV::F32(f32::INFINITY), PV::F32(f32::NAN)], lits: ["-1.5::REAL", "0.0::REAL", "2.5::REAL", "'Infinity'::REAL", "'NaN'::REAL"].iter().map(|s| s.to_string()).collect(), extras: vec![ex("1.0", None), ex("2.5", None), ex("-0.0::REAL", None), ex("3", None)], rm: false, sql_type: "" });
    v.push(TypeSpec { name: "double", phys: Phys::Double, logical: Logical::None, alpha: vec![PV::F64(f64::NEG_INFINITY), PV::F64(-0.0), PV::F64(2.5), PV::F64(1.7e308), PV::F64(f64::NAN)], lits: ["'-Infinity'::DOUBLE", "-0.0::DOUBLE", "2.5::DOUBLE", "1.7e308::DOUBLE", "'NaN'::DOUBLE"].iter().map(|s| s.to_string()).collect(), extras: vec![ex("0.0", None), ex("2.5", None), ex("3", None)], rm: false, sql_type: "" });
    let strs = ["", "a", "b", "long-string-over-12-bytes", "é"];
    v.push(TypeSpec { name: "utf8", phys: Phys::ByteArray, logical: Logical::Utf8, alpha: strs.iter().map(|s| PV::Bytes(s.as_bytes().to_vec())).collect(), lits: strs.iter().map(|s| sql_str(s)).collect(), extras: vec![ex("'aa'", Some(3)), ex("'c'", Some(5)), ex("'z'", Some(7)), ex("'long'", Some(5)), ex("'\u{10FFFF}'", Some(9))], rm: true, sql_type: "" });
    v.push(TypeSpec { name: "bool", phys: Phys::Boolean, logical: Logical::None, alpha: vec![PV::Bool(false), PV::Bool(false), PV::Bool(false), PV::Bool(true), PV::Bool(true)], lits: ["false", "false", "false", "true", "true"].iter().map(|s| s.to_string()).collect(), extras: vec![], rm: false, sql_type: "" });
    v
}

/// row -> index into alpha (None = NULL); 12 rows, row groups of 4
fn layouts() -> Vec<(&'static str, Vec<Option<usize>>)> {
    vec![
        // disjoint ranges + a NULL-only row group
        ("disjoint+nullrg", vec![Some(0), Some(1), None, Some(1), None, None, None, None, Some(3), Some(4), Some(2), Some(3)]),
        // single-value group, fully overlapping group, interleaved group
        ("overlap", vec![Some(2), Some(2), Some(2), Some(2), Some(0), Some(4), None, Some(2), Some(1), Some(3), Some(1), Some(3)]),
        // descending groups, extremes at group borders
        ("descending", vec![Some(4), Some(3), Some(4), None, Some(2), Some(2), Some(3), Some(1), Some(0), None, Some(0), Some(1)]),
    ]
}

#[derive(Clone)]
struct PushCase {
    ty: TypeSpec,
    layout: usize,
    stats: StatsMode,
    enc_dict: bool,
    rgs: Vec<usize>,
}

fn push_cases(tier: Tier) -> Vec<PushCase> {
    let mut out = Vec::new();
    for ty in type_specs() {
        for (li, _) in layouts().iter().enumerate() {
            for stats in [StatsMode::Exact, StatsMode::Absent, StatsMode::Inexact, StatsMode::DeprecatedOnly] {
                // row-group layouts: 3 groups of 4; thorough adds 12 groups of 1 and one group of 12 and 5+7
                let rg_opts: Vec<Vec<usize>> = if tier.is_thorough() { vec![vec![4], vec![1], vec![12], vec![5, 7]] } else { vec![vec![4]] };
                for rgs in rg_opts {
                    out.push(PushCase { ty: ty.clone(), layout: li, stats, enc_dict: (li + rgs[0]) % 2 == 1, rgs });
                }
            }
        }
    }
    out
}

struct Pred {
    /// the predicate does not mention `a`: always run with every projection (few of them)
    other_col: bool,
    sql: String,
    /// expected ids (column b) when the harness can compute them
    want: Option<Vec<i128>>,
    /// has a pushed-down equality conjunct on `a` (the one form the pruner evaluates)
    eq_form: bool,
}

fn preds(ty: &TypeSpec, rows: &[Option<usize>]) -> Vec<Pred> {
    let mut out = Vec::new();
    // constants: (sql, pos) with pos = 2*rank for members
    let mut consts: Vec<(String, Option<i32>)> = Vec::new();
    for (i, l) in ty.lits.iter().enumerate() {
        if !consts.iter().any(|(s, _)| s == l) {
            // for bool the alphabet has repeated members: rank of the first occurrence is not usable for ordering
            consts.push((l.clone(), if ty.rm { Some(2 * i as i32) } else { None }));
        }
    }
    if !ty.sql_type.is_empty() && !ty.sql_type.starts_with("DATE") {
        for (i, l) in ty.lits.iter().enumerate() {
            consts.push((format!("CAST({l} AS {})", ty.sql_type), if ty.rm { Some(2 * i as i32) } else { None }));
        }
    }
    consts.extend(ty.extras.iter().cloned());
    let ids = |f: &dyn Fn(i32) -> bool| -> Vec<i128> { rows.iter().enumerate().filter(|(_, r)| r.map(|k| f(2 * k as i32)).unwrap_or(false)).map(|(i, _)| i as i128).collect() };
    let ops: [(&str, fn(i32, i32) -> bool); 6] = [("=", |a, k| a == k), ("<>", |a, k| a != k), ("<", |a, k| a < k), ("<=", |a, k| a <= k), (">", |a, k| a > k), (">=", |a, k| a >= k)];
    let flip = |op: &str| match op {
        "<" => ">",
        "<=" => ">=",
        ">" => "<",
        ">=" => "<=",
        o => o,
    }
    .to_string();
    for (c, pos) in &consts {
        for (op, f) in ops.iter() {
            let want = if ty.rm { pos.map(|k| ids(&|a| f(a, k))) } else { None };
            out.push(Pred { other_col: false, sql: format!("a {op} {c}"), want: want.clone(), eq_form: *op == "=" });
            out.push(Pred { other_col: false, sql: format!("{c} {} a", flip(op)), want, eq_form: *op == "=" });
        }
        let w_eq = if ty.rm { pos.map(|k| ids(&|a| a == k)) } else { None };
        out.push(Pred { other_col: false, sql: format!("a IS NOT DISTINCT FROM {c}"), want: w_eq.clone(), eq_form: false });
        out.push(Pred { other_col: false, sql: format!("NOT (a = {c})"), want: if ty.rm { pos.map(|k| ids(&|a| a != k)) } else { None }, eq_form: false });
        out.push(Pred { other_col: false, sql: format!("a = {c} AND a IS NOT NULL"), want: w_eq.clone(), eq_form: true });
        out.push(Pred { other_col: false, sql: format!("a = {c} AND b >= 0"), want: w_eq.clone(), eq_form: true });
        out.push(Pred { other_col: false, sql: format!("b >= 0 AND {c} = a"), want: w_eq.clone(), eq_form: true });
        for bk in [1, 5, 9, 10] {
            out.push(Pred { other_col: false, sql: format!("a = {c} AND b = {bk}"), want: w_eq.as_ref().map(|w| w.iter().cloned().filter(|x| *x == bk).collect()), eq_form: true });
        }
        out.push(Pred { other_col: false, sql: format!("a = {c} OR b = 6"), want: w_eq.as_ref().map(|w| { let mut v = w.clone(); if !v.contains(&6) { v.push(6); } v.sort(); v }), eq_form: false });
        out.push(Pred { other_col: false, sql: format!("a = {c} OR a IS NULL"), want: None, eq_form: false });
        out.push(Pred { other_col: false, sql: format!("a = {c} AND s = 's1'"), want: None, eq_form: true });
        out.push(Pred { other_col: false, sql: format!("(a = {c}) IS NOT TRUE"), want: None, eq_form: false });
    }
    for i in 0..consts.len() {
        for j in 0..consts.len() {
            let (c1, p1) = &consts[i];
            let (c2, p2) = &consts[j];
            let both = if ty.rm { p1.zip(*p2) } else { None };
            if i <= j {
                out.push(Pred { other_col: false, sql: format!("a BETWEEN {c1} AND {c2}"), want: both.map(|(k1, k2)| ids(&|a| a >= k1 && a <= k2)), eq_form: false });
            }
            if i < j {
                out.push(Pred { other_col: false, sql: format!("a IN ({c1}, {c2})"), want: both.map(|(k1, k2)| ids(&|a| a == k1 || a == k2)), eq_form: false });
                out.push(Pred { other_col: false, sql: format!("a = {c1} AND a = {c2}"), want: both.map(|(k1, k2)| ids(&|a| a == k1 && a == k2)), eq_form: true });
                out.push(Pred { other_col: false, sql: format!("a = {c1} OR a = {c2}"), want: both.map(|(k1, k2)| ids(&|a| a == k1 || a == k2)), eq_form: false });
                out.push(Pred { other_col: false, sql: format!("a >= {c1} AND a < {c2}"), want: both.map(|(k1, k2)| ids(&|a| a >= k1 && a < k2)), eq_form: false });
            }
        }
    }
    out.push(Pred { other_col: false, sql: "a IS NULL".into(), want: Some(rows.iter().enumerate().filter(|(_, r)| r.is_none()).map(|(i, _)| i as i128).collect()), eq_form: false });
    out.push(Pred { other_col: false, sql: "a IS NOT NULL".into(), want: Some(rows.iter().enumerate().filter(|(_, r)| r.is_some()).map(|(i, _)| i as i128).collect()), eq_form: false });
    out.push(Pred { other_col: false, sql: "a = NULL".into(), want: Some(vec![]), eq_form: true });
    out.push(Pred { other_col: false, sql: "a = a".into(), want: None, eq_form: false });
    for bk in [0, 3, 4, 7, 8, 11, 12, -1, 106] {
        out.push(Pred { other_col: true, sql: format!("b = {bk}"), want: Some((0..12).filter(|x| *x == bk).map(|x| x as i128).collect()), eq_form: true });
    }
    for ck in [100, 103, 106, 111, 5, 112] {
        out.push(Pred { other_col: true, sql: format!("c = {ck}"), want: Some((0..12).filter(|x| 100 + (11 - *x) == ck).map(|x| x as i128).collect()), eq_form: true });
    }
    out.push(Pred { other_col: true, sql: "b = 5 AND c = 106".into(), want: Some(vec![5]), eq_form: true });
    out.push(Pred { other_col: true, sql: "c = 106 AND s = 's2'".into(), want: Some(vec![5]), eq_form: true });
    out.push(Pred { other_col: true, sql: "b = 5 AND b = 6".into(), want: Some(vec![]), eq_form: true });
    out.push(Pred { other_col: true, sql: "s = 's1'".into(), want: None, eq_form: true });
    out.push(Pred { other_col: true, sql: "s = 'zz'".into(), want: None, eq_form: true });
    out.push(Pred { other_col: true, sql: "b = 5 AND s = 's2'".into(), want: None, eq_form: true });
    out.push(Pred { other_col: false, sql: "true".into(), want: Some((0..12).collect()), eq_form: false });
    out.push(Pred { other_col: false, sql: "false".into(), want: Some(vec![]), eq_form: false });
    out
}

const PROJS: &[&str] = &["b", "b, a", "*", "a", "s, b", "a, a, b", "b, s, a", "s", "count(*)", "b + 1, a", "count(a), min(b), max(b)", "b, c", "c, b", "c", "b, a2", "a2, c", "s, c, b", "a2"];

#[derive(Default)]
struct Res {
    evals: u64,
    nontrivial: u64,
    pruned_empty: u64,
    rm_checked: u64,
    asym: u64,
    outcomes: BTreeSet<String>,
    fails: Vec<(String, Replay)>,
    sample: Option<String>,
}

fn build_file(pc: &PushCase) -> (Vec<u8>, Vec<Row>, Vec<Option<usize>>) {
    let rows = layouts()[pc.layout].1.clone();
    let a_vals: Vec<Option<PV>> = rows.iter().map(|r| r.map(|k| pc.ty.alpha[k].clone())).collect();
    let b_vals: Vec<Option<PV>> = (0..12).map(|i| Some(PV::I32(i))).collect();
    let s_vals: Vec<Option<PV>> = (0..12).map(|i| if i == 4 { None } else { Some(PV::Bytes(format!("s{}", i % 3).into_bytes())) }).collect();
    let enc_a = if pc.enc_dict && pc.ty.phys != Phys::Boolean { Enc::Dict } else { Enc::Plain };
    // c: same type as b with ranges disjoint from b's in every row group; a2: same type as a, reversed layout.
    // A filter handed to the wrong column's statistics (position in the projection vs column index) prunes wrongly.
    let c_vals: Vec<Option<PV>> = (0..12).map(|i| Some(PV::I32(100 + (11 - i)))).collect();
    let a2_vals: Vec<Option<PV>> = (0..12).map(|i| rows[11 - i].map(|k| pc.ty.alpha[k].clone())).collect();
    let cols = vec![
        Column { name: "a".into(), phys: pc.ty.phys, logical: pc.ty.logical, optional: true, values: a_vals, enc: enc_a, old_dict_id: false, v2: pc.layout % 2 == 1, codec: Codec::None, levels: LevelMode::Rle, stats: pc.stats, page_rows: vec![3] },
        Column { name: "b".into(), phys: Phys::Int32, logical: Logical::None, optional: false, values: b_vals, enc: Enc::Plain, old_dict_id: false, v2: false, codec: Codec::None, levels: LevelMode::Rle, stats: pc.stats, page_rows: vec![4] },
        Column { name: "s".into(), phys: Phys::ByteArray, logical: Logical::Utf8, optional: true, values: s_vals, enc: Enc::Dict, old_dict_id: false, v2: false, codec: Codec::None, levels: LevelMode::Rle, stats: pc.stats, page_rows: vec![5] },
        Column { name: "c".into(), phys: Phys::Int32, logical: Logical::None, optional: false, values: c_vals, enc: Enc::Plain, old_dict_id: false, v2: false, codec: Codec::None, levels: LevelMode::Rle, stats: pc.stats, page_rows: vec![4] },
        Column { name: "a2".into(), phys: pc.ty.phys, logical: pc.ty.logical, optional: true, values: a2_vals, enc: Enc::Plain, old_dict_id: false, v2: false, codec: Codec::None, levels: LevelMode::Rle, stats: pc.stats, page_rows: vec![6] },
    ];
    let (bytes, _) = write_file(&cols, &pc.rgs);
    let want: Vec<Row> = (0..12).map(|i| cols.iter().map(|c| expected_val(c.phys, c.logical, &c.values[i])).collect()).collect();
    (bytes, want, rows)
}

/// errors raised by evaluating an expression on a row (cast / arithmetic), as opposed to errors of the scan machinery
fn is_eval_error(msg: &str) -> bool {
    let m = msg.to_ascii_lowercase();
    ["failed cast", "failed to cast", "overflow", "out of range", "failed to parse", "division by zero", "divide by zero"].iter().any(|p| m.contains(p))
}

fn norm_rows(r: &[Row]) -> Vec<Row> {
    bag(&r.iter().map(|row| row.iter().map(|v| v.norm()).collect()).collect::<Vec<Row>>())
}

fn check_push(d: &mut Driver, pc: &PushCase, tier: Tier, res: &mut Res) {
    if d.dirty {
        *d = Driver::new();
    }
    let (bytes, want, rows) = build_file(pc);
    let site = format!("{}/{:?}", pc.ty.name, pc.stats);
    let name = format!("{}/{}/{:?}/rg{:?}", pc.ty.name, layouts()[pc.layout].0, pc.stats, pc.rgs);
    if res.sample.is_none() {
        res.sample = Some(name.clone());
    }
    d.fs.clear_files();
    d.fs.put("f.parquet", bytes.clone());
    d.fs.set_script(BTreeMap::new());
    let setup = ["SET partitions TO 1", "SET batch_size TO 2048", "SET enable_optimizer TO true", "DROP TABLE IF EXISTS m", "CREATE TEMP TABLE m AS SELECT * FROM read_parquet('f.parquet')"];
    let mk = |steps: Vec<String>, expected: String, observed: String| Replay { check: "C11".into(), files: vec![("f.parquet".into(), bytes.clone())], steps: steps.into_iter().map(|s| (0usize, s)).collect(), expected, observed, note: name.clone(), ..Default::default() };
    for s in setup {
        let o = d.q(s);
        if !o.is_rows() {
            res.fails.push((format!("C11|setup:{}|{site}", outcome_fail_class(&o).unwrap_or_else(|| format!("error:{}", msg_template(&o.brief())))), mk(vec![s.to_string()], "rows".into(), o.brief())));
            return;
        }
    }
    // the copy holds the rows given to the writer
    match d.q("SELECT * FROM m ORDER BY b") {
        Outcome::Rows(r) if norm_rows(&r.rows) == norm_rows(&want) => {}
        o => {
            res.fails.push((format!("C11|copy-differs|{site}"), mk(setup.iter().map(|s| s.to_string()).chain(["SELECT * FROM m ORDER BY b".to_string()]).collect(), crate::val::fmt_rows(&want, 12), o.brief())));
            return;
        }
    }
    let ps = preds(&pc.ty, &rows);
    let full = tier.is_thorough();
    for (pi, p) in ps.iter().enumerate() {
        // projections: all in thorough; in quick "b" + two rotating ones
        let projs: Vec<&str> = if full || p.other_col { PROJS.to_vec() } else { vec![PROJS[0], PROJS[1 + pi % (PROJS.len() - 1)], PROJS[1 + (pi / 3 + 5) % (PROJS.len() - 1)]] };
        for proj in projs {
            if d.dirty {
                return;
            }
            let q_ref = format!("SELECT {proj} FROM m WHERE {}", p.sql);
            let q_pq = format!("SELECT {proj} FROM read_parquet('f.parquet') WHERE {}", p.sql);
            let o_ref = d.q(&q_ref);
            res.evals += 1;
            // harness-side expectation on the reference (anchors the differential to the known rows)
            if let (Some(w), "b", Outcome::Rows(r)) = (&p.want, proj, &o_ref) {
                let got: Vec<i128> = { let mut g: Vec<i128> = r.rows.iter().filter_map(|x| x[0].as_int()).collect(); g.sort(); g };
                let mut w2 = w.clone();
                w2.sort();
                res.rm_checked += 1;
                if got != w2 {
                    res.fails.push((format!("C11|filter-differs-from-model|{}", pc.ty.name), mk(setup.iter().map(|s| s.to_string()).chain([q_ref.clone()]).collect(), format!("ids {w2:?}"), format!("ids {got:?}"))));
                    continue;
                }
            }
            let mut variants: Vec<(Vec<String>, &str)> = vec![(vec![], "pushdown"), (vec!["SET enable_optimizer TO false".into()], "optimizer-off")];
            if full || pi % 4 == 0 {
                variants.push((vec!["SET partitions TO 3".into()], "p3"));
                variants.push((vec!["SET batch_size TO 3".into()], "bs3"));
            }
            for (sets, vname) in variants {
                for s in &sets {
                    d.must(s);
                }
                let o = d.q(&q_pq);
                res.evals += 1;
                for s in &sets {
                    let reset = if s.contains("optimizer") { "SET enable_optimizer TO true" } else if s.contains("partitions") { "SET partitions TO 1" } else { "SET batch_size TO 2048" };
                    if !d.dirty {
                        d.must(reset);
                    }
                }
                res.outcomes.insert(o.class().to_string());
                let steps = || -> Vec<String> { sets.iter().cloned().chain([q_pq.clone()]).collect() };
                if let Some(c) = outcome_fail_class(&o) {
                    res.fails.push((format!("C11|{c}|{site}"), mk(steps(), o_ref.brief(), o.brief())));
                    continue;
                }
                match (&o_ref, &o) {
                    (Outcome::Rows(a), Outcome::Rows(b)) => {
                        if a.types != b.types || a.names != b.names {
                            res.fails.push((format!("C11|schema-differs:{vname}|{site}"), mk(steps(), format!("{:?} {:?}", a.names, a.types), format!("{:?} {:?}", b.names, b.types))));
                        } else if norm_rows(&a.rows) != norm_rows(&b.rows) {
                            let form = if p.eq_form { "eq" } else { "other" };
                            res.fails.push((format!("C11|rows-differ:{vname}:{form}|{site}"), mk(steps(), format!("{} (same query over a TEMP-table copy of the file)", crate::val::fmt_rows(&a.rows, 12)), crate::val::fmt_rows(&b.rows, 12))));
                        } else {
                            if !a.rows.is_empty() {
                                res.nontrivial += 1;
                            } else {
                                res.pruned_empty += 1;
                            }
                        }
                    }
                    (Outcome::Error { .. }, Outcome::Error { .. }) => {}
                    (Outcome::Rows(_), Outcome::Error { phase: crate::drv::Phase::Exec, msg }) | (Outcome::Error { phase: crate::drv::Phase::Exec, msg }, Outcome::Rows(_)) if is_eval_error(msg) => {
                        // a run-time evaluation error (e.g. a failing cast of one row) that only the plan which evaluates
                        // the expression on that row raises: skipping work legitimately skips the error
                        res.asym += 1;
                    }
                    (Outcome::Rows(_), Outcome::Error { msg, .. }) | (Outcome::Error { msg, .. }, Outcome::Rows(_)) => {
                        res.fails.push((format!("C11|one-sided-error:{vname}:{}|{site}", msg_template(msg)), mk(steps(), o_ref.brief(), o.brief())));
                    }
                    _ => {}
                }
            }
        }
    }
}

// ------------------------------------------------------------------ part B: multi-file

/// reference glob matcher for one path segment: `*`, `?`, `[...]` (ranges, leading `!`/`^` negation), `{a,b}`
fn seg_match(pat: &[char], s: &[char]) -> bool {
    if pat.is_empty() {
        return s.is_empty();
    }
    match pat[0] {
        '*' => (0..=s.len()).any(|k| seg_match(&pat[1..], &s[k..])),
        '?' => !s.is_empty() && seg_match(&pat[1..], &s[1..]),
        '[' => {
            if let Some(end) = pat.iter().position(|c| *c == ']') {
                if s.is_empty() {
                    return false;
                }
                let mut set = &pat[1..end];
                let neg = !set.is_empty() && (set[0] == '!' || set[0] == '^');
                if neg {
                    set = &set[1..];
                }
                let mut hit = false;
                let mut i = 0;
                while i < set.len() {
                    if i + 2 < set.len() && set[i + 1] == '-' {
                        if set[i] <= s[0] && s[0] <= set[i + 2] {
                            hit = true;
                        }
                        i += 3;
                    } else {
                        if set[i] == s[0] {
                            hit = true;
                        }
                        i += 1;
                    }
                }
                hit != neg && seg_match(&pat[end + 1..], &s[1..])
            } else {
                !s.is_empty() && s[0] == '[' && seg_match(&pat[1..], &s[1..])
            }
        }
        '{' => {
            if let Some(end) = pat.iter().position(|c| *c == '}') {
                let inner: String = pat[1..end].iter().collect();
                inner.split(',').any(|alt| {
                    let mut p: Vec<char> = alt.chars().collect();
                    p.extend_from_slice(&pat[end + 1..]);
                    seg_match(&p, s)
                })
            } else {
                false
            }
        }
        c => !s.is_empty() && s[0] == c && seg_match(&pat[1..], &s[1..]),
    }
}

/// match a whole path against a pattern; `zero_ok`: whether `**` may match zero directories
fn path_match(pat: &[&str], path: &[&str], zero_ok: bool) -> bool {
    if pat.is_empty() {
        return path.is_empty();
    }
    if pat[0] == "**" {
        if pat.len() == 1 {
            // everything below
            return !path.is_empty();
        }
        let start = if zero_ok { 0 } else { 1 };
        return (start..path.len()).any(|k| path_match(&pat[1..], &path[k..], zero_ok));
    }
    if path.is_empty() {
        return false;
    }
    let p: Vec<char> = pat[0].chars().collect();
    let s: Vec<char> = path[0].chars().collect();
    seg_match(&p, &s) && path_match(&pat[1..], &path[1..], zero_ok)
}

fn glob_ref(pattern: &str, files: &[String], zero_ok: bool) -> Vec<String> {
    let pat: Vec<&str> = pattern.split('/').filter(|s| !s.is_empty() && *s != ".").collect();
    files.iter().filter(|f| path_match(&pat, &f.split('/').collect::<Vec<_>>(), zero_ok)).cloned().collect()
}

struct Tree {
    name: &'static str,
    pq: Vec<&'static str>,
    csv: Vec<&'static str>,
    other: Vec<&'static str>,
}

fn trees() -> Vec<Tree> {
    vec![
        Tree { name: "flat", pq: vec!["a.parquet", "b.parquet", "ab.parquet", "c1.parquet"], csv: vec!["a.csv", "b.csv"], other: vec!["notes.txt"] },
        Tree { name: "nested", pq: vec!["a.parquet", "d1/x.parquet", "d1/y.parquet", "d2/x.parquet", "d1/e/x.parquet", "d1/e/z.parquet"], csv: vec!["a.csv", "d1/x.csv", "d2/x.csv", "d1/e/x.csv"], other: vec!["d2/readme.txt"] },
        Tree { name: "collide", pq: vec!["data/p1.parquet", "data/p2.parquet", "data/p10.parquet", "data/p1.parquet.bak/p1.parquet", "datax/p1.parquet"], csv: vec!["data/p1.csv", "data/p1.csv.d/p1.csv", "datax/p1.csv"], other: vec![] },
    ]
}

fn patterns(tree: &str, ext: &str) -> Vec<String> {
    let mut v: Vec<String> = match tree {
        "flat" => vec!["*.EXT", "a*.EXT", "?.EXT", "[ab].EXT", "[ab]*.EXT", "{a,b}.EXT", "*b.EXT", "[!a].EXT", "[a-c]?.EXT", "nomatch*.EXT", "./*.EXT", "a.EXT", "*", "*.*", "**"],
        "nested" => vec!["*.EXT", "d*/x.EXT", "d1/*.EXT", "*/x.EXT", "*/*.EXT", "**/*.EXT", "d1/**", "**/x.EXT", "d1/**/*.EXT", "d?/?.EXT", "*/*/*.EXT", "d1/e/*.EXT", "**/e/*.EXT", "d[12]/x.EXT", "{d1,d2}/x.EXT", "d3/*.EXT", "**", "d1/*"],
        _ => vec!["data/*.EXT", "data/p?.EXT", "data/p1*.EXT", "data*/p1.EXT", "data/p1.EXT*/p1.EXT", "data/p[0-9].EXT", "data/p[0-9][0-9].EXT", "dat?/*.EXT", "**/p1.EXT", "data/**"],
    }
    .into_iter()
    .map(|s| s.replace("EXT", ext))
    .collect();
    v.dedup();
    v
}

fn pq_file(id: i32) -> Vec<u8> {
    // 3 rows, two row groups; the id identifies the file
    let cols = vec![
        Column { name: "id".into(), phys: Phys::Int32, logical: Logical::None, optional: false, values: (0..3).map(|k| Some(PV::I32(id * 10 + k))).collect(), enc: Enc::Plain, old_dict_id: false, v2: false, codec: Codec::None, levels: LevelMode::Rle, stats: StatsMode::Exact, page_rows: vec![2] },
        Column { name: "v".into(), phys: Phys::ByteArray, logical: Logical::Utf8, optional: true, values: (0..3).map(|k| if k == 1 { None } else { Some(PV::Bytes(format!("f{id}r{k}").into_bytes())) }).collect(), enc: Enc::Plain, old_dict_id: false, v2: false, codec: Codec::None, levels: LevelMode::Rle, stats: StatsMode::Exact, page_rows: vec![3] },
    ];
    write_file(&cols, &[2]).0
}

fn check_multi(d: &mut Driver, tree: &Tree, tier: Tier, res: &mut Res) {
    if d.dirty {
        *d = Driver::new();
    }
    d.fs.clear_files();
    d.fs.set_script(BTreeMap::new());
    let mut all: Vec<String> = Vec::new();
    let mut contents: Vec<(String, Vec<u8>)> = Vec::new();
    let mut k = 0;
    for p in &tree.pq {
        k += 1;
        contents.push((p.to_string(), pq_file(k)));
    }
    for p in &tree.csv {
        k += 1;
        contents.push((p.to_string(), format!("id,v\n{},c{k}a\n{},\n", k * 10, k * 10 + 1).into_bytes()));
    }
    for p in &tree.other {
        contents.push((p.to_string(), b"hello\nworld\n".to_vec()));
    }
    for (p, b) in &contents {
        d.fs.put(p, b.clone());
        all.push(p.clone());
    }
    all.sort();
    let mk = |steps: Vec<String>, expected: String, observed: String| Replay { check: "C11".into(), files: contents.clone(), steps: steps.into_iter().map(|s| (0usize, s)).collect(), expected, observed, note: format!("tree {}", tree.name), ..Default::default() };
    for s in ["SET partitions TO 1", "SET batch_size TO 2048"] {
        d.must(s);
    }
    // single-file reads (reference)
    let mut single: BTreeMap<String, Vec<Row>> = BTreeMap::new();
    for p in tree.pq.iter().chain(tree.csv.iter()) {
        let f = if p.ends_with(".parquet") { "read_parquet" } else { "read_csv" };
        let q = format!("SELECT * FROM {f}({})", sql_str(p));
        match d.q(&q) {
            Outcome::Rows(r) if r.rows.len() >= 2 => {
                single.insert(p.to_string(), r.rows);
            }
            o => {
                res.fails.push((format!("C11|single-file-read|{f}"), mk(vec![q], "rows".into(), o.brief())));
                return;
            }
        }
    }
    let parts: Vec<usize> = if tier.is_thorough() { vec![1, 2, 3, 8] } else { vec![1, 3, 8] };
    for (ext, func) in [("parquet", "read_parquet"), ("csv", "read_csv")] {
        for pat in patterns(tree.name, ext) {
            let has_dstar = pat.split('/').any(|s| s == "**");
            let lower = glob_ref(&pat, &all, false);
            let upper = glob_ref(&pat, &all, true);
            // glob(): the listing itself
            let qg = format!("SELECT * FROM glob({})", sql_str(&pat));
            let og = d.q(&qg);
            res.evals += 1;
            res.outcomes.insert(og.class().to_string());
            let listed: Vec<String> = match &og {
                Outcome::Rows(r) => r.rows.iter().filter_map(|x| x[0].as_str().map(|s| s.trim_start_matches("./").to_string())).collect(),
                Outcome::Error { .. } if upper.is_empty() => vec![],
                o => {
                    let c = outcome_fail_class(o).unwrap_or_else(|| format!("glob-error:{}", msg_template(&o.brief())));
                    res.fails.push((format!("C11|{c}|glob"), mk(vec![qg.clone()], format!("{upper:?}"), o.brief())));
                    continue;
                }
            };
            let mut sorted = listed.clone();
            sorted.sort();
            let mut dedup = sorted.clone();
            dedup.dedup();
            let class = if has_dstar { "doublestar" } else { "plain" };
            if dedup.len() != sorted.len() {
                res.fails.push((format!("C11|glob-lists-a-file-twice|{class}"), mk(vec![qg.clone()], format!("{upper:?}"), format!("{sorted:?}"))));
                continue;
            }
            let ok = lower.iter().all(|f| dedup.contains(f)) && dedup.iter().all(|f| upper.contains(f));
            if !ok {
                res.fails.push((format!("C11|glob-differs-from-reference-matcher|{class}"), mk(vec![qg.clone()], if has_dstar { format!("between {lower:?} and {upper:?}") } else { format!("{upper:?}") }, format!("{sorted:?}"))));
                continue;
            }
            res.nontrivial += (!dedup.is_empty()) as u64;
            // read_*(pattern): union of the single-file reads of the listed files, each once
            if dedup.iter().any(|f| !f.ends_with(ext)) {
                continue; // the pattern selects files of another format: rows-or-error, nothing to compare
            }
            let mut want: Vec<Row> = Vec::new();
            for f in &dedup {
                want.extend(single[f].iter().cloned());
            }
            for &p in &parts {
                if d.dirty {
                    return;
                }
                d.must(&format!("SET partitions TO {p}"));
                let q = format!("SELECT * FROM {func}({})", sql_str(&pat));
                let o = d.q(&q);
                res.evals += 1;
                res.outcomes.insert(o.class().to_string());
                let steps = vec![format!("SET partitions TO {p}"), q.clone()];
                match &o {
                    Outcome::Rows(r) => {
                        if norm_rows(&r.rows) != norm_rows(&want) {
                            res.fails.push((format!("C11|multi-file-rows-differ|{func}:{class}"), mk(steps, format!("union of {dedup:?}: {}", crate::val::fmt_rows(&want, 20)), crate::val::fmt_rows(&r.rows, 20))));
                        } else if !want.is_empty() {
                            res.nontrivial += 1;
                        }
                    }
                    Outcome::Error { .. } if want.is_empty() => {}
                    o2 => {
                        let c = outcome_fail_class(o2).unwrap_or_else(|| format!("spurious-error:{}", msg_template(&o2.brief())));
                        res.fails.push((format!("C11|{c}|{func}:{class}"), mk(steps, format!("union of {dedup:?}"), o2.brief())));
                    }
                }
                // with the file name: every row attributed to the file it came from
                let qf = format!("SELECT _filename, count(*) FROM {func}({}) GROUP BY _filename", sql_str(&pat));
                let of = d.q(&qf);
                res.evals += 1;
                if let Outcome::Rows(r) = &of {
                    let mut got: Vec<(String, i128)> = r.rows.iter().map(|x| (x[0].as_str().unwrap_or("?").trim_start_matches("./").to_string(), x[1].as_int().unwrap_or(-1))).collect();
                    got.sort();
                    let wantf: Vec<(String, i128)> = dedup.iter().map(|f| (f.clone(), single[f].len() as i128)).collect();
                    if got != wantf {
                        res.fails.push((format!("C11|per-file-counts-differ|{func}:{class}"), mk(vec![format!("SET partitions TO {p}"), qf.clone()], format!("{wantf:?}"), format!("{got:?}"))));
                    }
                } else if let Some(c) = outcome_fail_class(&of) {
                    res.fails.push((format!("C11|{c}|{func}:filename"), mk(vec![format!("SET partitions TO {p}"), qf.clone()], "rows".into(), of.brief())));
                }
            }
            d.must("SET partitions TO 1");
        }
        // explicit lists
        let fl: Vec<&str> = if ext == "parquet" { tree.pq.clone() } else { tree.csv.clone() };
        let mut lists: Vec<Vec<&str>> = vec![fl.clone(), fl.iter().rev().cloned().collect(), fl[..1].to_vec()];
        if fl.len() >= 2 {
            lists.push(vec![fl[1], fl[0]]);
        }
        for l in lists {
            let mut want: Vec<Row> = Vec::new();
            for f in &l {
                want.extend(single[*f].iter().cloned());
            }
            for &p in &parts {
                if d.dirty {
                    return;
                }
                d.must(&format!("SET partitions TO {p}"));
                let q = format!("SELECT * FROM {func}([{}])", l.iter().map(|f| sql_str(f)).collect::<Vec<_>>().join(", "));
                let o = d.q(&q);
                res.evals += 1;
                match &o {
                    Outcome::Rows(r) if norm_rows(&r.rows) == norm_rows(&want) => res.nontrivial += 1,
                    o2 => {
                        let c = outcome_fail_class(o2).unwrap_or_else(|| if o2.is_rows() { "multi-file-rows-differ".into() } else { format!("spurious-error:{}", msg_template(&o2.brief())) });
                        res.fails.push((format!("C11|{c}|{func}:list"), mk(vec![format!("SET partitions TO {p}"), q.clone()], crate::val::fmt_rows(&want, 20), o2.brief())));
                    }
                }
            }
            d.must("SET partitions TO 1");
        }
    }
}

pub fn run(tier: Tier) -> i32 {
    let mut rep = Report::new("C11", tier, "exploration");
    let cases = push_cases(tier);
    let ts = trees();
    let n = cases.len();
    let results = par_run(n + ts.len(), Driver::new, |d, i| {
        let mut res = Res::default();
        if i < n {
            check_push(d, &cases[i], tier, &mut res);
        } else {
            check_multi(d, &ts[i - n], tier, &mut res);
        }
        res
    });
    let (mut evals, mut nontriv, mut empty, mut rmc, mut asym) = (0u64, 0u64, 0u64, 0u64, 0u64);
    let mut outcomes = BTreeSet::new();
    let mut samples = Vec::new();
    for rr in results {
        evals += rr.evals;
        nontriv += rr.nontrivial;
        empty += rr.pruned_empty;
        rmc += rr.rm_checked;
        asym += rr.asym;
        outcomes.extend(rr.outcomes);
        if let Some(s) = rr.sample {
            samples.push(s);
        }
        for (k, rp) in rr.fails {
            rep.fail(k, rp);
        }
    }
    let np = preds(&type_specs()[0], &layouts()[0].1).len();
    rep.cov("evaluations", json!(evals));
    rep.cov("distinct_nontrivial", json!(nontriv));
    rep.cov("agreeing_empty_results", json!(empty));
    rep.cov("filters_checked_against_harness_model", json!(rmc));
    rep.cov("permitted_one_sided_runtime_errors", json!(asym));
    rep.cov("files", json!(n));
    rep.cov("predicates_per_file_int32", json!(np));
    rep.cov("rule", json!("part A: 15 column types (8 integer annotations incl. unsigned above the sign bit, DATE, DECIMAL on INT32/INT64, FLOAT/DOUBLE with NaN/Inf/-0, UTF8, BOOLEAN) x 3 value layouts over 3 row groups (disjoint ranges + NULL-only group, overlapping, descending; thorough: also 12x1, 1x12, 5+7 row groups) x statistics {exact, absent, flagged inexact / truncated strings, deprecated min/max only in the old writers' signed order} x every predicate `a op k`, `k op a` (6 comparison operators, IS [NOT] DISTINCT FROM, BETWEEN, IN, AND/OR pairs, conjunctions with the other columns, IS [NOT] NULL, = NULL) over every constant of {the 5 alphabet values, values below / between / above them, constants that force an implicit cast or lie outside the column type} x projection lists (subsets, reorderings, repeats, expressions, aggregates): scan with pushdown = scan with optimizer off = same query over a TEMP-table copy (read everything, filter afterwards), also under 3 partitions and batch size 3; the copy is compared with the rows given to the writer and, for alphabet constants, the filter result with ids computed by the harness. part B: 3 directory trees x ~15 glob patterns each (* ? [..] [!..] {a,b} ** literal prefixes, names that collide with patterns) x {glob(), read_parquet, read_csv} x partitions {1,3,8} (+2 thorough) and explicit file lists in several orders: glob() lists exactly the files of a reference matcher (for `**`: between the one-or-more and the zero-or-more directory reading), each once; the scan returns the multiset union of the single-file scans and per-_filename counts. non-trivial = agreeing non-empty results"));
    rep.cov("distinct_outcomes", json!(outcomes.into_iter().collect::<Vec<_>>()));
    rep.cov("exhaustive", json!(true));
    rep.cov("samples", json!(crate::infra::samples(&samples)));
    rep.assume("statistics that are wrong (not bounds of the chunk's values) are not generated: such a file is not valid");
    rep.assume("`**` is undocumented: any listing between 'one or more directories' and 'zero or more directories' is accepted");
    rep.finish()
}
