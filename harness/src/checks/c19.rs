//! C19 - malformed Parquet/CSV input fails cleanly, never crashes or hangs.
//! For each small valid file: every truncation, every single-byte substitution by
//! six substitutions, every integer metadata field set to seven lies, an I/O error
//! at every read call. Outcome must be rows or error.
use std::collections::{BTreeMap, BTreeSet};

use serde_json::json;

use super::c10::{FileCase, type_alphabet, type_encodings};
use super::rel::outcome_fail_class;
use crate::drv::{Driver, Outcome};
use crate::infra::{Replay, Report, Tier, par_run};
use crate::pqgen::*;
use crate::vfs::Answer;

fn base_files(tier: Tier) -> Vec<FileCase> {
    let mut out = Vec::new();
    for (phys, logical, encs) in type_encodings() {
        if !tier.is_thorough() && !matches!((phys, logical), (Phys::Int32, Logical::None) | (Phys::ByteArray, Logical::Utf8) | (Phys::Double, _) | (Phys::Boolean, _) | (Phys::Int64, Logical::Decimal(..))) {
            continue;
        }
        let alpha = type_alphabet(phys, logical);
        for (ei, enc) in encs.into_iter().enumerate() {
            let vals: Vec<Option<PV>> = (0..7).map(|i| if i == 2 { None } else { Some(alpha[i % alpha.len()].clone()) }).collect();
            let site = format!("{phys:?}/{logical:?}/{enc:?}");
            for (v2, codec) in [(false, Codec::None), (true, Codec::Snappy)] {
                if !tier.is_thorough() && v2 && ei % 2 == 1 {
                    continue;
                }
                out.push(FileCase { name: format!("{site}/v{}/{codec:?}", if v2 { 2 } else { 1 }), site: site.clone(), cols: vec![Column { name: "c".into(), phys, logical, optional: true, values: vals.clone(), enc, old_dict_id: false, v2, codec, levels: LevelMode::Mixed, stats: StatsMode::Exact, page_rows: vec![4] }], row_groups: vec![7] });
            }
        }
    }
    out
}

#[derive(Default)]
struct Res {
    skipped_after_blowup: u64,
    evals: u64,
    rows: u64,
    errors: u64,
    fails: Vec<(String, Replay)>,
}

fn region_of(layout: &Layout, off: usize) -> &'static str {
    if off >= layout.footer.0 {
        return if off >= layout.footer.1 { "trailer" } else { "footer" };
    }
    if layout.page_headers.iter().any(|(a, b)| off >= *a && off < *b) {
        return "page-header";
    }
    if off < 4 {
        return "magic";
    }
    "page-body"
}

fn run_one(d: &mut Driver, path: &str, sql: &str, bytes: &[u8], script: BTreeMap<usize, Answer>, key: String, note: String, res: &mut Res) {
    if d.dirty {
        *d = Driver::new();
    }
    // fault group = the key without the encoding suffix; after the first resource blow-up (hang / abort) of a
    // group the remaining faults of that group are not fed any more (each costs a process restart)
    let group: String = key.rsplitn(2, ':').last().unwrap_or(&key).to_string();
    crate::guard::set_tag(&group);
    d.fs.clear_files();
    d.fs.put(path, bytes.to_vec());
    d.fs.set_script(script.clone());
    if crate::guard::tag_blown(&group) && crate::guard::skipped(sql, d.fs.state_hash()).is_none() {
        d.fs.set_script(BTreeMap::new());
        res.skipped_after_blowup += 1;
        return;
    }
    let o = d.q(sql);
    d.fs.set_script(BTreeMap::new());
    res.evals += 1;
    match &o {
        Outcome::Rows(_) => res.rows += 1,
        Outcome::Error { .. } => res.errors += 1,
        o2 => {
            let class = outcome_fail_class(o2).unwrap();
            // a 2 GiB allocation shows as a wall-limit hang or as an allocation abort depending on memory pressure
            let class = if class == "hang" || class == "abort" { "resource-blowup".to_string() } else { class };
            let sc: Vec<(usize, String, usize)> = script.iter().map(|(i, a)| (*i, match a { Answer::Err => "err", Answer::Pending => "pending", Answer::Short(_) => "short", Answer::Full => "full" }.to_string(), match a { Answer::Short(k) => *k, _ => 0 })).collect();
            res.fails.push((format!("C19|{class}|{key}"), Replay { check: "C19".into(), files: vec![(path.to_string(), bytes.to_vec())], script: sc, steps: vec![(0, sql.to_string())], expected: "rows or an error".into(), observed: o2.brief(), note, ..Default::default() }));
        }
    }
}

fn check_parquet(d: &mut Driver, fc: &FileCase, tier: Tier, res: &mut Res) {
    let (bytes, layout) = write_file(&fc.cols, &fc.row_groups);
    let sql = "SELECT * FROM read_parquet('f.parquet')";
    let enc = fc.site.rsplit('/').next().unwrap_or("").to_string();
    // sanity: the unmodified file
    run_one(d, "f.parquet", sql, &bytes, BTreeMap::new(), format!("valid:{enc}"), fc.name.clone(), res);
    // every truncation length
    for n in 0..bytes.len() {
        run_one(d, "f.parquet", sql, &bytes[..n], BTreeMap::new(), format!("truncate:{}:{enc}", region_of(&layout, n)), format!("{} truncated to {n} of {} bytes", fc.name, bytes.len()), res);
    }
    // every single-byte substitution (quick: metadata regions and level/dictionary data, i.e. everything but long value bodies)
    for off in 0..bytes.len() {
        let b = bytes[off];
        let region = region_of(&layout, off);
        for sub in [0x00u8, 0xFF, b ^ 0x01, b ^ 0x80, b.wrapping_add(1), b.wrapping_sub(1)] {
            if sub == b {
                continue;
            }
            if !tier.is_thorough() && region == "page-body" && !(sub == 0xFF || sub == b ^ 0x01) {
                continue;
            }
            let mut m = bytes.clone();
            m[off] = sub;
            run_one(d, "f.parquet", sql, &m, BTreeMap::new(), format!("byte:{region}:{enc}"), format!("{} byte {off} ({region}) {b:#04x} -> {sub:#04x}", fc.name), res);
        }
    }
    // every integer metadata field set to each lie
    for (kind, path, a, b) in &layout.int_fields {
        let truth = decode_zigzag_varint(&bytes[*a..*b]);
        for lv in [-1i64, 0, 1, truth + 1, truth - 1, i32::MAX as i64, i64::MAX] {
            if lv == truth {
                continue;
            }
            let m = lie(&bytes, &layout, *a, *b, lv);
            run_one(d, "f.parquet", sql, &m, BTreeMap::new(), format!("lie:{kind}:{path}:{enc}"), format!("{} {kind} field {path} = {truth} replaced by {lv}", fc.name), res);
        }
    }
    // an I/O error at the k-th read call
    if d.dirty {
        *d = Driver::new();
    }
    d.fs.clear_files();
    d.fs.put("f.parquet", bytes.clone());
    d.fs.reset_counters();
    let _ = d.q(sql);
    let nreads = d.fs.reads();
    for k in 0..nreads.min(40) {
        let mut sc = BTreeMap::new();
        sc.insert(k, Answer::Err);
        run_one(d, "f.parquet", sql, &bytes, sc, format!("io-error:{enc}"), format!("{} I/O error at read #{k}", fc.name), res);
    }
    // metadata functions on a few mutated footers
    for (kind, path, a, b) in layout.int_fields.iter().filter(|f| f.0 == "footer") {
        let m = lie(&bytes, &layout, *a, *b, -1);
        for q in ["SELECT * FROM parquet.file_metadata('f.parquet')", "SELECT * FROM parquet.column_metadata('f.parquet')", "SELECT * FROM parquet.rowgroup_metadata('f.parquet')"] {
            run_one(d, "f.parquet", q, &m, BTreeMap::new(), format!("lie-metadata-fn:{kind}:{path}"), format!("{} {kind} field {path} = -1; {q}", fc.name), res);
        }
    }
}

fn csv_faults() -> Vec<(&'static str, Vec<u8>)> {
    let mut v: Vec<(&'static str, Vec<u8>)> = vec![
        ("invalid-utf8", b"a,b\n1,\xff\xfe\n2,x\n".to_vec()),
        ("invalid-utf8-header", b"\xc3,b\n1,2\n".to_vec()),
        ("unterminated-quote", b"a,b\n1,\"open\n2,x\n".to_vec()),
        ("unterminated-quote-eof", b"a,b\n1,\"".to_vec()),
        ("quote-in-field", b"a,b\n1,x\"y\n".to_vec()),
        ("ragged-more", b"a,b\n1,2,3\n4,5\n".to_vec()),
        ("ragged-fewer", b"a,b,c\n1,2\n3,4,5\n".to_vec()),
        ("nul-bytes", b"a,b\n1,\x00\n\x00,2\n".to_vec()),
        ("lone-cr", b"a,b\r1,2\r3,4\r".to_vec()),
        ("only-newlines", b"\n\n\n".to_vec()),
        ("only-delims", b",,,\n,,,\n".to_vec()),
        ("empty", b"".to_vec()),
        ("bom", b"\xef\xbb\xbfa,b\n1,2\n".to_vec()),
        ("huge-number", b"a\n99999999999999999999999999999999999999999\n1\n".to_vec()),
        ("type-change", b"a\n1\n2\nx\n".to_vec()),
        ("crlf-mixed", b"a,b\r\n1,2\n3,4\r\n".to_vec()),
    ];
    let mut big = b"a,b\n1,".to_vec();
    big.extend(std::iter::repeat(b'x').take(1 << 20));
    big.extend(b"\n2,y\n");
    v.push(("field-1MiB", big));
    let mut wide = Vec::new();
    wide.extend(std::iter::repeat(b"c,".as_slice()).take(5000).flatten());
    wide.extend(b"c\n");
    wide.extend(std::iter::repeat(b"1,".as_slice()).take(5000).flatten());
    wide.extend(b"1\n");
    v.push(("5000-columns", wide));
    v
}

fn check_csv(d: &mut Driver, name: &str, data: &[u8], res: &mut Res) {
    let sql = "SELECT * FROM read_csv('f.csv')";
    run_one(d, "f.csv", sql, data, BTreeMap::new(), format!("csv:{name}"), name.to_string(), res);
    // aggregate over it too (forces every value to be decoded)
    run_one(d, "f.csv", "SELECT count(*) FROM read_csv('f.csv')", data, BTreeMap::new(), format!("csv-count:{name}"), name.to_string(), res);
    if data.len() < 200 {
        for n in 0..data.len() {
            run_one(d, "f.csv", sql, &data[..n], BTreeMap::new(), format!("csv-truncate:{name}"), format!("{name} truncated to {n}"), res);
        }
        for off in 0..data.len() {
            for sub in [0x00u8, 0xFF, b'"', b',', b'\n'] {
                let mut m = data.to_vec();
                m[off] = sub;
                run_one(d, "f.csv", sql, &m, BTreeMap::new(), format!("csv-byte:{name}"), format!("{name} byte {off} -> {sub:#04x}"), res);
            }
        }
    }
    for k in 0..4 {
        let mut sc = BTreeMap::new();
        sc.insert(k, Answer::Err);
        run_one(d, "f.csv", sql, data, sc, format!("csv-io-error:{name}"), format!("{name} I/O error at read #{k}"), res);
    }
}

/// every vector of row widths (1..=4 fields) for three data rows under a 3-column header, and under no header:
/// rows that are too short / too long in every combination (incl. those whose total field count balances out)
fn check_csv_ragged(d: &mut Driver, res: &mut Res) {
    for header in [true, false] {
        for w in 0..64usize {
            let widths = [1 + w % 4, 1 + (w / 4) % 4, 1 + (w / 16) % 4];
            let mut data = String::new();
            if header {
                data.push_str("id,name,score\n");
            }
            for (r, &n) in widths.iter().enumerate() {
                let cells: Vec<String> = (0..n).map(|c| if c == 1 { format!("n{r}") } else { format!("{}", r * 10 + c) }).collect();
                data.push_str(&cells.join(","));
                data.push('\n');
            }
            let name = format!("ragged:{}{}-{}-{}", if header { "h3:" } else { "" }, widths[0], widths[1], widths[2]);
            for sql in ["SELECT * FROM read_csv('f.csv')", "SELECT count(*) FROM read_csv('f.csv')", "SELECT column3 FROM read_csv('f.csv')", "SELECT score, id FROM read_csv('f.csv')"] {
                run_one(d, "f.csv", sql, data.as_bytes(), BTreeMap::new(), "csv-ragged".to_string(), name.clone(), res);
            }
            for b in [1usize, 2] {
                if d.dirty {
                    break;
                }
                d.must(&format!("SET batch_size TO {b}"));
                run_one(d, "f.csv", "SELECT * FROM read_csv('f.csv')", data.as_bytes(), BTreeMap::new(), "csv-ragged".to_string(), format!("{name} batch_size {b}"), res);
                if !d.dirty {
                    d.must("SET batch_size TO 2048");
                }
            }
        }
    }
}

pub fn run(tier: Tier) -> i32 {
    let mut rep = Report::new("C19", tier, "fault_enumeration");
    crate::guard::set_wall_limit_ms(3_000);
    let files = base_files(tier);
    let csvs = csv_faults();
    let nf = files.len();
    let results = par_run(nf + csvs.len() + 1, Driver::new, |d, i| {
        let mut res = Res::default();
        if i < nf {
            check_parquet(d, &files[i], tier, &mut res);
        } else if i < nf + csvs.len() {
            check_csv(d, csvs[i - nf].0, &csvs[i - nf].1, &mut res);
        } else {
            check_csv_ragged(d, &mut res);
        }
        res
    });
    let (mut evals, mut rows, mut errors) = (0u64, 0u64, 0u64);
    let mut skipped = 0u64;
    for rr in results {
        skipped += rr.skipped_after_blowup;
        evals += rr.evals;
        rows += rr.rows;
        errors += rr.errors;
        for (k, rp) in rr.fails {
            rep.fail(k, rp);
        }
    }
    rep.cov("evaluations", json!(evals));
    rep.cov("distinct_nontrivial", json!(rows.min(1) + errors));
    rep.cov("rule", json!(format!("{} small valid pqgen files (one per (type, encoding, page version, codec) class, 7 rows with a NULL, two pages) x {{every truncation length, every single-byte substitution by 0x00 / 0xFF / b^1 / b^0x80 / b+1 / b-1 (quick: 2 substitutions inside value bodies), every integer field of FileMetaData / RowGroup / ColumnMetaData / PageHeader / DataPageHeader(V2) / DictionaryPageHeader set to -1, 0, 1, true+1, true-1, 2^31-1, 2^63-1 (footer length corrected so only that field lies), an I/O error at every read call, the metadata table functions on lying footers}}; {} malformed CSV files (invalid UTF-8, unterminated quotes, ragged rows, NUL bytes, lone CR, 1 MiB field, 5000 columns, ...) with truncations, byte substitutions and I/O errors, and every combination of row widths 1..4 for three data rows with and without a 3-column header under four projections and batch sizes 1 / 2 / 2048. Oracle: rows or an error; never a panic, abort, hang. Each fault is distinct by construction; non-trivial = faults that produced an error", nf, csvs.len())));
    rep.cov("faults_not_fed_after_first_blowup_of_their_group", json!(skipped));
    rep.cov("faults_returning_rows", json!(rows));
    rep.cov("faults_returning_error", json!(errors));
    rep.cov("base_files", json!(files.iter().map(|f| f.name.clone()).collect::<Vec<_>>()));
    rep.cov("exhaustive", json!(true));
    rep.cov("samples", json!(["truncate Int32/None/Plain/v1/None to 37 bytes", "footer field 4.1.3.5 (ColumnMetaData.num_values) = 7 replaced by 9223372036854775807", "byte 91 (page-header) 0x15 -> 0x95"]));
    rep.finish()
}
