//! C20 - string and pattern functions are Unicode-correct; LIKE rewrites are equivalent.
use std::collections::BTreeSet;
use std::io::Write;

use serde_json::json;

use super::rel::outcome_fail_class;
use crate::drv::{Driver, Outcome, sql_str};
use crate::infra::{Replay, Report, Tier, msg_template, par_run};
use crate::val::Val;

const SIGMA: [&str; 12] = ["a", "B", " ", "%", "_", "\\", ".", "\n", "é", "€", "😀", "\u{301}"];

fn all_strings(alpha: &[&str], maxlen: usize) -> Vec<String> {
    let mut out = vec![String::new()];
    let mut cur = vec![String::new()];
    for _ in 0..maxlen {
        let mut next = Vec::new();
        for s in &cur {
            for c in alpha {
                next.push(format!("{s}{c}"));
            }
        }
        out.extend(next.iter().cloned());
        cur = next;
    }
    out
}

/// subjects: all strings of length <= n over SIGMA plus paddings of the short ones to 11/12/13 bytes
/// (the inline/heap switch of the string view) and one multi-block value
fn subjects(n: usize) -> Vec<String> {
    let mut v = all_strings(&SIGMA, n);
    let short = all_strings(&SIGMA, 1);
    for s in short {
        for target in [11usize, 12, 13, 40] {
            let mut p = s.clone();
            while p.len() < target {
                p.push('x');
            }
            v.push(p);
            // and with the padding in front
            let mut q = String::new();
            while q.len() + s.len() < target {
                q.push('y');
            }
            q.push_str(&s);
            v.push(q);
        }
    }
    v.push("é€😀".repeat(500));
    v
}

fn chars(s: &str) -> Vec<char> {
    s.chars().collect()
}

// ------------------------------------------------------------------ RM definitions on code points

fn rm_like(s: &[char], p: &[char]) -> Option<bool> {
    // None: the pattern is malformed (trailing escape) - not asserted
    fn m(s: &[char], p: &[char]) -> Option<bool> {
        if p.is_empty() {
            return Some(s.is_empty());
        }
        match p[0] {
            '%' => {
                for k in 0..=s.len() {
                    if m(&s[k..], &p[1..])? {
                        return Some(true);
                    }
                }
                Some(false)
            }
            '_' => {
                if s.is_empty() { Some(false) } else { m(&s[1..], &p[1..]) }
            }
            '\\' => {
                if p.len() < 2 {
                    return None;
                }
                if !s.is_empty() && s[0] == p[1] { m(&s[1..], &p[2..]) } else { Some(false) }
            }
            c => {
                if !s.is_empty() && s[0] == c { m(&s[1..], &p[1..]) } else { Some(false) }
            }
        }
    }
    m(s, p)
}

#[derive(Clone)]
struct FnCase {
    name: String,
    /// SQL of the call with `s` as the column name
    call: String,
    /// reference: None = outside the documented domain (safety clauses only)
    rm: std::sync::Arc<dyn Fn(&str) -> Option<Val> + Send + Sync>,
}

fn vstr(s: String) -> Option<Val> {
    Some(Val::Str(s))
}
fn vint(i: i64) -> Option<Val> {
    Some(Val::Int(i as i128))
}

fn fn_cases(tier: Tier) -> Vec<FnCase> {
    let mut v: Vec<FnCase> = Vec::new();
    let mut add = |name: &str, call: String, f: Box<dyn Fn(&str) -> Option<Val> + Send + Sync>| v.push(FnCase { name: name.to_string(), call, rm: std::sync::Arc::from(f) });
    add("length", "length(s)".into(), Box::new(|s| vint(s.chars().count() as i64)));
    add("char_length", "char_length(s)".into(), Box::new(|s| vint(s.chars().count() as i64)));
    add("byte_length", "byte_length(s)".into(), Box::new(|s| vint(s.len() as i64)));
    add("octet_length", "octet_length(s)".into(), Box::new(|s| vint(s.len() as i64)));
    add("bit_length", "bit_length(s)".into(), Box::new(|s| vint(8 * s.len() as i64)));
    add("upper", "upper(s)".into(), Box::new(|s| vstr(s.to_uppercase())));
    add("lower", "lower(s)".into(), Box::new(|s| vstr(s.to_lowercase())));
    add("reverse", "reverse(s)".into(), Box::new(|s| vstr(s.chars().rev().collect())));
    add("ascii", "ascii(s)".into(), Box::new(|s| s.chars().next().filter(|c| c.is_ascii()).map(|c| Val::Int(c as i128))));
    add("concat", "concat(s, 'é', s)".into(), Box::new(|s| vstr(format!("{s}é{s}"))));
    add("concat-op", "s || '€' || s".into(), Box::new(|s| vstr(format!("{s}€{s}"))));
    add("md5", "length(md5(s))".into(), Box::new(|_| vint(32)));
    add("initcap", "initcap(s)".into(), Box::new(|_| None));
    let counts: Vec<i64> = if tier.is_thorough() { vec![-2, -1, 0, 1, 2, 3, 4, 5, 13, 100] } else { vec![-1, 0, 1, 2, 3, 13] };
    for n in counts.clone() {
        add("left", format!("left(s, {n})"), Box::new(move |s| if n >= 0 { vstr(s.chars().take(n as usize).collect()) } else { None }));
        add("right", format!("right(s, {n})"), Box::new(move |s| {
            if n >= 0 {
                let c = chars(s);
                let k = (n as usize).min(c.len());
                vstr(c[c.len() - k..].iter().collect())
            } else {
                None
            }
        }));
        add("repeat", format!("repeat(s, {n})"), Box::new(move |s| if n >= 0 { vstr(s.repeat(n as usize)) } else { None }));
        add("substring2", format!("substring(s, {n})"), Box::new(move |s| if n >= 1 { vstr(s.chars().skip(n as usize - 1).collect()) } else { None }));
        add("substr2", format!("substr(s, {n})"), Box::new(move |s| if n >= 1 { vstr(s.chars().skip(n as usize - 1).collect()) } else { None }));
        for m in counts.clone() {
            if m > 5 && n > 5 {
                continue;
            }
            add("substring3", format!("substring(s, {n}, {m})"), Box::new(move |s| if n >= 1 && m >= 0 { vstr(s.chars().skip(n as usize - 1).take(m as usize).collect()) } else { None }));
        }
        add("lpad2", format!("lpad(s, {n})"), Box::new(move |s| {
            if n < 0 {
                return None;
            }
            let c = chars(s);
            let n = n as usize;
            if c.len() >= n { vstr(c[..n].iter().collect()) } else { vstr(format!("{}{}", " ".repeat(n - c.len()), s)) }
        }));
        add("rpad2", format!("rpad(s, {n})"), Box::new(move |s| {
            if n < 0 {
                return None;
            }
            let c = chars(s);
            let n = n as usize;
            if c.len() >= n { vstr(c[..n].iter().collect()) } else { vstr(format!("{}{}", s, " ".repeat(n - c.len()))) }
        }));
        for pad in ["é", "x€", ""] {
            let padc = chars(pad);
            let p1 = padc.clone();
            add("lpad3", format!("lpad(s, {n}, {})", sql_str(pad)), Box::new(move |s| {
                if n < 0 || p1.is_empty() {
                    return None;
                }
                let c = chars(s);
                let n = n as usize;
                if c.len() >= n {
                    return vstr(c[..n].iter().collect());
                }
                let fill: String = p1.iter().cycle().take(n - c.len()).collect();
                vstr(format!("{fill}{s}"))
            }));
            let p2 = padc.clone();
            add("rpad3", format!("rpad(s, {n}, {})", sql_str(pad)), Box::new(move |s| {
                if n < 0 || p2.is_empty() {
                    return None;
                }
                let c = chars(s);
                let n = n as usize;
                if c.len() >= n {
                    return vstr(c[..n].iter().collect());
                }
                let fill: String = p2.iter().cycle().take(n - c.len()).collect();
                vstr(format!("{s}{fill}"))
            }));
        }
        for d in ["a", "é", ". "] {
            add("split_part", format!("split_part(s, {}, {n})", sql_str(d)), Box::new(move |s| if n >= 1 { vstr(s.split(d).nth(n as usize - 1).unwrap_or("").to_string()) } else { None }));
        }
    }
    // second-string arguments: all strings of length <= 2 over a reduced alphabet
    let seconds = all_strings(&["a", "é", "%", " ", "\u{301}"], if tier.is_thorough() { 2 } else { 1 });
    for t in seconds {
        let tl = sql_str(&t);
        let t1 = t.clone();
        add("contains", format!("contains(s, {tl})"), Box::new(move |s| Some(Val::Bool(s.contains(&t1)))));
        let t1 = t.clone();
        add("starts_with", format!("starts_with(s, {tl})"), Box::new(move |s| Some(Val::Bool(s.starts_with(&t1)))));
        let t1 = t.clone();
        add("prefix", format!("prefix(s, {tl})"), Box::new(move |s| Some(Val::Bool(s.starts_with(&t1)))));
        let t1 = t.clone();
        add("ends_with", format!("ends_with(s, {tl})"), Box::new(move |s| Some(Val::Bool(s.ends_with(&t1)))));
        let t1 = t.clone();
        add("suffix", format!("suffix(s, {tl})"), Box::new(move |s| Some(Val::Bool(s.ends_with(&t1)))));
        let t1 = t.clone();
        add("strpos", format!("strpos(s, {tl})"), Box::new(move |s| {
            if t1.is_empty() {
                return None;
            }
            match s.find(&t1) {
                Some(b) => vint(s[..b].chars().count() as i64 + 1),
                None => vint(0),
            }
        }));
        let t1 = t.clone();
        add("instr", format!("instr(s, {tl})"), Box::new(move |s| {
            if t1.is_empty() {
                return None;
            }
            match s.find(&t1) {
                Some(b) => vint(s[..b].chars().count() as i64 + 1),
                None => vint(0),
            }
        }));
        let t1 = t.clone();
        add("replace", format!("replace(s, {tl}, '€x')"), Box::new(move |s| if t1.is_empty() { None } else { vstr(s.replace(&t1, "€x")) }));
        let set: Vec<char> = chars(&t);
        let s1 = set.clone();
        add("btrim", format!("btrim(s, {tl})"), Box::new(move |s| if s1.is_empty() { None } else { vstr(s.trim_matches(|c| s1.contains(&c)).to_string()) }));
        let s1 = set.clone();
        add("ltrim", format!("ltrim(s, {tl})"), Box::new(move |s| if s1.is_empty() { None } else { vstr(s.trim_start_matches(|c| s1.contains(&c)).to_string()) }));
        let s1 = set.clone();
        add("rtrim", format!("rtrim(s, {tl})"), Box::new(move |s| if s1.is_empty() { None } else { vstr(s.trim_end_matches(|c| s1.contains(&c)).to_string()) }));
        let s1 = set.clone();
        add("translate", format!("translate(s, {tl}, 'Z€')"), Box::new(move |s| {
            // defined when the characters of `from` are distinct
            let mut seen = Vec::new();
            for c in &s1 {
                if seen.contains(c) {
                    return None;
                }
                seen.push(*c);
            }
            if s1.is_empty() {
                return None;
            }
            let to: Vec<char> = vec!['Z', '€'];
            let mut out = String::new();
            for c in s.chars() {
                match s1.iter().position(|x| *x == c) {
                    Some(i) => {
                        if i < to.len() {
                            out.push(to[i]);
                        }
                    }
                    None => out.push(c),
                }
            }
            vstr(out)
        }));
    }
    add("trim", "trim(s)".into(), Box::new(|s| vstr(s.trim_matches(' ').to_string())));
    add("ltrim1", "ltrim(s)".into(), Box::new(|s| vstr(s.trim_start_matches(' ').to_string())));
    add("rtrim1", "rtrim(s)".into(), Box::new(|s| vstr(s.trim_end_matches(' ').to_string())));
    v
}

#[derive(Default)]
struct Res {
    evals: u64,
    nontrivial: u64,
    safety_only: u64,
    outcomes: BTreeSet<String>,
    fails: Vec<(String, Replay)>,
}

fn values_table(subs: &[String]) -> String {
    let rows: Vec<String> = subs.iter().enumerate().map(|(i, s)| format!("({i}, {})", sql_str(s))).collect();
    format!("(VALUES {}) v(id, s)", rows.join(", "))
}

fn check_fn(d: &mut Driver, fc: &FnCase, subs: &[String], table_sql: &str, res: &mut Res) {
    if d.dirty {
        *d = Driver::new();
    }
    let sql = format!("SELECT id, {} FROM {table_sql}", fc.call);
    let o = d.q(&sql);
    res.evals += 1;
    let short_sql = format!("SELECT id, {} FROM (VALUES (0, '<subject>'), ...) v(id, s)", fc.call);
    let per_row = |d: &mut Driver, res: &mut Res| {
        // isolate: evaluate subject by subject (literal context)
        for s in subs.iter() {
            if d.dirty {
                *d = Driver::new();
            }
            let one = format!("SELECT {}", fc.call.replace("(s,", &format!("({},", sql_str(s))).replace("(s)", &format!("({})", sql_str(s))).replace("s ||", &format!("{} ||", sql_str(s))).replace("|| s", &format!("|| {}", sql_str(s))));
            let o1 = d.q(&one);
            res.evals += 1;
            let want = (fc.rm)(s);
            match (&o1, &want) {
                (Outcome::Rows(r), Some(w)) => {
                    if &r.rows[0][0] != w {
                        res.fails.push((format!("C20|wrong-value|{}", fc.name), Replay { check: "C20".into(), steps: vec![(0, one.clone())], expected: format!("{w}"), observed: format!("{}", r.rows[0][0]), note: "literal context".into(), ..Default::default() }));
                        return;
                    }
                }
                (Outcome::Rows(_), None) => {}
                (Outcome::Error { msg, .. }, Some(w)) => {
                    res.fails.push((format!("C20|spurious-error:{}|{}", msg_template(msg), fc.name), Replay { check: "C20".into(), steps: vec![(0, one.clone())], expected: format!("{w}"), observed: o1.brief(), note: "inside the documented domain".into(), ..Default::default() }));
                    return;
                }
                (Outcome::Error { .. }, None) => {}
                (o2, _) => {
                    res.fails.push((format!("C20|{}|{}", outcome_fail_class(o2).unwrap(), fc.name), Replay { check: "C20".into(), steps: vec![(0, one.clone())], expected: "a value or an error".into(), observed: o2.brief(), note: if want.is_some() { "inside the documented domain".into() } else { "outside the documented domain: safety clauses only".into() }, ..Default::default() }));
                    return;
                }
            }
        }
    };
    match &o {
        Outcome::Rows(r) => {
            for row in &r.rows {
                let id = row[0].as_int().unwrap_or(0) as usize;
                let s = &subs[id];
                // safety: valid UTF-8 whatever the arguments
                if let Val::Str(out) = &row[1] {
                    if std::str::from_utf8(out.as_bytes()).is_err() {
                        res.fails.push((format!("C20|invalid-utf8|{}", fc.name), Replay { check: "C20".into(), steps: vec![(0, short_sql.clone())], expected: "valid UTF-8".into(), observed: format!("{:?}", out.as_bytes()), note: format!("subject {s:?}"), ..Default::default() }));
                        return;
                    }
                }
                match (fc.rm)(s) {
                    Some(w) => {
                        if row[1] != w {
                            res.fails.push((format!("C20|wrong-value|{}", fc.name), Replay { check: "C20".into(), steps: vec![(0, format!("SELECT {}", fc.call.replace("(s", &format!("({}", sql_str(s)))))], expected: format!("{w}"), observed: format!("{}", row[1]), note: format!("subject {s:?} ({} bytes); definition on code points", s.len()), ..Default::default() }));
                            return;
                        }
                        res.nontrivial += 1;
                    }
                    None => res.safety_only += 1,
                }
            }
        }
        Outcome::Error { .. } => per_row(d, res),
        Outcome::Panic { .. } | Outcome::Hang { .. } | Outcome::Abort { .. } => per_row(d, res),
    }
}

fn like_checks(d: &mut Driver, pats: &[String], subs: &[String], res: &mut Res) {
    let table = values_table(subs);
    for p in pats {
        let pc = chars(p);
        let want: Vec<Option<bool>> = subs.iter().map(|s| rm_like(&chars(s), &pc)).collect();
        if want.iter().any(|w| w.is_none()) {
            // malformed pattern (trailing escape): safety only
            if d.dirty {
                *d = Driver::new();
            }
            let o = d.q(&format!("SELECT count(*) FROM {table} WHERE s LIKE {}", sql_str(p)));
            res.evals += 1;
            if let Some(c) = outcome_fail_class(&o) {
                res.fails.push((format!("C20|{c}|like:malformed-pattern"), Replay { check: "C20".into(), steps: vec![(0, format!("SELECT 'a' LIKE {}", sql_str(p)))], expected: "rows or error".into(), observed: o.brief(), ..Default::default() }));
            }
            res.safety_only += 1;
            continue;
        }
        let true_ids: BTreeSet<i128> = want.iter().enumerate().filter(|(_, w)| **w == Some(true)).map(|(i, _)| i as i128).collect();
        let modes: Vec<(&str, Vec<&str>, String, bool)> = vec![
            ("const-opt", vec!["SET enable_optimizer TO true"], format!("SELECT id FROM {table} WHERE s LIKE {}", sql_str(p)), false),
            ("const-noopt", vec!["SET enable_optimizer TO false"], format!("SELECT id FROM {table} WHERE s LIKE {}", sql_str(p)), false),
            ("column-pattern", vec!["SET enable_optimizer TO true"], format!("SELECT id FROM (SELECT id, s, {} AS p FROM {table}) q WHERE s LIKE p", sql_str(p)), false),
            ("not-like", vec!["SET enable_optimizer TO true"], format!("SELECT id FROM {table} WHERE s NOT LIKE {}", sql_str(p)), true),
        ];
        for (mode, sets, sql, negated) in modes {
            if d.dirty {
                *d = Driver::new();
            }
            for s in &sets {
                d.must(s);
            }
            let o = d.q(&sql);
            res.evals += 1;
            match &o {
                Outcome::Rows(r) => {
                    let got: BTreeSet<i128> = r.rows.iter().filter_map(|x| x[0].as_int()).collect();
                    let expect: BTreeSet<i128> = if negated { (0..subs.len() as i128).filter(|i| !true_ids.contains(i)).collect() } else { true_ids.clone() };
                    if got != expect {
                        let diff: Vec<i128> = got.symmetric_difference(&expect).copied().take(3).collect();
                        let ex = diff.first().map(|i| subs[*i as usize].clone()).unwrap_or_default();
                        let class = classify_pattern(p);
                        res.fails.push((format!("C20|like-differs:{mode}|{class}"), Replay { check: "C20".into(), steps: sets.iter().map(|s| (0usize, s.to_string())).chain(std::iter::once((0usize, format!("SELECT {} {}LIKE {}", sql_str(&ex), if negated { "NOT " } else { "" }, sql_str(p))))).collect(), expected: format!("{}", rm_like(&chars(&ex), &pc).map(|b| b != negated).unwrap_or(false)), observed: format!("the opposite (subject {ex:?}, pattern {p:?}; {} subjects differ)", got.symmetric_difference(&expect).count()), note: "RM: % = any sequence incl. newline, _ = exactly one code point, backslash escapes the next character".into(), ..Default::default() }));
                    } else {
                        res.nontrivial += 1;
                    }
                }
                Outcome::Error { msg, .. } => res.fails.push((format!("C20|like-error:{mode}:{}|{}", msg_template(msg), classify_pattern(p)), Replay { check: "C20".into(), steps: vec![(0, sql.chars().take(400).collect())], expected: "rows".into(), observed: o.brief(), ..Default::default() })),
                o2 => res.fails.push((format!("C20|{}|like:{mode}", outcome_fail_class(o2).unwrap()), Replay { check: "C20".into(), steps: vec![(0, format!("SELECT 'a' LIKE {}", sql_str(p)))], expected: "rows".into(), observed: o2.brief(), ..Default::default() })),
            }
        }
    }
}

/// coarse pattern class for keys: which special characters it contains
fn classify_pattern(p: &str) -> String {
    let mut v = Vec::new();
    if p.contains('\\') {
        v.push("escape");
    }
    if p.contains('%') {
        v.push("percent");
    }
    if p.contains('_') {
        v.push("underscore");
    }
    if p.contains('\n') {
        v.push("newline-in-pattern");
    }
    if p.contains('.') {
        v.push("dot");
    }
    if v.is_empty() {
        v.push("literal");
    }
    v.join("+")
}

fn regex_checks(d: &mut Driver, res: &mut Res, tier: Tier) {
    let pats = all_strings(&["a", ".", "*", "(", ")", "|", "\\", "é"], if tier.is_thorough() { 3 } else { 2 });
    let subs = all_strings(&["a", "é", ".", "\n", "b"], 3);
    let py = crate::infra::verif_root().join("harness/py/regex_ref.py");
    let mut child = match std::process::Command::new("python3").arg(&py).stdin(std::process::Stdio::piped()).stdout(std::process::Stdio::piped()).spawn() {
        Ok(c) => c,
        Err(e) => {
            res.outcomes.insert(format!("python-unavailable:{e}"));
            return;
        }
    };
    let input = json!({"subjects": subs, "patterns": pats}).to_string();
    child.stdin.take().unwrap().write_all(input.as_bytes()).ok();
    let out = child.wait_with_output().ok();
    let reference: serde_json::Value = match out.and_then(|o| serde_json::from_slice(&o.stdout).ok()) {
        Some(v) => v,
        None => {
            res.outcomes.insert("python-reference-failed".into());
            return;
        }
    };
    let table = values_table(&subs);
    for (pi, p) in pats.iter().enumerate() {
        let valid = reference["valid"][pi].as_bool().unwrap_or(false);
        let can_empty = reference["empty"][pi].as_bool().unwrap_or(true);
        let calls: Vec<(&str, String, &str)> = vec![("regexp_like", format!("regexp_like(s, {})", sql_str(p)), "like"), ("regexp_count", format!("regexp_count(s, {})", sql_str(p)), "count"), ("regexp_instr", format!("regexp_instr(s, {})", sql_str(p)), "instr"), ("regexp_replace", format!("regexp_replace(s, {}, 'X')", sql_str(p)), "replace")];
        for (fname, call, key) in calls {
            if d.dirty {
                *d = Driver::new();
            }
            let sql = format!("SELECT id, {call} FROM {table}");
            let o = d.q(&sql);
            res.evals += 1;
            match &o {
                Outcome::Rows(r) => {
                    if !valid {
                        // the reference rejects the pattern: only the safety clauses apply
                        res.safety_only += 1;
                        continue;
                    }
                    if can_empty && (key == "count" || key == "replace" || key == "instr") {
                        // empty matches: counting / replacement conventions differ between engines
                        res.safety_only += 1;
                        continue;
                    }
                    for row in &r.rows {
                        let id = row[0].as_int().unwrap_or(0) as usize;
                        let w = &reference[key][pi][id];
                        let want = if let Some(b) = w.as_bool() { Val::Bool(b) } else if let Some(i) = w.as_i64() { Val::Int(i as i128) } else { Val::Str(w.as_str().unwrap_or("").to_string()) };
                        if row[1] != want {
                            res.fails.push((format!("C20|regex-differs|{fname}"), Replay { check: "C20".into(), steps: vec![(0, format!("SELECT {}", call.replace("(s,", &format!("({},", sql_str(&subs[id])))))], expected: format!("{want} (Python re)"), observed: format!("{}", row[1]), note: format!("subject {:?} pattern {p:?}", subs[id]), ..Default::default() }));
                            break;
                        }
                        res.nontrivial += 1;
                    }
                }
                Outcome::Error { .. } => {
                    // invalid pattern => error, never a panic; a pattern the reference accepts should not fail
                    if valid && !p.contains('\\') {
                        res.fails.push((format!("C20|regex-spurious-error|{fname}"), Replay { check: "C20".into(), steps: vec![(0, format!("SELECT {}", call.replace("(s,", "('a',")))], expected: "rows (the pattern is valid)".into(), observed: o.brief(), ..Default::default() }));
                    }
                }
                o2 => res.fails.push((format!("C20|{}|{fname}", outcome_fail_class(o2).unwrap()), Replay { check: "C20".into(), steps: vec![(0, format!("SELECT {}", call.replace("(s,", "('a',")))], expected: "rows or error".into(), observed: o2.brief(), ..Default::default() })),
            }
        }
    }
}

pub fn run(tier: Tier) -> i32 {
    let mut rep = Report::new("C20", tier, "exploration");
    crate::guard::set_wall_limit_ms(4000);
    let subs = subjects(if tier.is_thorough() { 3 } else { 2 });
    let table = values_table(&subs);
    let cases = fn_cases(tier);
    let like_pats = all_strings(&["a", "é", "%", "_", "\\", ".", "\n"], if tier.is_thorough() { 4 } else { 3 });
    let like_subs = all_strings(&["a", "é", "%", "_", "\\", ".", "\n"], 3);
    let chunks: Vec<Vec<String>> = like_pats.chunks(16).map(|c| c.to_vec()).collect();
    let nf = cases.len();
    let nl = chunks.len();
    let results = par_run(nf + nl + 1, Driver::new, |d, i| {
        let mut res = Res::default();
        if i < nf {
            check_fn(d, &cases[i], &subs, &table, &mut res);
        } else if i < nf + nl {
            like_checks(d, &chunks[i - nf], &like_subs, &mut res);
        } else {
            regex_checks(d, &mut res, tier);
        }
        res
    });
    let (mut evals, mut nontriv, mut safety) = (0u64, 0u64, 0u64);
    let mut outcomes = BTreeSet::new();
    for rr in results {
        evals += rr.evals;
        nontriv += rr.nontrivial;
        safety += rr.safety_only;
        outcomes.extend(rr.outcomes);
        for (k, rp) in rr.fails {
            rep.fail(k, rp);
        }
    }
    rep.cov("evaluations", json!(evals));
    rep.cov("distinct_nontrivial", json!(nontriv));
    rep.cov("rule", json!(format!("{} string-function calls (every string function x argument ranges: counts/positions -2..5 and 13/100, pad / trim / search strings of length <= 2 over a 5-symbol alphabet) x {} subjects (all strings of length <= {} over {{a,B,space,%,_,backslash,.,newline,e-acute,euro,emoji,combining mark}} plus paddings to 11/12/13/40 bytes and one 4.5 KB value); {} LIKE patterns (all strings of length <= {} over {{a,e-acute,%,_,backslash,.,newline}}) x {} subjects in 4 modes (constant pattern optimizer on = rewrites, optimizer off = regex path, pattern from a column, NOT LIKE); regex functions over all patterns of length <= {} over 8 symbols against Python re. Values are compared inside the documented domain; outside it (negative counts, position 0, empty sets) only no panic / valid UTF-8 are asserted. non-trivial = (call, subject) pairs compared and equal", cases.len(), subs.len(), if tier.is_thorough() { 3 } else { 2 }, like_pats.len(), if tier.is_thorough() { 4 } else { 3 }, like_subs.len(), if tier.is_thorough() { 3 } else { 2 })));
    rep.cov("safety_only_cases", json!(safety));
    rep.cov("distinct_outcomes", json!(outcomes.into_iter().collect::<Vec<_>>()));
    rep.cov("exhaustive", json!(true));
    rep.cov("samples", json!(["SELECT id, substring(s, 2, 3) FROM (VALUES (0, ''), (1, 'a'), ... ) v(id, s)", "SELECT id FROM (VALUES ...) v(id, s) WHERE s LIKE 'a\\%_'", "SELECT id, regexp_count(s, 'a|é') FROM (VALUES ...) v(id, s)"]));
    rep.finish()
}
