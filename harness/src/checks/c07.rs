//! C07 - grouping, aggregates and duplicate elimination are exact per group and
//! independent of how rows are split across partitions / arrival order.
use std::collections::BTreeSet;

use serde_json::json;

use super::rel::outcome_fail_class;
use crate::alg::bags;
use crate::drv::{Driver, Outcome};
use crate::fnreg;
use crate::infra::{Replay, Report, Tier, msg_template, par_run};
use crate::rm::*;
use crate::val::{Row, Val};

fn agg(f: AggF, arg: Option<E>, distinct: bool, filter: Option<E>) -> E {
    E::Agg { f, arg: arg.map(Box::new), distinct, filter: filter.map(Box::new) }
}

/// Query forms over table g(k INT, v INT).
fn forms(full: bool) -> Vec<(String, Query)> {
    let k = || col("k");
    let v = || col("v");
    let mut aggs: Vec<(&str, E, &str)> = vec![
        ("countstar", agg(AggF::CountStar, None, false, None), "a1"),
        ("count", agg(AggF::Count, Some(v()), false, None), "a2"),
        ("sum", agg(AggF::Sum, Some(v()), false, None), "a3"),
        ("min", agg(AggF::Min, Some(v()), false, None), "a4"),
        ("max", agg(AggF::Max, Some(v()), false, None), "a5"),
        ("avg", agg(AggF::Avg, Some(v()), false, None), "a6"),
        ("count-distinct", agg(AggF::Count, Some(v()), true, None), "a7"),
        ("sum-distinct", agg(AggF::Sum, Some(v()), true, None), "a8"),
        ("sum-filter", agg(AggF::Sum, Some(v()), false, Some(bin(Op::Gt, v(), E::Int(1)))), "a9"),
        ("countstar-filter", agg(AggF::CountStar, None, false, Some(E::IsNull(Box::new(v()), false))), "a10"),
    ];
    if full {
        aggs.push(("count-distinct-filter", agg(AggF::Count, Some(v()), true, Some(bin(Op::Ge, v(), E::Int(1)))), "a11"));
        aggs.push(("min-k", agg(AggF::Min, Some(k()), false, None), "a12"));
        aggs.push(("sum-expr", agg(AggF::Sum, Some(bin(Op::Add, v(), k())), false, None), "a13"));
    }
    let mut out = Vec::new();
    let sel = |items: Vec<Item>, gb: GroupBy, having: Option<E>, distinct: bool| Query::of(Select { distinct, items, from: Some(table("g")), where_: None, group_by: gb, having });
    // every aggregate alone: global, grouped by k
    for (n, e, a) in &aggs {
        out.push((format!("global:{n}"), sel(vec![Item::Expr(e.clone(), Some(a.to_string()))], GroupBy::None, None, false)));
        out.push((format!("groupby-k:{n}"), sel(vec![Item::Expr(k(), None), Item::Expr(e.clone(), Some(a.to_string()))], GroupBy::Plain(vec![k()]), None, false)));
    }
    // all together
    let mut items = vec![Item::Expr(k(), None)];
    for (_, e, a) in &aggs {
        items.push(Item::Expr(e.clone(), Some(a.to_string())));
    }
    out.push(("groupby-k:all".into(), sel(items.clone(), GroupBy::Plain(vec![k()]), None, false)));
    out.push(("global:all".into(), sel(items[1..].to_vec(), GroupBy::None, None, false)));
    // two keys, expression key
    let cnt = agg(AggF::CountStar, None, false, None);
    let sm = agg(AggF::Sum, Some(v()), false, None);
    out.push(("groupby-kv".into(), sel(vec![Item::Expr(k(), None), Item::Expr(v(), None), Item::Expr(cnt.clone(), Some("n".into()))], GroupBy::Plain(vec![k(), v()]), None, false)));
    let ke = bin(Op::Add, k(), E::Int(1));
    out.push(("groupby-expr".into(), sel(vec![Item::Expr(ke.clone(), Some("ke".into())), Item::Expr(sm.clone(), Some("s".into()))], GroupBy::Plain(vec![ke.clone()]), None, false)));
    // having
    out.push(("having-count".into(), sel(vec![Item::Expr(k(), None), Item::Expr(cnt.clone(), Some("n".into()))], GroupBy::Plain(vec![k()]), Some(bin(Op::Gt, cnt.clone(), E::Int(1))), false)));
    out.push(("having-sum-null".into(), sel(vec![Item::Expr(k(), None)], GroupBy::Plain(vec![k()]), Some(E::IsNull(Box::new(sm.clone()), false)), false)));
    // grouping sets
    for (n, gb) in [("rollup", GroupBy::Rollup(vec![k(), v()])), ("cube", GroupBy::Cube(vec![k(), v()]))] {
        out.push((
            format!("{n}:kv"),
            sel(vec![Item::Expr(k(), None), Item::Expr(v(), None), Item::Expr(E::Grouping(Box::new(k())), Some("gk".into())), Item::Expr(E::Grouping(Box::new(v())), Some("gv".into())), Item::Expr(cnt.clone(), Some("n".into())), Item::Expr(sm.clone(), Some("s".into()))], gb, None, false),
        ));
    }
    // HAVING on grouping columns above several grouping sets (the rolled-up rows carry NULL there)
    for (n, mk) in [("rollup", (|x: Vec<E>| GroupBy::Rollup(x)) as fn(Vec<E>) -> GroupBy), ("cube", (|x: Vec<E>| GroupBy::Cube(x)) as fn(Vec<E>) -> GroupBy)] {
        let items = || vec![Item::Expr(k(), None), Item::Expr(v(), None), Item::Expr(cnt.clone(), Some("n".into())), Item::Expr(sm.clone(), Some("s".into()))];
        out.push((format!("{n}:having-k"), sel(items(), mk(vec![k(), v()]), Some(bin(Op::Eq, k(), E::Int(1))), false)));
        out.push((format!("{n}:having-v"), sel(items(), mk(vec![k(), v()]), Some(bin(Op::Eq, v(), E::Int(1))), false)));
        out.push((format!("{n}:having-v-null"), sel(items(), mk(vec![k(), v()]), Some(E::IsNull(Box::new(v()), false)), false)));
        out.push((format!("{n}:having-k-or-n"), sel(items(), mk(vec![k(), v()]), Some(bin(Op::Or, bin(Op::Eq, k(), E::Int(2)), bin(Op::Gt, cnt.clone(), E::Int(1)))), false)));
    }
    // DISTINCT aggregates above several grouping sets: duplicates are removed per grouping set, not per finest group
    {
        let cd = agg(AggF::Count, Some(v()), true, None);
        let sd = agg(AggF::Sum, Some(v()), true, None);
        let items = |with_v: bool| {
            let mut it = vec![Item::Expr(k(), None)];
            if with_v {
                it.push(Item::Expr(v(), None));
            }
            it.push(Item::Expr(cd.clone(), Some("cd".into())));
            it.push(Item::Expr(sd.clone(), Some("sd".into())));
            it.push(Item::Expr(cnt.clone(), Some("n".into())));
            it
        };
        out.push(("rollup:k:distinct-aggs".into(), sel(items(false), GroupBy::Rollup(vec![k()]), None, false)));
        out.push(("rollup:kv:distinct-aggs".into(), sel(items(true), GroupBy::Rollup(vec![k(), v()]), None, false)));
        out.push(("cube:kv:distinct-aggs".into(), sel(items(true), GroupBy::Cube(vec![k(), v()]), None, false)));
    }
    out.push(("rollup:k".into(), sel(vec![Item::Expr(k(), None), Item::Expr(E::Grouping(Box::new(k())), Some("gk".into())), Item::Expr(cnt.clone(), Some("n".into()))], GroupBy::Rollup(vec![k()]), None, false)));
    if full {
        out.push(("rollup:shared-expr".into(), sel(vec![Item::Expr(ke.clone(), Some("ke".into())), Item::Expr(v(), None), Item::Expr(cnt.clone(), Some("n".into()))], GroupBy::Rollup(vec![ke.clone(), v()]), None, false)));
    }
    // duplicate elimination
    out.push(("distinct:k".into(), sel(vec![Item::Expr(k(), None)], GroupBy::None, None, true)));
    out.push(("distinct:kv".into(), sel(vec![Item::Expr(k(), None), Item::Expr(v(), None)], GroupBy::None, None, true)));
    let one = |e: E| Query::of(Select { distinct: false, items: vec![Item::Expr(e, None)], from: Some(table("g")), where_: None, group_by: GroupBy::None, having: None });
    for all in [false, true] {
        out.push((format!("union{}:k-v", if all { "all" } else { "" }), Query { ctes: vec![], body: Body::Union { all, l: Box::new(one(k())), r: Box::new(one(v())) }, order_by: vec![], limit: None, offset: None }));
    }
    out
}

fn substitute(sql: &str, ident: &str, with: &str) -> String {
    let b = sql.as_bytes();
    let id = ident.as_bytes();
    let is_id = |c: u8| c.is_ascii_alphanumeric() || c == b'_' || c == b'.' || c == b'"' || c == b'\'';
    let mut out = String::new();
    let mut i = 0;
    let mut in_str = false;
    while i < b.len() {
        if b[i] == b'\'' {
            in_str = !in_str;
        }
        if !in_str && b[i..].starts_with(id) {
            let prev_ok = i == 0 || !is_id(b[i - 1]);
            let next_ok = i + id.len() >= b.len() || !is_id(b[i + id.len()]);
            if prev_ok && next_ok {
                out.push_str(with);
                i += id.len();
                continue;
            }
        }
        out.push(b[i] as char);
        i += 1;
    }
    out
}

fn permutations(n: usize) -> Vec<Vec<usize>> {
    fn rec(cur: &mut Vec<usize>, used: &mut Vec<bool>, n: usize, out: &mut Vec<Vec<usize>>) {
        if cur.len() == n {
            out.push(cur.clone());
            return;
        }
        for i in 0..n {
            if !used[i] {
                used[i] = true;
                cur.push(i);
                rec(cur, used, n, out);
                cur.pop();
                used[i] = false;
            }
        }
    }
    let mut out = Vec::new();
    rec(&mut vec![], &mut vec![false; n], n, &mut out);
    out
}

#[derive(Default)]
struct Res {
    evals: u64,
    nontrivial: u64,
    unsupported: u64,
    outcomes: BTreeSet<String>,
    fails: Vec<(String, Replay)>,
}

fn lit(v: &Val) -> String {
    match v {
        Val::Null => "CAST(NULL AS INT)".into(),
        Val::Int(i) => format!("{i}"),
        o => format!("{o}"),
    }
}

fn values_src(rows: &[Row]) -> String {
    if rows.is_empty() {
        return "(SELECT k, v FROM (VALUES (CAST(NULL AS INT), CAST(NULL AS INT))) z(k, v) WHERE false) AS g".into();
    }
    let rs: Vec<String> = rows.iter().enumerate().map(|(i, r)| if i == 0 { format!("(CAST({} AS INT), CAST({} AS INT))", lit(&r[0]), lit(&r[1])) } else { format!("({}, {})", lit(&r[0]), lit(&r[1])) }).collect();
    format!("(VALUES {}) AS g(k, v)", rs.join(", "))
}

fn run_bag(rows: &[Row], fs: &[(String, Query)], cfgs: &[(String, Vec<String>)], d: &mut Driver, res: &mut Res, all_orders: bool) {
    let mut db = Db::default();
    db.add_table("g", &[("k", Ty::Int32), ("v", Ty::Int32)], rows.to_vec());
    let orders = if all_orders { permutations(rows.len()) } else { vec![(0..rows.len()).collect()] };
    // distinct arrangements only
    let mut arrangements: Vec<Vec<Row>> = Vec::new();
    for p in orders {
        let a: Vec<Row> = p.iter().map(|&i| rows[i].clone()).collect();
        if !arrangements.contains(&a) {
            arrangements.push(a);
        }
    }
    let mut seen = BTreeSet::new();
    for (cname, sets) in cfgs {
        if d.dirty {
            *d = Driver::new();
        }
        for s in sets {
            d.must(s);
        }
        for arr in &arrangements {
            let src = values_src(arr);
            for (shape, q) in fs {
                if d.dirty {
                    *d = Driver::new();
                    for s in sets {
                        d.must(s);
                    }
                }
                let sql = substitute(&q.sql(), "g", &src);
                let out = d.q(&sql);
                res.evals += 1;
                let mut fail: Option<(String, String, String)> = None;
                match &out {
                    Outcome::Rows(r) => match check_result(&db, q, &r.names, &r.types, &r.rows) {
                        Ok(None) => {
                            if !r.rows.is_empty() {
                                res.nontrivial += 1;
                            }
                            res.outcomes.insert(format!("rows:{}", r.rows.len().min(6)));
                        }
                        Ok(Some(m)) => fail = Some((m.class().into(), "RM group-by".into(), m.text().into())),
                        Err(RmErr::Runtime(e)) => fail = Some(("missing-error".into(), e, out.brief())),
                        Err(RmErr::Unsupported(_)) => res.unsupported += 1,
                    },
                    Outcome::Error { msg, .. } => {
                        if out.not_implemented() {
                            res.outcomes.insert("not-implemented".into());
                        } else if eval_query(&db, q).is_ok() {
                            fail = Some((format!("unexpected-error:{}", msg_template(msg)), "rows".into(), msg.clone()));
                        }
                    }
                    o => fail = Some((outcome_fail_class(o).unwrap(), "rows".into(), o.brief())),
                }
                if let Some((class, expected, observed)) = fail {
                    let key = format!("C07|{class}|{shape}");
                    if seen.insert(format!("{key}/{cname}")) {
                        let mut steps: Vec<(usize, String)> = sets.iter().map(|s| (0usize, s.clone())).collect();
                        steps.push((0, sql.clone()));
                        res.fails.push((key, Replay { check: "C07".into(), steps, expected, observed, note: format!("config {cname} rows={}", crate::val::fmt_rows(arr, 6)), ..Default::default() }));
                    }
                }
            }
        }
    }
}

/// Homomorphism over every aggregate signature of the registry: the value must not
/// depend on the row order nor on the split over partitions / batches.
fn homomorphism(d: &mut Driver, tier: Tier, res: &mut Res) {
    let order_dependent = ["first", "string_agg"];
    for s in fnreg::aggregate_sigs() {
        let mut argtys = s.args.clone();
        if let Some(v) = s.variadic {
            argtys.push(v);
        }
        if argtys.is_empty() || argtys.len() > 2 {
            res.unsupported += 1;
            continue;
        }
        let mut alphas = Vec::new();
        for t in &argtys {
            match fnreg::alphabet(*t, false) {
                Some(a) => alphas.push(a),
                None => {
                    alphas.clear();
                    break;
                }
            }
        }
        if alphas.is_empty() {
            res.unsupported += 1;
            continue;
        }
        let name = format!("{}({})", s.name, argtys.iter().map(|t| t.to_string()).collect::<Vec<_>>().join(","));
        // rows: each alphabet value (zipped / crossed lightly), with a 2-valued group key
        let n = alphas[0].len();
        let mut rows: Vec<String> = Vec::new();
        for i in 0..n {
            let mut cells = vec![format!("{}", i % 2)];
            cells.push(alphas[0][i].clone());
            if alphas.len() > 1 {
                cells.push(alphas[1][(i * 2 + 1) % alphas[1].len()].clone());
            }
            rows.push(format!("({})", cells.join(", ")));
        }
        let cols = if alphas.len() > 1 { "gk, x, y" } else { "gk, x" };
        let args = if alphas.len() > 1 { "x, y" } else { "x" };
        let call = if s.name == "string_agg" && alphas.len() > 1 { format!("{}(x, ',')", s.name) } else { format!("{}({})", s.name, args) };
        let arrangements: Vec<Vec<String>> = {
            let mut v = vec![rows.clone()];
            if !order_dependent.contains(&s.name.as_str()) {
                let mut r = rows.clone();
                r.reverse();
                v.push(r);
                let mut r2 = rows.clone();
                r2.rotate_left(n / 2);
                v.push(r2);
            }
            v
        };
        let cfgs: Vec<(usize, usize)> = if tier.is_thorough() { vec![(1, 2048), (1, 1), (2, 1), (3, 2), (4, 1), (8, 3)] } else { vec![(1, 2048), (2, 1), (3, 2)] };
        for grouped in [false, true] {
            let mut reference: Option<Vec<Row>> = None;
            for (ai, arr) in arrangements.iter().enumerate() {
                for &(p, b) in &cfgs {
                    if order_dependent.contains(&s.name.as_str()) && (p > 1 || ai > 0) {
                        continue;
                    }
                    if d.dirty {
                        *d = Driver::new();
                    }
                    let sets = vec![format!("SET partitions TO {p}"), format!("SET batch_size TO {b}")];
                    for st in &sets {
                        d.must(st);
                    }
                    let sql = if grouped { format!("SELECT gk, {call} FROM (VALUES {}) t({cols}) GROUP BY gk", arr.join(", ")) } else { format!("SELECT {call} FROM (VALUES {}) t({cols})", arr.join(", ")) };
                    let o = d.q(&sql);
                    res.evals += 1;
                    let mut steps: Vec<(usize, String)> = sets.iter().map(|s| (0usize, s.clone())).collect();
                    steps.push((0, sql.clone()));
                    match &o {
                        Outcome::Rows(r) => {
                            let mut got: Vec<Row> = r.rows.iter().map(|row| row.iter().map(|v| v.norm()).collect()).collect();
                            got.sort();
                            match &reference {
                                None => reference = Some(got),
                                Some(rf) => {
                                    if !rows_close(rf, &got) {
                                        res.fails.push((format!("C07|split-or-order-dependent|{name}"), Replay { check: "C07".into(), steps, expected: format!("{} (first arrangement, P=1)", crate::val::fmt_rows(rf, 6)), observed: crate::val::fmt_rows(&got, 6), note: format!("arrangement {ai} P{p} B{b} grouped={grouped}"), ..Default::default() }));
                                    } else {
                                        res.nontrivial += 1;
                                    }
                                }
                            }
                        }
                        Outcome::Error { phase: crate::drv::Phase::Plan, .. } => {
                            res.unsupported += 1;
                        }
                        Outcome::Error { msg, .. } if msg.contains("overflow") && (s.name == "sum" || s.name == "avg") => {
                            // a fixed-width accumulator may overflow on an intermediate partial sum in one
                            // arrival order and not in another; C12 admits "exact or fails", so an overflow
                            // error is an admissible outcome of every arrangement (counted, not a verdict)
                            res.outcomes.insert("sum-overflow-error-admissible".into());
                        }
                        Outcome::Error { msg, .. } => {
                            // run-time error: must be the same under every split (checked by class)
                            if reference.is_some() {
                                res.fails.push((format!("C07|error-depends-on-split:{}|{name}", msg_template(msg)), Replay { check: "C07".into(), steps, expected: "value as under P=1".into(), observed: o.brief(), note: format!("arrangement {ai} P{p} B{b}"), ..Default::default() }));
                            }
                        }
                        o2 => res.fails.push((format!("C07|{}|{name}", outcome_fail_class(o2).unwrap()), Replay { check: "C07".into(), steps, expected: "rows".into(), observed: o2.brief(), note: format!("arrangement {ai} P{p} B{b}"), ..Default::default() })),
                    }
                }
            }
        }
    }
}

fn rows_close(a: &[Row], b: &[Row]) -> bool {
    if a.len() != b.len() {
        return false;
    }
    a.iter().zip(b).all(|(x, y)| {
        x.len() == y.len()
            && x.iter().zip(y).all(|(u, v)| match (u.as_f64(), v.as_f64()) {
                (Some(p), Some(q)) if matches!(u, Val::F64(_) | Val::F32(_) | Val::F16(_)) => (p.is_nan() && q.is_nan()) || p == q || (p - q).abs() <= 1e-9 * p.abs().max(q.abs()).max(1e-300) * 16.0,
                _ => u == v,
            })
    })
}

/// Many groups: directory resize during update and during merge.
fn many_groups(d: &mut Driver, tier: Tier, res: &mut Res) {
    let gs: &[usize] = if tier.is_thorough() { &[358, 359, 513, 1025, 5000] } else { &[359, 1025] };
    for &g in gs {
        for (p, b) in [(1usize, 2048usize), (3, 2048), (4, 100)] {
            if d.dirty {
                *d = Driver::new();
            }
            let sets = vec![format!("SET partitions TO {p}"), format!("SET batch_size TO {b}")];
            for s in &sets {
                d.must(s);
            }
            let n = g * 3;
            let cases = vec![
                ("many-groups:count", format!("SELECT count(*), sum(c), min(c), max(c), sum(s) FROM (SELECT x % {g} AS k, count(*) AS c, sum(x) AS s FROM generate_series(1, {n}) t(x) GROUP BY x % {g}) q"), vec![g as i128, n as i128, 3, 3, (n as i128) * (n as i128 + 1) / 2]),
                ("many-groups:distinct", format!("SELECT count(*) FROM (SELECT DISTINCT x % {g} FROM generate_series(1, {n}) t(x)) q"), vec![g as i128]),
                ("many-groups:allnull", format!("SELECT count(*), sum(c) FROM (SELECT k, count(*) AS c FROM (SELECT CAST(NULL AS INT) AS k, x FROM generate_series(1, {n}) t(x)) z GROUP BY k) q"), vec![1, n as i128]),
                ("many-groups:count-distinct", format!("SELECT count(DISTINCT x % {g}), count(DISTINCT x) FROM generate_series(1, {n}) t(x)"), vec![g as i128, n as i128]),
                ("many-groups:union", format!("SELECT count(*) FROM (SELECT x % {g} FROM generate_series(1, {n}) t(x) UNION SELECT x % {g} FROM generate_series(1, {n}) t(x)) q"), vec![g as i128]),
            ];
            for (shape, sql, want) in cases {
                if d.dirty {
                    *d = Driver::new();
                    for s in &sets {
                        d.must(s);
                    }
                }
                let o = d.q(&sql);
                res.evals += 1;
                let mut steps: Vec<(usize, String)> = sets.iter().map(|s| (0usize, s.clone())).collect();
                steps.push((0, sql.clone()));
                match &o {
                    Outcome::Rows(r) if r.rows.len() == 1 => {
                        let got: Vec<i128> = r.rows[0].iter().map(|v| v.as_int().unwrap_or(i128::MIN)).collect();
                        if got != want {
                            res.fails.push((format!("C07|wrong-value|{shape}"), Replay { check: "C07".into(), steps, expected: format!("{want:?}"), observed: format!("{got:?}"), note: format!("G={g} P{p} B{b}"), ..Default::default() }));
                        } else {
                            res.nontrivial += 1;
                        }
                    }
                    o2 => res.fails.push((format!("C07|{}|{shape}", outcome_fail_class(o2).unwrap_or_else(|| "unexpected-error".into())), Replay { check: "C07".into(), steps, expected: format!("{want:?}"), observed: o2.brief(), note: format!("G={g} P{p} B{b}"), ..Default::default() })),
                }
            }
        }
    }
}

pub fn run(tier: Tier) -> i32 {
    let mut rep = Report::new("C07", tier, "exploration");
    let full = tier.is_thorough();
    let fs = forms(full);
    let r = if full { 4 } else { 3 };
    // row values: k in {NULL,1,2} x v in {NULL,1,3}
    let kv: Vec<Row> = {
        let mut v = Vec::new();
        for k in [Val::Null, Val::Int(1), Val::Int(2)] {
            for x in [Val::Null, Val::Int(1), Val::Int(3)] {
                v.push(vec![k.clone(), x]);
            }
        }
        v
    };
    let bgs = bags(kv.len(), r);
    let cfgs: Vec<(String, Vec<String>)> = {
        let (ps, bs): (&[usize], &[usize]) = if full { (&[1, 2, 3, 4], &[1, 2, 2048]) } else { (&[1, 3], &[1, 2048]) };
        let mut v = Vec::new();
        for &p in ps {
            for &b in bs {
                v.push((format!("P{p}B{b}"), vec![format!("SET partitions TO {p}"), format!("SET batch_size TO {b}")]));
            }
        }
        v
    };
    let nb = bgs.len();
    let results = par_run(nb + 2, Driver::new, |d, i| {
        let mut res = Res::default();
        if i == nb {
            homomorphism(d, tier, &mut res);
        } else if i == nb + 1 {
            many_groups(d, tier, &mut res);
        } else {
            let rows: Vec<Row> = bgs[i].iter().map(|&x| kv[x].clone()).collect();
            // all row orders for bags up to 3 rows (thorough: up to 4)
            run_bag(&rows, &fs, &cfgs, d, &mut res, rows.len() <= if full { 4 } else { 3 });
        }
        res
    });
    let (mut evals, mut nontriv, mut unsup) = (0u64, 0u64, 0u64);
    let mut outcomes = BTreeSet::new();
    for rr in results {
        evals += rr.evals;
        nontriv += rr.nontrivial;
        unsup += rr.unsupported;
        outcomes.extend(rr.outcomes);
        for (k, rp) in rr.fails {
            rep.fail(k, rp);
        }
    }
    rep.cov("evaluations", json!(evals));
    rep.cov("distinct_nontrivial", json!(nontriv));
    rep.cov("rule", json!(format!("{} query forms (each core aggregate plain / DISTINCT / FILTER, global and grouped, 2 keys, expression key, HAVING, ROLLUP, CUBE with GROUPING(), SELECT DISTINCT, UNION [ALL]) x all {} bags of <= {r} rows over (k in {{NULL,1,2}}, v in {{NULL,1,3}}) x every distinct row order x {} (partitions, batch_size) configurations, against RM; plus every aggregate signature of the registry under reversed/rotated row orders and partition/batch splits (homomorphism), plus many-group families crossing the hash directory capacities; non-trivial = >= 1 row and equal to RM / equal to the P=1 value", fs.len(), nb, cfgs.len())));
    rep.cov("forms", json!(fs.len()));
    rep.cov("bags", json!(nb));
    rep.cov("skipped_unsupported", json!(unsup));
    rep.cov("distinct_outcomes", json!(outcomes.into_iter().collect::<Vec<_>>()));
    rep.cov("exhaustive", json!(true));
    rep.cov("samples", json!(fs.iter().take(3).map(|(s, q)| json!({"shape": s, "sql": q.sql()})).collect::<Vec<_>>()));
    rep.assume("the schedule clause (interleavings of partial-table flush/merge/drain) is explored by C04's aggregate shapes");
    rep.finish()
}
