pub mod c01;
pub mod rel;
