//! C16A - the buffer-boundary statement alphabet of C16 (run on the sanitizer build by the C16 driver).
//! value lengths x row counts x (partitions, batch size) x operator templates that move variable-length
//! values through row blocks, sort runs, hash tables, string heaps, selection vectors and the file readers.
//! Oracle here: rows or error, and the same rows as the reference configuration; the memory oracle is the
//! sanitizer the binary was built with.
use std::collections::BTreeSet;

use serde_json::json;

use super::rel::outcome_fail_class;
use crate::drv::{Driver, Outcome};
use crate::infra::{Replay, Report, Tier, par_run};
use crate::pqgen::*;
use crate::val::bag;

fn templates() -> Vec<(&'static str, &'static str, bool)> {
    // (name, sql over s(id, k, t, v) and r(id, k, t), ordered?)
    vec![
        ("scan", "SELECT id, k, t, v FROM s", false),
        ("filter-sel", "SELECT id, t FROM s WHERE id % 2 = 0", false),
        ("proj-concat", "SELECT id, t || '-' || t, upper(t), length(t) FROM s", false),
        ("substr", "SELECT id, substring(t, 2, 3), left(t, 12), right(t, 13), reverse(t) FROM s", false),
        ("like", "SELECT id FROM s WHERE t LIKE 'a%a' OR t LIKE '%b'", false),
        ("case-nested", "SELECT id, CASE WHEN k = 0 THEN t WHEN k = 1 THEN CASE WHEN id % 2 = 0 THEN upper(t) ELSE t END ELSE NULL END FROM s", false),
        ("sort-text", "SELECT t, id FROM s ORDER BY t DESC NULLS FIRST, id", true),
        ("sort-multi", "SELECT k, t, id FROM s ORDER BY k, t DESC, id", true),
        ("topk", "SELECT t, id FROM s ORDER BY t, id LIMIT 5", true),
        ("limit-offset", "SELECT id FROM (SELECT id FROM s ORDER BY id) q LIMIT 3 OFFSET 2047", false),
        ("groupby-text", "SELECT t, count(*), min(id), max(v) FROM s GROUP BY t", false),
        ("groupby-int", "SELECT k, count(*), min(t), max(t), sum(v) FROM s GROUP BY k", false),
        ("groupby-many", "SELECT id % 700, count(*), min(t) FROM s GROUP BY id % 700", false),
        ("agg-distinct", "SELECT count(DISTINCT t), count(DISTINCT k), sum(DISTINCT v) FROM s", false),
        ("string-agg", "SELECT k, length(string_agg(t, ',')) FROM s GROUP BY k", false),
        ("distinct", "SELECT DISTINCT t FROM s", false),
        ("union", "SELECT t FROM s UNION SELECT t FROM r", false),
        ("unionall", "SELECT id, t FROM s UNION ALL SELECT id, t FROM r", false),
        ("join-inner-text", "SELECT s.id, r.id, s.t FROM s JOIN r ON s.t = r.t", false),
        ("join-inner-int", "SELECT s.id, r.id, r.t FROM s JOIN r ON s.k = r.k AND s.id < r.id + 3", false),
        ("join-left", "SELECT s.id, r.id, r.t FROM s LEFT JOIN r ON s.id = r.id", false),
        ("join-right", "SELECT s.id, r.id, s.t FROM s RIGHT JOIN r ON s.id = r.id", false),
        ("join-semi", "SELECT id FROM s WHERE t IN (SELECT t FROM r)", false),
        ("join-anti", "SELECT id FROM s WHERE NOT EXISTS (SELECT 1 FROM r WHERE r.id = s.id)", false),
        ("join-mark", "SELECT id FROM s WHERE id IN (SELECT id FROM r) OR k = 1", false),
        ("join-nl", "SELECT s.id, r.id FROM s JOIN r ON s.id < r.id AND r.id < 4", false),
        ("scalar-subq", "SELECT id, (SELECT max(r.t) FROM r WHERE r.k = s.k) FROM s", false),
        ("matcte", "WITH c AS MATERIALIZED (SELECT id, t FROM s) SELECT a.id, a.t FROM c a UNION ALL SELECT b.id, upper(b.t) FROM c b", false),
        ("list", "SELECT id, [t, upper(t)], list_value(k, id) FROM s", false),
        ("ctas-scan", "SELECT count(*), min(t), max(t) FROM cs", false),
    ]
}

fn text_expr(l: usize) -> String {
    // three classes of values: 'a'*L, 'b'*(L+1), NULL - with the id appended to a third of them
    format!("CASE WHEN g % 5 = 0 THEN CAST(NULL AS TEXT) WHEN g % 3 = 0 THEN repeat('a', {l}) WHEN g % 3 = 1 THEN repeat('b', {}) ELSE repeat('a', {l}) || CAST(g AS TEXT) END", l + 1)
}

#[derive(Default)]
struct Res {
    evals: u64,
    nontrivial: u64,
    outcomes: BTreeSet<String>,
    fails: Vec<(String, Replay)>,
}

pub fn run(tier: Tier) -> i32 {
    let mut rep = Report::new("C16A", tier, "exploration");
    let lens: Vec<usize> = if tier.is_thorough() { vec![0, 1, 11, 12, 13, 64, 4096, 70000] } else { vec![0, 1, 12, 13, 4096] };
    let counts: Vec<usize> = if tier.is_thorough() { vec![0, 1, 2, 5, 2047, 2048, 2049, 4097] } else { vec![0, 1, 5, 2048, 2049] };
    let cfgs: Vec<(usize, usize)> = if tier.is_thorough() { vec![(1, 2048), (1, 1), (1, 2), (1, 3), (2, 2), (3, 7), (3, 2048), (8, 4096)] } else { vec![(1, 2048), (1, 1), (2, 3), (3, 2048)] };
    let mut work: Vec<(usize, usize)> = Vec::new();
    for &l in &lens {
        for &n in &counts {
            // long values with few rows, many rows with short values (8 MB of 4 KiB strings take the engine >10 s)
            if l * n > 120_000 {
                continue;
            }
            work.push((l, n));
        }
    }
    let tpls = templates();
    let results = par_run(work.len(), Driver::new, |d, i| {
        let mut res = Res::default();
        let (l, n) = work[i];
        *d = Driver::new();
        // the supervisor keys a statement that exceeds the wall limit by (text, file-system state): keep the
        // work items apart so that one slow combination is not attributed to all of them
        d.fs.put(".item", format!("{l}-{n}").into_bytes());
        // sources: a derived table over generate_series (honours batch_size) materialised as views, plus a TEMP-table copy
        let te = text_expr(l);
        let setup = vec![
            format!("CREATE TEMP VIEW s AS SELECT g AS id, g % 3 AS k, {te} AS t, CAST(g AS BIGINT) * 1000000007 AS v FROM generate_series(1, {n}) q(g)"),
            format!("CREATE TEMP VIEW r AS SELECT g AS id, g % 4 AS k, {te} AS t FROM generate_series(1, {}) q(g)", (n / 2).max(if n > 0 { 1 } else { 0 })),
            format!("CREATE TEMP TABLE cs AS SELECT id, t FROM s WHERE id <= {n} AND {l} >= 0"),
        ];
        for sq in &setup {
            let o = d.q(sq);
            if !o.is_rows() {
                res.fails.push((format!("C16A|setup:{}|L{l}", outcome_fail_class(&o).unwrap_or_else(|| "error".into())), Replay { check: "C16A".into(), steps: vec![(0, sq.clone())], expected: "rows".into(), observed: o.brief(), ..Default::default() }));
                return res;
            }
        }
        for (tn, sql, ordered) in &tpls {
            if n > 2047 && (tn.starts_with("join-nl") || *tn == "join-inner-int" || *tn == "join-inner-text") {
                continue; // quadratic outputs (a third of the rows share one key)
            }
            let mut reference: Option<Outcome> = None;
            for &(p, b) in &cfgs {
                if d.dirty {
                    *d = Driver::new();
                    for sq in &setup {
                        let _ = d.q(sq);
                    }
                }
                // TEMP-table scans ignore batch_size (known finding under C03): the table template runs with the default only
                if *tn == "ctas-scan" && b != 2048 {
                    continue;
                }
                let sets = vec![format!("SET partitions TO {p}"), format!("SET batch_size TO {b}")];
                for s in &sets {
                    let _ = d.q(s);
                }
                let o = d.q(sql);
                res.evals += 1;
                res.outcomes.insert(o.class().to_string());
                let mk = |expected: String, observed: String| Replay { check: "C16A".into(), steps: setup.iter().chain(sets.iter()).cloned().map(|s| (0usize, s)).chain(std::iter::once((0usize, sql.to_string()))).collect(), expected, observed, note: format!("L={l} n={n} P={p} B={b}"), ..Default::default() };
                if let Some(c) = outcome_fail_class(&o) {
                    res.fails.push((format!("C16A|{c}|{tn}"), mk("rows or error".into(), o.brief())));
                    continue;
                }
                match (&reference, &o) {
                    (None, _) => reference = Some(o.clone()),
                    (Some(Outcome::Rows(a)), Outcome::Rows(bb)) => {
                        let same = if *ordered { a.rows == bb.rows } else { bag(&a.rows) == bag(&bb.rows) };
                        // a top-k / limit over ties may legitimately pick other rows: compare counts only
                        let same = same || ((*tn == "topk" || *tn == "limit-offset") && a.rows.len() == bb.rows.len());
                        if !same {
                            res.fails.push((format!("C16A|differs-between-configurations|{tn}"), mk(format!("{} rows as under P=1 B=2048", a.rows.len()), format!("{} rows", bb.rows.len()))));
                        } else if !bb.rows.is_empty() {
                            res.nontrivial += 1;
                        }
                    }
                    _ => {}
                }
            }
        }
        // file readers with the same value lengths (Parquet PLAIN / DICT / DELTA_BYTE_ARRAY pages, CSV)
        if n > 0 && n <= 2049 && l <= 4096 {
            let vals: Vec<Option<PV>> = (0..n).map(|g| if g % 5 == 0 { None } else { Some(PV::Bytes(if g % 3 == 0 { vec![b'a'; l] } else { let mut v = vec![b'b'; l + 1]; v.extend(g.to_string().bytes()); v })) }).collect();
            for enc in [Enc::Plain, Enc::Dict, Enc::DeltaByteArray, Enc::DeltaLengthByteArray] {
                let page_rows = vec![(n / 3).max(1)];
                let col = Column { name: "t".into(), phys: Phys::ByteArray, logical: Logical::Utf8, optional: true, values: vals.clone(), enc, old_dict_id: false, v2: n % 2 == 0, codec: if l == 12 { Codec::Snappy } else { Codec::None }, levels: LevelMode::Mixed, stats: StatsMode::Exact, page_rows };
                let (bytes, _) = write_file(&[col], &[n.max(1)]);
                d.fs.put("f.parquet", bytes.clone());
                for b in [2048usize, 1, 7] {
                    if d.dirty {
                        break;
                    }
                    let _ = d.q(&format!("SET batch_size TO {b}"));
                    let sql = "SELECT count(*), count(t), min(length(t)), max(length(t)) FROM read_parquet('f.parquet')";
                    let o = d.q(sql);
                    res.evals += 1;
                    if let Some(c) = outcome_fail_class(&o) {
                        res.fails.push((format!("C16A|{c}|parquet:{enc:?}"), Replay { check: "C16A".into(), files: vec![("f.parquet".into(), bytes.clone())], steps: vec![(0, format!("SET batch_size TO {b}")), (0, sql.to_string())], expected: "rows or error".into(), observed: o.brief(), note: format!("L={l} n={n}"), ..Default::default() }));
                    } else if o.is_rows() {
                        res.nontrivial += 1;
                    }
                }
            }
            if !d.dirty {
                let mut csv = String::from("id,t\n");
                for g in 0..n.min(300) {
                    csv.push_str(&format!("{g},\"{}\"\n", "c".repeat(if g % 2 == 0 { l } else { l + 1 })));
                }
                d.fs.put("f.csv", csv.into_bytes());
                let size = d.fs.st.lock().files.get("f.csv").map(|f| f.len()).unwrap_or(0);
                for chunk in [None, Some(1usize), Some(13)] {
                    if chunk == Some(1) && size > 20_000 {
                        continue; // a million one-byte reads are slow in the harness itself
                    }
                    d.fs.set_max_chunk(chunk);
                    let o = d.q("SELECT count(*), max(length(t)) FROM read_csv('f.csv')");
                    res.evals += 1;
                    if let Some(c) = outcome_fail_class(&o) {
                        res.fails.push((format!("C16A|{c}|csv"), Replay { check: "C16A".into(), steps: vec![(0, "SELECT count(*), max(length(t)) FROM read_csv('f.csv')".into())], expected: "rows or error".into(), observed: o.brief(), note: format!("L={l} n={n} read chunk {chunk:?}"), ..Default::default() }));
                    }
                }
                d.fs.set_max_chunk(None);
            }
        }
        res
    });
    let (mut evals, mut nontriv) = (0u64, 0u64);
    let mut outcomes = BTreeSet::new();
    for r in results {
        evals += r.evals;
        nontriv += r.nontrivial;
        outcomes.extend(r.outcomes);
        for (k, rp) in r.fails {
            rep.fail(k, rp);
        }
    }
    rep.cov("evaluations", json!(evals));
    rep.cov("distinct_nontrivial", json!(nontriv));
    rep.cov("rule", json!(format!("value byte lengths {lens:?} (inline / heap switch at 12, multi-block heap) x row counts {counts:?} (around the 2048-row chunk) x (partitions, batch_size) {cfgs:?} x {} operator templates (scan, selection, string functions, nested CASE, sorts, top-k, limit/offset, group by text / int / many groups, DISTINCT aggregates, string_agg, DISTINCT, UNION, all join kinds incl. nested loop, scalar subquery, materialized CTE, lists, CTAS + table scan) plus Parquet (PLAIN / dictionary / DELTA_BYTE_ARRAY / DELTA_LENGTH_BYTE_ARRAY) and CSV reads of the same values; every result must equal the P=1 B=2048 result; non-trivial = agreeing non-empty results", tpls.len())));
    rep.cov("distinct_outcomes", json!(outcomes.into_iter().collect::<Vec<_>>()));
    rep.cov("exhaustive", json!(true));
    rep.cov("samples", json!([{"L": lens[lens.len() / 2], "n": counts[counts.len() / 2], "template": tpls[6].1}]));
    rep.finish()
}
