//! C03 - results are independent of partitions, batch size and join algorithm.
use serde_json::json;

use super::c02::{full_dbs, rewrite_families, run_raw};
use super::diff::{self, Config, Tolerance};
use super::rel::{RawFail, Worker, blame, outcome_fail_class};
use crate::alg::{self, DbInst};
use crate::drv::Outcome;
use crate::infra::{Replay, Report, Tier, par_run, samples};
use crate::val::bag;

pub fn config(p: usize, b: usize, hj: bool) -> Config {
    Config {
        name: format!("P{p}B{b}HJ{}", if hj { "on" } else { "off" }),
        sets: vec![format!("SET partitions TO {p}"), format!("SET batch_size TO {b}"), format!("SET enable_hash_joins TO {}", hj)],
    }
}

pub fn configs(tier: Tier) -> Vec<Config> {
    let (ps, bs): (&[usize], &[usize]) = match tier {
        Tier::Quick => (&[1, 3], &[1, 3, 2048]),
        Tier::Thorough => (&[1, 2, 3, 8], &[1, 2, 3, 4, 7, 2048]),
    };
    let mut out = Vec::new();
    for &p in ps {
        for &b in bs {
            for hj in [true, false] {
                if p == 1 && b == 2048 && hj {
                    continue; // the reference
                }
                out.push(config(p, b, hj));
            }
        }
    }
    out
}

/// DML family: CREATE TABLE AS / INSERT ... SELECT with a following scan. The
/// observation is (reported row count, resulting table contents).
fn dml_case(w: &mut Worker, db: &DbInst, src_sql: &str, c: &Config) -> (Vec<String>, Outcome, Outcome, Outcome) {
    let mut steps = db.setup_sql();
    steps.push("DROP TABLE IF EXISTS x".into());
    for s in &steps {
        w.d.must(s);
    }
    for s in &c.sets {
        w.d.must(s);
        steps.push(s.clone());
    }
    let ctas = format!("CREATE TEMP TABLE x AS {src_sql}");
    let o1 = w.d.q(&ctas);
    steps.push(ctas);
    if w.d.dirty {
        return (steps, o1, Outcome::Hang { detail: "skipped".into() }, Outcome::Hang { detail: "skipped".into() });
    }
    let ins = format!("INSERT INTO x {src_sql}");
    let o2 = w.d.q(&ins);
    steps.push(ins);
    if w.d.dirty {
        return (steps, o1, o2, Outcome::Hang { detail: "skipped".into() });
    }
    let o3 = w.d.q("SELECT * FROM x");
    steps.push("SELECT * FROM x".into());
    (steps, o1, o2, o3)
}

/// Databases whose tables span several batches: t has n rows, u has m rows.
pub fn edge_dbs(sizes: &[(usize, usize)]) -> Vec<DbInst> {
    use crate::val::Val;
    let mut out = Vec::new();
    for &(n, m) in sizes {
        let trows = (0..n)
            .map(|i| {
                vec![
                    if i % 4 == 3 { Val::Null } else { Val::Int((i % 3) as i128) },
                    if i % 5 == 4 { Val::Null } else { Val::Int((i % 2 + 1) as i128) },
                    match i % 3 {
                        0 => Val::Str("x".into()),
                        1 => Val::Str(format!("long-string-{i:03}")),
                        _ => Val::Null,
                    },
                ]
            })
            .collect();
        let urows = (0..m).map(|i| vec![if i % 5 == 2 { Val::Null } else { Val::Int((i % 4) as i128) }, if i % 3 == 1 { Val::Null } else { Val::Int((i % 2 + 1) as i128) }]).collect();
        out.push(DbInst { tables: vec![("t".into(), trows), ("u".into(), urows)] });
    }
    out
}

fn same_rows(a: &Outcome, b: &Outcome) -> Result<(), String> {
    match (a, b) {
        (Outcome::Rows(x), Outcome::Rows(y)) => {
            if x.names != y.names || x.types != y.types {
                return Err(format!("schema differs: {:?}/{:?} vs {:?}/{:?}", x.names, x.types, y.names, y.types));
            }
            if bag(&x.rows) != bag(&y.rows) {
                return Err(format!("rows differ: {} vs {}", crate::val::fmt_rows(&x.rows, 10), crate::val::fmt_rows(&y.rows, 10)));
            }
            Ok(())
        }
        (Outcome::Error { .. }, Outcome::Error { .. }) => Ok(()),
        _ => Err(format!("{} vs {}", a.brief(), b.brief())),
    }
}

pub fn run(tier: Tier) -> i32 {
    let mut rep = Report::new("C03", tier, "exploration");
    let reference = config(1, 2048, true);
    let others = configs(tier);
    let (depth, full, r, budget) = match tier {
        Tier::Quick => (2, false, 2, 6),
        Tier::Thorough => (2, true, 3, 40),
    };
    let mut terms: Vec<_> = alg::terms(depth, full).into_iter().filter(|t| t.barrier).collect();
    if tier == Tier::Quick {
        // depth-2 terms: keep those whose top operator is a barrier over a barrier-free input or vice versa (all are kept at depth <= 1)
        terms.retain(|t| t.depth <= 1 || t.shape.matches('(').count() <= 2);
    }
    let results = par_run(terms.len(), Worker::new, |w, i| diff::diff_term("C03", w, i, &terms[i], r, budget, &reference, &others, Tolerance::None, &[0, 1]));
    let (mut evals, mut nontriv, mut botherr, mut pairs) = (0u64, 0u64, 0u64, 0u64);
    let mut outcomes = std::collections::BTreeSet::new();
    let mut fails = Vec::new();
    for s in results {
        evals += s.evals;
        nontriv += s.nontrivial;
        botherr += s.both_error;
        pairs += s.dbs;
        outcomes.extend(s.outcomes);
        fails.extend(s.fails);
    }
    for (key, replay) in blame("C03", &terms, &fails) {
        rep.fail(key, replay);
    }
    // raw families (joins, subqueries, CTEs) over full databases
    let fams: Vec<_> = rewrite_families().into_iter().filter(|f| !f.name.starts_with("selreorder:error") && !f.fold_error).collect();
    let dbs = if tier.is_thorough() { full_dbs(2, 1) } else { full_dbs(1, 1).into_iter().step_by(3).collect() };
    let results = par_run(dbs.len(), Worker::new, |w, i| run_raw("C03", w, &dbs[i], &fams, &reference, &others, Tolerance::None));
    for s in results {
        evals += s.evals;
        nontriv += s.nontrivial;
        botherr += s.both_error;
        outcomes.extend(s.outcomes);
        for f in s.fails {
            rep.fail(format!("C03|{}|family:{}", f.class, fams[f.term_idx].name), f.replay);
        }
    }
    // edge databases: more rows than one batch / several batches per partition
    let sizes: &[(usize, usize)] = if tier.is_thorough() { &[(5, 5), (9, 4), (4, 9), (17, 17), (33, 7), (2, 40)] } else { &[(5, 5), (9, 4)] };
    let edbs = edge_dbs(sizes);
    let eterms: Vec<_> = terms.iter().filter(|t| t.depth <= 1).cloned().collect();
    // (a) inline VALUES sources (they honour batch_size) under every configuration;
    // (b) TEMP-table sources under the configurations whose batch_size covers the stored chunk;
    // (c) TEMP-table sources under small batch sizes: its own family, because a table scan emits whole
    //     stored chunks whatever batch_size says (known finding) and that must not mask (a) and (b).
    let big_b: Vec<Config> = others.iter().filter(|c| c.name.contains("B2048")).cloned().collect();
    let small_b: Vec<Config> = others.iter().filter(|c| !c.name.contains("B2048")).cloned().collect();
    let n_e = eterms.len() * edbs.len();
    let eresults = par_run(n_e * 3, Worker::new, |w, k| {
        let part = k / n_e;
        let kk = k % n_e;
        let t = &eterms[kk / edbs.len()];
        let db = &edbs[kk % edbs.len()];
        let st = match part {
            0 => diff::diff_term_on_db("C03", w, kk / edbs.len(), t, db, &reference, &others, Tolerance::None, 1),
            1 => diff::diff_term_on_db("C03", w, kk / edbs.len(), t, db, &reference, &big_b, Tolerance::None, 0),
            _ => diff::diff_term_on_db("C03", w, kk / edbs.len(), t, db, &reference, &small_b, Tolerance::None, 0),
        };
        (part, st)
    });
    let mut efails: Vec<Vec<RawFail>> = vec![Vec::new(), Vec::new(), Vec::new()];
    for (part, s) in eresults {
        evals += s.evals;
        nontriv += s.nontrivial;
        botherr += s.both_error;
        outcomes.extend(s.outcomes);
        efails[part].extend(s.fails);
    }
    for (part, tag) in [(0usize, "edge-values"), (1, "edge-tables"), (2, "tempscan-smallbatch")] {
        for (key, replay) in blame("C03", &eterms, &efails[part]) {
            if part == 2 {
                // key = family | class without the configuration | shape
                let mut it = key.splitn(3, '|');
                let _ = it.next();
                let class = it.next().unwrap_or("");
                let class = class.split('@').next().unwrap_or(class);
                rep.fail(format!("C03|{tag}|{class}"), replay);
            } else {
                rep.fail(key.replacen("C03|", &format!("C03|{tag}:"), 1), replay);
            }
        }
    }
    let fam_edge = par_run(edbs.len(), Worker::new, |w, i| run_raw("C03", w, &edbs[i], &fams, &reference, &big_b, Tolerance::None));
    for s in fam_edge {
        evals += s.evals;
        nontriv += s.nontrivial;
        botherr += s.both_error;
        outcomes.extend(s.outcomes);
        for f in s.fails {
            rep.fail(format!("C03|edge:{}|family:{}", f.class, fams[f.term_idx].name), f.replay);
        }
    }
    // DML family
    let dml_srcs: Vec<(&str, &str)> = vec![
        ("scan", "SELECT a, b, c FROM t"),
        ("filter", "SELECT a, b FROM t WHERE a = 1 OR b IS NULL"),
        ("join", "SELECT t.a, t.b, u.d FROM t JOIN u ON t.a = u.a"),
        ("leftjoin", "SELECT t.a, t.b, u.d FROM t LEFT JOIN u ON t.a = u.a"),
        ("group", "SELECT a, count(*) AS n, sum(b) AS s FROM t GROUP BY a"),
        ("distinct", "SELECT DISTINCT a FROM t"),
        ("union", "SELECT a FROM t UNION ALL SELECT a FROM u"),
        ("sortlimit", "SELECT a, b, c FROM t ORDER BY 1, 2, 3 LIMIT 1"),
        ("values", "SELECT * FROM (VALUES (1, 'a'), (2, 'b'), (3, NULL)) v(p, q)"),
        ("series", "SELECT g AS p, g % 3 AS q FROM generate_series(1, 10) s(g)"),
    ];
    let dml_dbs: Vec<DbInst> = if tier.is_thorough() { full_dbs(2, 1).into_iter().step_by(7).collect() } else { full_dbs(1, 1).into_iter().step_by(9).collect() };
    let n_dml = dml_dbs.len() * dml_srcs.len();
    let dml_results = par_run(n_dml, Worker::new, |w, k| {
        let db = &dml_dbs[k / dml_srcs.len()];
        let (sname, src) = dml_srcs[k % dml_srcs.len()];
        let mut out: Vec<RawFail> = Vec::new();
        let mut ev = 0u64;
        w.ensure_clean();
        let (_, r1, r2, r3) = dml_case(w, db, src, &reference);
        ev += 3;
        for c in &others {
            w.ensure_clean();
            let (steps, o1, o2, o3) = dml_case(w, db, src, c);
            ev += 3;
            let mut bad: Option<(String, String)> = None;
            for (o, rref, what) in [(&o1, &r1, "ctas-count"), (&o2, &r2, "insert-count"), (&o3, &r3, "contents")] {
                if let Some(cl) = outcome_fail_class(o) {
                    if matches!(o, Outcome::Hang { detail } if detail == "skipped") {
                        continue;
                    }
                    bad = Some((cl, o.brief()));
                    break;
                }
                if outcome_fail_class(rref).is_some() {
                    continue;
                }
                if let Err(e) = same_rows(rref, o) {
                    bad = Some((format!("dml-{what}-differs"), e));
                    break;
                }
            }
            if let Some((class, detail)) = bad {
                out.push(RawFail { term_idx: k % dml_srcs.len(), class: format!("{}@{}", class, c.name), replay: Replay { check: "C03".into(), steps: steps.into_iter().map(|s| (0usize, s)).collect(), expected: format!("same counts and contents as under {}", reference.name), observed: detail, note: format!("dml={} db={}", sname, db.describe()), ..Default::default() } });
            }
        }
        (ev, out)
    });
    for (ev, fs) in dml_results {
        evals += ev;
        for f in fs {
            rep.fail(format!("C03|{}|dml:{}", f.class, dml_srcs[f.term_idx].0), f.replay);
        }
    }
    rep.cov("evaluations", json!(evals));
    rep.cov("distinct_nontrivial", json!(nontriv));
    rep.cov("rule", json!(format!("every barrier-containing algebra term (depth <= {depth}) x every database of its scope (<= {r} rows, budget {budget}) x {} configurations of (partitions, batch_size, enable_hash_joins) vs the reference configuration P1B2048HJon; plus {} join/subquery/CTE statements x {} full databases; plus {} CTAS/INSERT..SELECT sources x {} databases (row counts and table contents); non-trivial = >= 1 row returned and equal to the reference", others.len(), fams.len(), dbs.len(), dml_srcs.len(), dml_dbs.len())));
    rep.cov("terms", json!(terms.len()));
    rep.cov("term_db_pairs", json!(pairs));
    rep.cov("configurations", json!(others.iter().map(|c| c.name.clone()).collect::<Vec<_>>()));
    rep.cov("both_sides_error", json!(botherr));
    rep.cov("distinct_outcomes", json!(outcomes.into_iter().collect::<Vec<_>>()));
    rep.cov("exhaustive", json!(true));
    rep.cov("samples", json!(samples(&terms).iter().map(|t| json!({"shape": t.shape, "sql": t.q.sql()})).collect::<Vec<_>>()));
    rep.assume("the thread-count clause is decided by C04 (schedule exploration is a superset of any worker count)");
    rep.finish()
}
