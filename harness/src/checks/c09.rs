//! C09 - correlated subqueries, CTEs and views mean what nested evaluation means.
use std::collections::BTreeSet;

use serde_json::json;

use super::rel::outcome_fail_class;
use crate::alg::bags;
use crate::drv::{Driver, Outcome};
use crate::infra::{Replay, Report, Tier, msg_template, par_run};
use crate::rm::*;
use crate::val::{Row, Val, bag};

fn ag(f: AggF, arg: Option<E>) -> E {
    E::Agg { f, arg: arg.map(Box::new), distinct: false, filter: None }
}

fn sel1(e: E, from: From, wh: Option<E>) -> Query {
    Query::of(Select { distinct: false, items: vec![Item::Expr(e, None)], from: Some(from), where_: wh, group_by: GroupBy::None, having: None })
}

/// correlated subquery bodies: (name, query, at most one row?)
fn subs(full: bool) -> Vec<(&'static str, Query, bool)> {
    let corr = || bin(Op::Eq, qcol("i", "a"), qcol("o", "a"));
    let mut v: Vec<(&'static str, Query, bool)> = vec![
        ("none", sel1(qcol("i", "c"), table("i"), None), false),
        ("filter", sel1(qcol("i", "c"), table("i"), Some(corr())), false),
        ("proj", sel1(bin(Op::Add, qcol("i", "c"), qcol("o", "b")), table("i"), Some(corr())), false),
        ("count", sel1(ag(AggF::CountStar, None), table("i"), Some(corr())), true),
        ("sum", sel1(ag(AggF::Sum, Some(qcol("i", "c"))), table("i"), Some(corr())), true),
        ("max", sel1(ag(AggF::Max, Some(qcol("i", "c"))), table("i"), Some(corr())), true),
    ];
    // the subquery has a GROUP BY of its own (the decorrelation must add the correlated columns to every grouping set)
    let grouped = |item: E, key: E, having: Option<E>| Query::of(Select { distinct: false, items: vec![Item::Expr(item, None)], from: Some(table("i")), where_: Some(corr()), group_by: GroupBy::Plain(vec![key]), having });
    v.push(("grouped-sum", grouped(ag(AggF::Sum, Some(qcol("i", "c"))), qcol("i", "c"), None), false));
    v.push(("grouped-key", grouped(qcol("i", "c"), qcol("i", "c"), None), false));
    v.push(("grouped-count-having", grouped(ag(AggF::CountStar, None), qcol("i", "a"), Some(bin(Op::Gt, ag(AggF::CountStar, None), E::Int(1)))), true));
    let mut lim = sel1(qcol("i", "c"), table("i"), Some(corr()));
    lim.order_by = vec![OrderKey { ordinal: 1, desc: false, nulls_first: None, by_name: false }];
    lim.limit = Some(1);
    v.push(("limit1", lim, true));
    let mut dist = sel1(qcol("i", "c"), table("i"), Some(corr()));
    if let Body::Select(s) = &mut dist.body {
        s.distinct = true;
    }
    v.push(("distinct", dist, false));
    if full {
        let j = From::Join { kind: JoinKind::Inner, l: Box::new(table("i")), r: Box::new(table_as("i", "i2")), on: Some(bin(Op::Eq, qcol("i", "a"), qcol("i2", "a"))), using: vec![], natural: false, comma: false };
        v.push(("join", sel1(qcol("i", "c"), j, Some(corr())), false));
        let inner_outer = sel1(E::Int(1), table_as("i", "i3"), Some(bin(Op::Eq, qcol("i3", "a"), qcol("o", "a"))));
        v.push(("nested-outermost", sel1(qcol("i", "c"), table("i"), Some(E::Exists(Box::new(inner_outer), false))), false));
        let inner_mid = sel1(E::Int(1), table_as("i", "i3"), Some(bin(Op::Eq, qcol("i3", "c"), qcol("i", "c"))));
        v.push(("nested-middle", sel1(qcol("i", "c"), table("i"), Some(bin(Op::And, corr(), E::Exists(Box::new(inner_mid), false)))), false));
        v.push(("filter-ne", sel1(qcol("i", "c"), table("i"), Some(bin(Op::Ne, qcol("i", "a"), qcol("o", "a")))), false));
        v.push(("count-nocorr", sel1(ag(AggF::CountStar, None), table("i"), None), true));
    }
    v
}

fn forms(full: bool) -> Vec<(String, Query)> {
    let mut out = Vec::new();
    let oitems = || vec![Item::Expr(qcol("o", "a"), None), Item::Expr(qcol("o", "b"), None)];
    let outer = |wh: Option<E>, extra: Vec<Item>| {
        let mut items = oitems();
        items.extend(extra);
        Query::of(Select { distinct: false, items, from: Some(table("o")), where_: wh, group_by: GroupBy::None, having: None })
    };
    let ob = || qcol("o", "b");
    for (sn, sq, single) in subs(full) {
        let b = || Box::new(sq.clone());
        // WHERE positions
        out.push((format!("where:exists:{sn}"), outer(Some(E::Exists(b(), false)), vec![])));
        out.push((format!("where:notexists:{sn}"), outer(Some(E::Exists(b(), true)), vec![])));
        out.push((format!("where:in:{sn}"), outer(Some(E::InQ(Box::new(ob()), b(), false)), vec![])));
        out.push((format!("where:notin:{sn}"), outer(Some(E::InQ(Box::new(ob()), b(), true)), vec![])));
        for (on, op) in [("eq", Op::Eq), ("ne", Op::Ne), ("lt", Op::Lt), ("ge", Op::Ge)] {
            out.push((format!("where:{on}any:{sn}"), outer(Some(E::Quant(op, false, Box::new(ob()), b())), vec![])));
            out.push((format!("where:{on}all:{sn}"), outer(Some(E::Quant(op, true, Box::new(ob()), b())), vec![])));
        }
        // scalar uses
        out.push((format!("where:scalar-eq:{sn}"), outer(Some(bin(Op::Eq, ob(), E::Scalar(b()))), vec![])));
        out.push((format!("select:scalar:{sn}"), outer(None, vec![Item::Expr(E::Scalar(b()), Some("sq".into()))])));
        if single {
            out.push((format!("where:scalar-lt:{sn}"), outer(Some(bin(Op::Lt, ob(), E::Scalar(b()))), vec![])));
            out.push((format!("case:scalar:{sn}"), outer(None, vec![Item::Expr(E::Case(vec![(bin(Op::Eq, ob(), E::Int(1)), E::Scalar(b()))], Some(Box::new(E::Int(0)))), Some("cs".into()))])));
        }
        // boolean subquery results in the select list / CASE
        out.push((format!("select:exists:{sn}"), outer(None, vec![Item::Expr(E::Exists(b(), false), Some("ex".into()))])));
        out.push((format!("select:in:{sn}"), outer(None, vec![Item::Expr(E::InQ(Box::new(ob()), b(), false), Some("inq".into()))])));
        out.push((format!("case:exists:{sn}"), outer(None, vec![Item::Expr(E::Case(vec![(E::Exists(b(), false), E::Int(1))], Some(Box::new(E::Int(0)))), Some("ce".into()))])));
        // OR with another predicate (mark join)
        out.push((format!("where:exists-or:{sn}"), outer(Some(bin(Op::Or, E::Exists(b(), false), bin(Op::Eq, ob(), E::Int(3)))), vec![])));
        // LATERAL
        if sn != "none" || full {
            let mut lq = sq.clone();
            if let Body::Select(s) = &mut lq.body {
                if let Item::Expr(e, _) = &s.items[0] {
                    s.items[0] = Item::Expr(e.clone(), Some("lv".into()));
                }
            }
            let f = From::Join { kind: JoinKind::Cross, l: Box::new(table("o")), r: Box::new(From::Sub { q: Box::new(lq), alias: "lt".into(), lateral: true }), on: None, using: vec![], natural: false, comma: true };
            out.push((format!("lateral:{sn}"), Query::of(Select { distinct: false, items: vec![Item::Expr(qcol("o", "a"), None), Item::Expr(qcol("o", "b"), None), Item::Expr(qcol("lt", "lv"), None)], from: Some(f), where_: None, group_by: GroupBy::None, having: None })));
        }
        // HAVING (outer grouped by a)
        if single {
            let mut hq = Query::of(Select { distinct: false, items: vec![Item::Expr(qcol("o", "a"), None), Item::Expr(ag(AggF::CountStar, None), Some("n".into()))], from: Some(table("o")), where_: None, group_by: GroupBy::Plain(vec![qcol("o", "a")]), having: Some(bin(Op::Ge, ag(AggF::CountStar, None), E::Scalar(b()))) });
            hq.limit = None;
            out.push((format!("having:scalar:{sn}"), hq));
        }
    }
    out
}

/// CTE / view / inline equivalence: (name, defining query over o and i)
fn definitions() -> Vec<(&'static str, &'static str)> {
    vec![
        ("scan", "SELECT a, b FROM o"),
        ("filter", "SELECT a, b FROM o WHERE a = 1 OR b IS NULL"),
        ("join", "SELECT o.a AS a, i.c AS b FROM o JOIN i ON o.a = i.a"),
        ("leftjoin", "SELECT o.a AS a, i.c AS b FROM o LEFT JOIN i ON o.a = i.a"),
        ("agg", "SELECT a, count(*) AS b FROM o GROUP BY a"),
        ("distinct", "SELECT DISTINCT a, b FROM o"),
        ("union", "SELECT a, b FROM o UNION ALL SELECT a, c FROM i"),
        ("sortlimit", "SELECT a, b FROM o ORDER BY 1, 2 LIMIT 1"),
        ("subquery", "SELECT a, b FROM o WHERE EXISTS (SELECT 1 FROM i WHERE i.a = o.a)"),
    ]
}

/// uses of a relation named X(a, b): (name, sql template with {X})
fn uses() -> Vec<(&'static str, &'static str)> {
    vec![
        ("ref1", "SELECT a, b FROM {X}"),
        ("ref1-filter", "SELECT a, b FROM {X} WHERE b >= 1"),
        ("ref2-union", "SELECT a, b FROM {X} UNION ALL SELECT b, a FROM {X}"),
        ("ref2-cross-count", "SELECT count(*) AS n FROM {X} AS x1, {X} AS x2"),
        ("ref2-subquery", "SELECT a, b FROM {X} AS x1 WHERE a IN (SELECT b FROM {X})"),
        ("ref3", "SELECT (SELECT count(*) FROM {X}) AS n1, (SELECT count(*) FROM {X} WHERE a IS NULL) AS n2, (SELECT count(*) FROM {X} WHERE b IS NULL) AS n3"),
        ("ref1-agg", "SELECT a, count(*) AS n, sum(b) AS s FROM {X} GROUP BY a"),
        ("ref2-join-other", "SELECT x1.a, i.c FROM {X} AS x1 JOIN i ON x1.a = i.a WHERE x1.b IN (SELECT b FROM {X})"),
        // a filter that applies to ONE reference only: the other reference still sees every row of the definition
        ("ref2-filter-one-in", "SELECT x1.a, x1.b FROM {X} AS x1 WHERE x1.a >= 2 AND x1.b IN (SELECT b FROM {X})"),
        ("ref2-filter-one-union", "SELECT count(*) AS n FROM {X} WHERE a >= 2 UNION ALL SELECT count(*) FROM {X}"),
        ("ref2-filter-one-scalar", "SELECT x1.a, (SELECT count(*) FROM {X} AS x2 WHERE x2.b <= x1.b) AS n FROM {X} AS x1 WHERE x1.a >= 2"),
    ]
}

#[derive(Default)]
struct Res {
    evals: u64,
    nontrivial: u64,
    unsupported: u64,
    outcomes: BTreeSet<String>,
    fails: Vec<(String, Replay)>,
}

fn lit(v: &Val) -> String {
    match v {
        Val::Null => "NULL".into(),
        Val::Int(i) => format!("{i}"),
        o => format!("{o}"),
    }
}

fn setup_sql(orows: &[Row], irows: &[Row]) -> Vec<String> {
    // DROP VIEW is not implemented: every database gets a fresh engine instead
    // a small batch size keeps the per-operator buffers small (the data has <= 3 rows per table)
    let mut s = vec!["SET batch_size TO 16".to_string(), "CREATE TEMP TABLE o (a INT, b INT)".into(), "CREATE TEMP TABLE i (a INT, c INT)".into()];
    if !orows.is_empty() {
        s.push(format!("INSERT INTO o VALUES {}", orows.iter().map(|r| format!("({}, {})", lit(&r[0]), lit(&r[1]))).collect::<Vec<_>>().join(", ")));
    }
    if !irows.is_empty() {
        s.push(format!("INSERT INTO i VALUES {}", irows.iter().map(|r| format!("({}, {})", lit(&r[0]), lit(&r[1]))).collect::<Vec<_>>().join(", ")));
    }
    s
}

fn run_db(orows: &[Row], irows: &[Row], fs: &[(String, Query)], tier: Tier, d: &mut Driver, res: &mut Res) {
    let mut db = Db::default();
    db.add_table("o", &[("a", Ty::Int32), ("b", Ty::Int32)], orows.to_vec());
    db.add_table("i", &[("a", Ty::Int32), ("c", Ty::Int32)], irows.to_vec());
    let setup = setup_sql(orows, irows);
    let prep = |d: &mut Driver| {
        for s in &setup {
            d.must(s);
        }
    };
    *d = Driver::new();
    prep(d);
    let cfgs: Vec<(&str, Vec<&str>)> = if tier.is_thorough() { vec![("default", vec!["SET enable_optimizer TO true", "SET partitions TO 1"]), ("noopt", vec!["SET enable_optimizer TO false"]), ("P3", vec!["SET enable_optimizer TO true", "SET partitions TO 3"])] } else { vec![("default", vec!["SET enable_optimizer TO true"]), ("noopt", vec!["SET enable_optimizer TO false"])] };
    let mut seen = BTreeSet::new();
    for (cname, sets) in &cfgs {
        for (shape, q) in fs {
            if d.dirty {
                *d = Driver::new();
                prep(d);
            }
            for s in sets {
                d.must(s);
            }
            let sql = q.sql();
            let out = d.q(&sql);
            res.evals += 1;
            let mut fail: Option<(String, String, String)> = None;
            match &out {
                Outcome::Rows(r) => match check_result(&db, q, &r.names, &r.types, &r.rows) {
                    Ok(None) => {
                        if !r.rows.is_empty() {
                            res.nontrivial += 1;
                        }
                        res.outcomes.insert(format!("rows:{}", r.rows.len().min(4)));
                    }
                    Ok(Some(m)) => fail = Some((m.class().into(), "per-outer-row evaluation (RM)".into(), m.text().into())),
                    Err(RmErr::Runtime(e)) => fail = Some(("missing-error".into(), e, out.brief())),
                    Err(RmErr::Unsupported(_)) => res.unsupported += 1,
                },
                Outcome::Error { msg, .. } => match eval_query(&db, q) {
                    Err(RmErr::Runtime(_)) => {
                        res.nontrivial += 1;
                        res.outcomes.insert("expected-error".into());
                    }
                    Err(RmErr::Unsupported(_)) => res.unsupported += 1,
                    Ok(_) => {
                        if out.not_implemented() {
                            res.outcomes.insert("not-implemented".into());
                        } else {
                            fail = Some((format!("unexpected-error:{}", msg_template(msg)), "rows".into(), msg.clone()));
                        }
                    }
                },
                o => fail = Some((outcome_fail_class(o).unwrap(), "rows".into(), o.brief())),
            }
            if let Some((class, expected, observed)) = fail {
                let key = format!("C09|{class}|{shape}");
                if seen.insert(format!("{key}/{cname}")) {
                    let mut steps: Vec<(usize, String)> = setup.iter().map(|s| (0usize, s.clone())).collect();
                    steps.extend(sets.iter().map(|s| (0usize, s.to_string())));
                    steps.push((0, sql.clone()));
                    res.fails.push((key, Replay { check: "C09".into(), steps, expected, observed, note: format!("config {cname} o={} i={}", crate::val::fmt_rows(orows, 4), crate::val::fmt_rows(irows, 4)), ..Default::default() }));
                }
            }
        }
    }
    // ---- CTE / MATERIALIZED CTE / view / inline equivalence (quick: databases with <= 2 rows in total)
    if !tier.is_thorough() && orows.len() + irows.len() > 3 {
        return;
    }
    if d.dirty {
        *d = Driver::new();
        prep(d);
    }
    d.must("SET enable_optimizer TO true");
    for (dn, def) in definitions() {
        if d.dirty {
            *d = Driver::new();
            prep(d);
        }
        let (vw, vw2, vw3) = (format!("vw_{dn}"), format!("vw2_{dn}"), format!("vw3_{dn}"));
        let vdefs = vec![format!("CREATE TEMP VIEW {vw} AS {def}"), format!("CREATE TEMP VIEW {vw2} AS SELECT a, b FROM {vw}"), format!("CREATE TEMP VIEW {vw3} AS SELECT a, b FROM {vw2}")];
        let mut views_ok = true;
        for v in &vdefs {
            if !d.q(v).is_rows() {
                views_ok = false;
            }
        }
        for (un, tmpl) in uses() {
            let inline = tmpl.replace("{X}", &format!("({def})"));
            // derived tables need aliases where the template gives none
            let inline = fix_alias(&inline);
            let variants: Vec<(&str, String)> = vec![
                ("inline", inline),
                ("cte", format!("WITH c AS ({def}) {}", tmpl.replace("{X}", "c"))),
                ("ctemat", format!("WITH c AS MATERIALIZED ({def}) {}", tmpl.replace("{X}", "c"))),
                ("cte-chain", format!("WITH c0 AS ({def}), c AS (SELECT a, b FROM c0) {}", tmpl.replace("{X}", "c"))),
                ("cte-shadow", format!("WITH o AS ({def}) {}", tmpl.replace("{X}", "o"))),
                ("cte-unused", format!("WITH unused AS (SELECT 1 AS z), c AS ({def}) {}", tmpl.replace("{X}", "c"))),
                ("view", tmpl.replace("{X}", &vw)),
                ("view3", tmpl.replace("{X}", &vw3)),
            ];
            let mut reference: Option<(Vec<String>, Vec<Row>)> = None;
            for (vn, sql) in variants {
                if (vn == "view" || vn == "view3") && !views_ok {
                    continue;
                }
                if vn == "cte-shadow" && (dn == "join" || dn == "leftjoin" || dn == "union" || dn == "subquery" || dn == "scan" || dn == "filter" || dn == "agg" || dn == "distinct" || dn == "sortlimit") && def.contains("FROM o") {
                    // a CTE named like the table it reads would be self-referential: skip
                    continue;
                }
                if d.dirty {
                    *d = Driver::new();
                    prep(d);
                    for v in &vdefs {
                        let _ = d.q(v);
                    }
                }
                let o = d.q(&sql);
                res.evals += 1;
                let mut steps: Vec<(usize, String)> = setup.iter().map(|s| (0usize, s.clone())).collect();
                steps.extend(vdefs.iter().map(|s| (0usize, s.clone())));
                steps.push((0, sql.clone()));
                match &o {
                    Outcome::Rows(r) => {
                        let b = bag(&r.rows);
                        match &reference {
                            None => reference = Some((r.types.clone(), b)),
                            Some((t, rb)) => {
                                if *rb != b || *t != r.types {
                                    res.fails.push((format!("C09|interchange-differs:{vn}|{dn}:{un}"), Replay { check: "C09".into(), steps, expected: format!("same rows as the inline rendering: {}", crate::val::fmt_rows(rb, 8)), observed: crate::val::fmt_rows(&b, 8), note: format!("o={} i={}", crate::val::fmt_rows(orows, 4), crate::val::fmt_rows(irows, 4)), ..Default::default() }));
                                } else if !b.is_empty() {
                                    res.nontrivial += 1;
                                }
                            }
                        }
                    }
                    Outcome::Error { msg, .. } => {
                        if reference.is_some() && !o.not_implemented() {
                            res.fails.push((format!("C09|interchange-error:{vn}:{}|{dn}:{un}", msg_template(msg)), Replay { check: "C09".into(), steps, expected: "same rows as the inline rendering".into(), observed: o.brief(), note: String::new(), ..Default::default() }));
                        }
                    }
                    o2 => res.fails.push((format!("C09|{}|{vn}:{dn}:{un}", outcome_fail_class(o2).unwrap()), Replay { check: "C09".into(), steps, expected: "rows".into(), observed: o2.brief(), note: String::new(), ..Default::default() })),
                }
            }
        }
        // a view sees rows added to its base table afterwards
        if views_ok && dn == "scan" && !d.dirty {
            let before = d.q(&format!("SELECT count(*) FROM {vw3}"));
            d.must("INSERT INTO o VALUES (7, 7)");
            let after = d.q(&format!("SELECT count(*) FROM {vw3}"));
            res.evals += 2;
            if let (Outcome::Rows(x), Outcome::Rows(y)) = (&before, &after) {
                let (a, b) = (x.rows[0][0].as_int().unwrap_or(-1), y.rows[0][0].as_int().unwrap_or(-1));
                if b != a + 1 {
                    res.fails.push(("C09|view-stale|view3-after-insert".into(), Replay { check: "C09".into(), steps: vec![(0, "SELECT count(*) FROM vw3 before/after INSERT INTO o".into())], expected: format!("{}", a + 1), observed: format!("{b}"), note: String::new(), ..Default::default() }));
                }
            }
            // restore: the definitions are processed with "scan" first, so rebuild the database
            *d = Driver::new();
            prep(d);
        }
    }
}

/// `FROM (subquery)` without alias gets one.
fn fix_alias(sql: &str) -> String {
    let mut out = String::new();
    let mut depth = 0i32;
    let mut starts: Vec<bool> = Vec::new();
    let b: Vec<char> = sql.chars().collect();
    let mut i = 0;
    let mut k = 0;
    while i < b.len() {
        let c = b[i];
        if c == '(' {
            let prev: String = out.trim_end().chars().rev().take(5).collect::<String>().chars().rev().collect();
            let is_from = prev.to_uppercase().ends_with("FROM") || prev.to_uppercase().ends_with("JOIN") || prev.ends_with(',');
            let is_sub = b[i + 1..].iter().collect::<String>().trim_start().to_uppercase().starts_with("SELECT");
            starts.push(is_from && is_sub);
            depth += 1;
            out.push(c);
        } else if c == ')' {
            depth -= 1;
            out.push(c);
            if starts.pop().unwrap_or(false) {
                let rest: String = b[i + 1..].iter().collect();
                if !rest.trim_start().to_uppercase().starts_with("AS ") {
                    k += 1;
                    out.push_str(&format!(" AS d{k}"));
                }
            }
        } else {
            out.push(c);
        }
        i += 1;
    }
    let _ = depth;
    out
}

pub fn run(tier: Tier) -> i32 {
    let mut rep = Report::new("C09", tier, "exploration");
    let full = tier.is_thorough();
    let fs = forms(full);
    let r = if full { 3 } else { 2 };
    let vals = [Val::Null, Val::Int(1), Val::Int(2)];
    let mut rowvals: Vec<Row> = Vec::new();
    for a in &vals {
        for b in &vals {
            rowvals.push(vec![a.clone(), b.clone()]);
        }
    }
    let bgs = bags(rowvals.len(), r);
    let mut pairs: Vec<(usize, usize)> = Vec::new();
    for oi in 0..bgs.len() {
        for ii in 0..bgs.len() {
            // thorough: outer <= 3 and inner <= 2 rows or vice versa; quick: at most 3 rows in total
            if full && bgs[oi].len() == 3 && bgs[ii].len() == 3 {
                continue;
            }

            pairs.push((oi, ii));
        }
    }
    let results = par_run(pairs.len(), Driver::new, |d, k| {
        let mut res = Res::default();
        let (oi, ii) = pairs[k];
        let orows: Vec<Row> = bgs[oi].iter().map(|&x| rowvals[x].clone()).collect();
        let irows: Vec<Row> = bgs[ii].iter().map(|&x| rowvals[x].clone()).collect();
        run_db(&orows, &irows, &fs, tier, d, &mut res);
        res
    });
    let (mut evals, mut nontriv, mut unsup) = (0u64, 0u64, 0u64);
    let mut outcomes = BTreeSet::new();
    for rr in results {
        evals += rr.evals;
        nontriv += rr.nontrivial;
        unsup += rr.unsupported;
        outcomes.extend(rr.outcomes);
        for (k, rp) in rr.fails {
            rep.fail(k, rp);
        }
    }
    rep.cov("evaluations", json!(evals));
    rep.cov("distinct_nontrivial", json!(nontriv));
    rep.cov("rule", json!(format!("{} subquery forms (kind in scalar/EXISTS/NOT EXISTS/IN/NOT IN/op ANY/op ALL/LATERAL x position in WHERE/SELECT/CASE/HAVING x correlation path none/filter/projection/count/sum/max/LIMIT 1/DISTINCT/join/nested) x all {} (outer, inner) pairs of bags with <= {r} rows over {{NULL,1,2}}^2, optimizer on and off, against RM's per-outer-row evaluation; plus {} definitions x {} uses rendered inline / CTE / MATERIALIZED CTE / chained CTE / unused CTE / view / view-over-view-over-view, which must return one bag; non-trivial = >= 1 row and accepted", fs.len(), pairs.len(), definitions().len(), uses().len())));
    rep.cov("forms", json!(fs.len()));
    rep.cov("database_pairs", json!(pairs.len()));
    rep.cov("rm_unsupported_skipped", json!(unsup));
    rep.cov("distinct_outcomes", json!(outcomes.into_iter().collect::<Vec<_>>()));
    rep.cov("exhaustive", json!(true));
    rep.cov("samples", json!(fs.iter().step_by(fs.len() / 3).map(|(s, q)| json!({"shape": s, "sql": q.sql()})).collect::<Vec<_>>()));
    rep.finish()
}
