//! C12 - integer and decimal arithmetic is exact or fails; never wraps or crashes.
use std::collections::BTreeSet;

use serde_json::json;

use super::rel::outcome_fail_class;
use crate::drv::{Driver, Outcome};
use crate::infra::{Replay, Report, Tier, msg_template, par_run};
use crate::val::Val;

#[derive(Clone, Copy, Debug, PartialEq)]
struct IntTy {
    name: &'static str,
    sql: &'static str,
    min: i128,
    max: i128,
}

const INT_TYPES: [IntTy; 8] = [
    IntTy { name: "Int8", sql: "TINYINT", min: -128, max: 127 },
    IntTy { name: "Int16", sql: "SMALLINT", min: -32768, max: 32767 },
    IntTy { name: "Int32", sql: "INT", min: -2147483648, max: 2147483647 },
    IntTy { name: "Int64", sql: "BIGINT", min: i64::MIN as i128, max: i64::MAX as i128 },
    IntTy { name: "UInt8", sql: "UTINYINT", min: 0, max: 255 },
    IntTy { name: "UInt16", sql: "USMALLINT", min: 0, max: 65535 },
    IntTy { name: "UInt32", sql: "UINT", min: 0, max: 4294967295 },
    IntTy { name: "UInt64", sql: "UBIGINT", min: 0, max: u64::MAX as i128 },
];

fn int_ty_by_name(n: &str) -> Option<IntTy> {
    INT_TYPES.iter().copied().find(|t| t.name == n)
}

fn boundary(t: &IntTy) -> Vec<i128> {
    let mut v: BTreeSet<i128> = BTreeSet::new();
    for x in [t.min, t.min + 1, -2, -1, 0, 1, 2, 3, 7, t.max - 1, t.max, t.max / 2, t.max / 2 + 1, t.min / 2] {
        if x >= t.min && x <= t.max {
            v.insert(x);
        }
    }
    for k in [7u32, 15, 31] {
        for d in [-1i128, 0, 1] {
            for s in [1i128, -1] {
                let x = s * (1i128 << k) + d;
                if x >= t.min && x <= t.max {
                    v.insert(x);
                }
            }
        }
    }
    v.into_iter().collect()
}

/// exact result of an integer operation; None = mathematically undefined (division by zero)
fn exact(op: char, a: i128, b: i128) -> Option<i128> {
    match op {
        '+' => Some(a + b),
        '-' => Some(a - b),
        // |a|,|b| < 2^64: the product can exceed i128 only by sign; saturate (it is out of every range anyway)
        '*' => Some(a.checked_mul(b).unwrap_or(if (a < 0) != (b < 0) { i128::MIN } else { i128::MAX })),
        '/' => {
            if b == 0 { None } else { Some(a / b) } // truncation toward zero, like the engine's integer division
        }
        '%' => {
            if b == 0 { None } else { Some(a % b) }
        }
        _ => None,
    }
}

#[derive(Default)]
struct Res {
    evals: u64,
    nontrivial: u64,
    outcomes: BTreeSet<String>,
    fails: Vec<(String, Replay)>,
}

fn fail(res: &mut Res, key: String, sql: &str, expected: String, observed: String, note: &str) {
    res.fails.push((key, Replay { check: "C12".into(), steps: vec![(0, sql.to_string())], expected, observed, note: note.to_string(), ..Default::default() }));
}

fn lit(t: &IntTy, v: i128) -> String {
    format!("CAST({v} AS {})", t.sql)
}

/// One statement expected to fail with an error.
fn expect_error(d: &mut Driver, sql: &str, site: &str, exact_desc: &str, res: &mut Res) {
    if d.dirty {
        *d = Driver::new();
    }
    let o = d.q(sql);
    res.evals += 1;
    match &o {
        Outcome::Error { .. } => {
            res.nontrivial += 1;
            res.outcomes.insert("error-as-required".into());
        }
        Outcome::Rows(r) => {
            let got = r.rows.first().and_then(|x| x.first()).cloned().unwrap_or(Val::Null);
            fail(res, format!("C12|wraps-or-wrong-value|{site}"), sql, format!("an error ({exact_desc} is not representable in {:?})", r.types), format!("{got}"), "silent wrap / wrong value instead of an error");
        }
        o2 => fail(res, format!("C12|{}|{site}", outcome_fail_class(o2).unwrap()), sql, format!("an error ({exact_desc})"), o2.brief(), ""),
    }
}

fn int_binary(d: &mut Driver, t: IntTy, op: char, exhaustive: bool, res: &mut Res) {
    let site = format!("{}{op}{}", t.name, t.name);
    // announced result type
    let probe = d.q(&format!("SELECT {} {op} {}", lit(&t, 1), lit(&t, 1)));
    let rt = match &probe {
        Outcome::Rows(r) => r.types[0].clone(),
        o => {
            fail(res, format!("C12|probe-failed|{site}"), "probe", "rows".into(), o.brief(), "");
            return;
        }
    };
    let rty = int_ty_by_name(&rt);
    let vals: Vec<i128> = if exhaustive && t.max - t.min < 300 { (t.min..=t.max).collect() } else { boundary(&t) };
    let bset: BTreeSet<i128> = boundary(&t).into_iter().collect();
    let mut ok: Vec<(i128, i128, i128)> = Vec::new();
    let mut errs: Vec<(i128, i128, String)> = Vec::new();
    for &a in &vals {
        for &b in &vals {
            match (exact(op, a, b), rty) {
                (Some(e), Some(rt)) if e >= rt.min && e <= rt.max => ok.push((a, b, e)),
                (Some(e), Some(_)) => errs.push((a, b, format!("{a} {op} {b} = {e}"))),
                (None, _) => errs.push((a, b, format!("{a} {op} {b} is undefined"))),
                (Some(_), None) => {} // float / decimal result: not an integer-exactness question
            }
        }
    }
    if rty.is_none() {
        res.outcomes.insert(format!("non-integer-result:{rt}"));
    }
    // representable results: column context, in chunks
    for chunk in ok.chunks(400) {
        if d.dirty {
            *d = Driver::new();
        }
        let rows: Vec<String> = chunk.iter().enumerate().map(|(i, (a, b, _))| if i == 0 { format!("({}, {})", lit(&t, *a), lit(&t, *b)) } else { format!("({}, {})", lit(&t, *a), lit(&t, *b)) }).collect();
        let sql = format!("SELECT a, b, a {op} b FROM (VALUES {}) v(a, b)", rows.join(", "));
        let o = d.q(&sql);
        res.evals += 1;
        match &o {
            Outcome::Rows(r) => {
                if r.types[2] != rt {
                    fail(res, format!("C12|type-differs|{site}"), &sql, rt.clone(), r.types[2].clone(), "result type differs between literal and column context");
                }
                for (row, (a, b, e)) in r.rows.iter().zip(chunk) {
                    if row[2] != Val::Int(*e) {
                        fail(res, format!("C12|wrong-value|{site}"), &format!("SELECT {} {op} {}", lit(&t, *a), lit(&t, *b)), format!("{e}"), format!("{}", row[2]), "column context");
                        break;
                    }
                    res.nontrivial += 1;
                }
            }
            Outcome::Error { msg, .. } => {
                // find the offending pair
                for (a, b, e) in chunk.iter().take(2000) {
                    let one = format!("SELECT {} {op} {}", lit(&t, *a), lit(&t, *b));
                    if d.dirty {
                        *d = Driver::new();
                    }
                    let o1 = d.q(&one);
                    res.evals += 1;
                    if !matches!(&o1, Outcome::Rows(r) if r.rows[0][0] == Val::Int(*e)) {
                        fail(res, format!("C12|spurious-error-or-wrong:{}|{site}", msg_template(msg)), &one, format!("{e}"), o1.brief(), "representable result");
                        break;
                    }
                }
            }
            o2 => {
                // a representable chunk must not panic: locate
                let c = outcome_fail_class(o2).unwrap();
                fail(res, format!("C12|{c}|{site}"), &sql, "values".into(), o2.brief(), "all results in this chunk are representable");
            }
        }
    }
    // non-representable results: one statement each (literal context); quick tier: boundary pairs only
    for (a, b, desc) in errs {
        if !exhaustive && !(bset.contains(&a) && bset.contains(&b)) {
            continue;
        }
        let sql = format!("SELECT {} {op} {}", lit(&t, a), lit(&t, b));
        expect_error(d, &sql, &site, &desc, res);
    }
}

fn int_unary(d: &mut Driver, t: IntTy, exhaustive: bool, res: &mut Res) {
    let vals: Vec<i128> = if exhaustive && t.max - t.min < 70000 { (t.min..=t.max).collect() } else { boundary(&t) };
    // unary minus
    let probe = d.q(&format!("SELECT -{}", lit(&t, 1)));
    let rt = match &probe {
        Outcome::Rows(r) => r.types[0].clone(),
        Outcome::Error { .. } => return, // e.g. negate not defined for unsigned
        o => {
            fail(res, format!("C12|probe-failed|neg{}", t.name), "probe", "rows".into(), o.brief(), "");
            return;
        }
    };
    let rty = match int_ty_by_name(&rt) {
        Some(x) => x,
        None => return,
    };
    let site = format!("neg{}", t.name);
    let ok: Vec<i128> = vals.iter().copied().filter(|v| -v >= rty.min && -v <= rty.max).collect();
    for chunk in ok.chunks(2000) {
        if d.dirty {
            *d = Driver::new();
        }
        let rows: Vec<String> = chunk.iter().map(|a| format!("({})", lit(&t, *a))).collect();
        let sql = format!("SELECT a, -a FROM (VALUES {}) v(a)", rows.join(", "));
        let o = d.q(&sql);
        res.evals += 1;
        match &o {
            Outcome::Rows(r) => {
                for (row, a) in r.rows.iter().zip(chunk) {
                    if row[1] != Val::Int(-*a) {
                        fail(res, format!("C12|wrong-value|{site}"), &format!("SELECT -{}", lit(&t, *a)), format!("{}", -a), format!("{}", row[1]), "");
                        break;
                    }
                    res.nontrivial += 1;
                }
            }
            o2 => fail(res, format!("C12|{}|{site}", outcome_fail_class(o2).unwrap_or_else(|| "spurious-error".into())), &sql, "values".into(), o2.brief(), ""),
        }
    }
    for a in vals.iter().copied().filter(|v| -v < rty.min || -v > rty.max) {
        let sql = format!("SELECT -{}", lit(&t, a));
        expect_error(d, &sql, &site, &format!("-({a})"), res);
    }
}

// ------------------------------------------------------------------ decimals

fn pow10(n: u32) -> i128 {
    10i128.pow(n)
}

fn parse_dec_type(s: &str) -> Option<(u32, u32)> {
    let inner = s.strip_prefix("Decimal64(").or_else(|| s.strip_prefix("Decimal128("))?.strip_suffix(')')?;
    let (p, sc) = inner.split_once(',')?;
    Some((p.trim().parse().ok()?, sc.trim().parse().ok()?))
}

fn dec_lit(unscaled: i128, p: u32, s: u32) -> String {
    let neg = unscaled < 0;
    let a = unscaled.unsigned_abs();
    let q = 10u128.pow(s);
    let txt = if s > 0 { format!("{}{}.{:0w$}", if neg { "-" } else { "" }, a / q, a % q, w = s as usize) } else { format!("{unscaled}") };
    format!("CAST('{txt}' AS DECIMAL({p},{s}))")
}

fn dec_alphabet(p: u32, s: u32) -> Vec<i128> {
    let max = pow10(p) - 1;
    let mut v: BTreeSet<i128> = [0, 1, -1, max, -max, max - 1, max / 2 + 1].into_iter().collect();
    for k in 0..p {
        let x = 5 * pow10(k);
        if x <= max {
            v.insert(x);
            v.insert(-x);
        }
    }
    let _ = s;
    v.into_iter().collect()
}

fn decimals(d: &mut Driver, tier: Tier, res: &mut Res) {
    let ps: Vec<(u32, u32)> = if tier.is_thorough() { vec![(1, 0), (2, 1), (3, 2), (9, 2), (18, 0), (18, 3), (18, 18), (19, 0), (19, 4), (38, 0), (38, 10), (38, 38)] } else { vec![(2, 1), (9, 2), (18, 0), (18, 3), (19, 4), (38, 0), (38, 10)] };
    for &(p1, s1) in &ps {
        for &(p2, s2) in &ps {
            for op in ['+', '-', '*'] {
                let site = format!("Decimal({p1},{s1}){op}Decimal({p2},{s2})");
                let a1 = dec_alphabet(p1, s1);
                let a2 = dec_alphabet(p2, s2);
                if d.dirty {
                    *d = Driver::new();
                }
                let probe = d.q(&format!("SELECT {} {op} {}", dec_lit(1, p1, s1), dec_lit(1, p2, s2)));
                res.evals += 1;
                let (rp, rs) = match &probe {
                    Outcome::Rows(r) => match parse_dec_type(&r.types[0]) {
                        Some(x) => x,
                        None => {
                            res.outcomes.insert(format!("non-decimal-result:{}", r.types[0]));
                            continue;
                        }
                    },
                    Outcome::Error { .. } => {
                        res.outcomes.insert("decimal-pair-unsupported".into());
                        continue;
                    }
                    o => {
                        fail(res, format!("C12|{}|{site}", outcome_fail_class(o).unwrap()), "probe", "rows".into(), o.brief(), "");
                        continue;
                    }
                };
                // documented rule: + and - keep scale max(s1, s2)
                if (op == '+' || op == '-') && rs != s1.max(s2) {
                    fail(res, format!("C12|scale-rule|{site}"), "probe", format!("scale {}", s1.max(s2)), format!("scale {rs}"), "documented: +/- on decimals gives scale max(s1,s2)");
                }
                for &x in &a1 {
                    for &y in &a2 {
                        // exact result as an integer at scale rs (if it is one)
                        let exact: Option<i128> = match op {
                            '+' | '-' => {
                                let sc = s1.max(s2);
                                let xs = x.checked_mul(pow10(sc - s1));
                                let ys = y.checked_mul(pow10(sc - s2));
                                match (xs, ys) {
                                    (Some(a), Some(b)) => {
                                        let v = if op == '+' { a.checked_add(b) } else { a.checked_sub(b) };
                                        v.and_then(|v| if rs >= sc { v.checked_mul(pow10(rs - sc)) } else if v % pow10(sc - rs) == 0 { Some(v / pow10(sc - rs)) } else { None })
                                    }
                                    _ => None,
                                }
                            }
                            _ => {
                                let sc = s1 + s2;
                                x.checked_mul(y).and_then(|v| if rs >= sc { v.checked_mul(pow10(rs - sc)) } else if v % pow10(sc - rs) == 0 { Some(v / pow10(sc - rs)) } else { None })
                            }
                        };
                        let representable = exact.map(|v| v.abs() < pow10(rp.min(38))).unwrap_or(false);
                        let sql = format!("SELECT {} {op} {}", dec_lit(x, p1, s1), dec_lit(y, p2, s2));
                        if d.dirty {
                            *d = Driver::new();
                        }
                        if exact.is_none() && rs < if op == '*' { s1 + s2 } else { s1.max(s2) } {
                            // result scale smaller than the exact scale: rounding rule, not asserted here
                            continue;
                        }
                        if representable {
                            let o = d.q(&sql);
                            res.evals += 1;
                            match &o {
                                Outcome::Rows(r) => {
                                    let got = &r.rows[0][0];
                                    match got {
                                        Val::Dec(v, _, s) if *v == exact.unwrap() && *s as u32 == rs => res.nontrivial += 1,
                                        _ => fail(res, format!("C12|wrong-value|{site}"), &sql, format!("{}e-{rs}", exact.unwrap()), format!("{got}"), ""),
                                    }
                                }
                                Outcome::Error { msg, .. } => fail(res, format!("C12|spurious-error:{}|{site}", msg_template(msg)), &sql, format!("{}e-{rs}", exact.unwrap()), o.brief(), "result is representable in the announced type"),
                                o2 => fail(res, format!("C12|{}|{site}", outcome_fail_class(o2).unwrap()), &sql, "value".into(), o2.brief(), ""),
                            }
                        } else {
                            expect_error(d, &sql, &site, &format!("result needs more than {rp} digits"), res);
                        }
                    }
                }
            }
        }
    }
}

// ------------------------------------------------------------------ SUM / AVG

fn sums(d: &mut Driver, res: &mut Res) {
    let cases: Vec<(&str, &str, Vec<i128>)> = vec![
        ("BIGINT", "Int64", vec![i64::MAX as i128, 1]),
        ("BIGINT", "Int64", vec![i64::MIN as i128, -1]),
        ("BIGINT", "Int64", vec![i64::MAX as i128, i64::MAX as i128, i64::MAX as i128]),
        ("BIGINT", "Int64", vec![i64::MAX as i128, -5]),
        ("BIGINT", "Int64", vec![5, 7]),
        ("INT", "Int32", vec![i32::MAX as i128, i32::MAX as i128, 1]),
        ("INT", "Int32", vec![i32::MIN as i128, i32::MIN as i128]),
        ("SMALLINT", "Int16", vec![32767, 32767, 32767]),
        ("TINYINT", "Int8", vec![127, 127, 127, 1]),
        ("UBIGINT", "UInt64", vec![u64::MAX as i128, 1]),
        ("UINT", "UInt32", vec![u32::MAX as i128, u32::MAX as i128]),
    ];
    for (sqlt, tn, vals) in cases {
        for p in [1usize, 2] {
            if d.dirty {
                *d = Driver::new();
            }
            d.must(&format!("SET partitions TO {p}"));
            d.must("SET batch_size TO 1");
            let rows: Vec<String> = vals.iter().map(|v| format!("(CAST({v} AS {sqlt}))")).collect();
            let sql = format!("SELECT sum(x), avg(x) FROM (VALUES {}) t(x)", rows.join(", "));
            let o = d.q(&sql);
            res.evals += 1;
            let exact: i128 = vals.iter().sum();
            let site = format!("sum({tn})");
            match &o {
                Outcome::Rows(r) => {
                    let (rt, got) = (&r.types[0], &r.rows[0][0]);
                    let fits = match int_ty_by_name(rt) {
                        Some(t) => exact >= t.min && exact <= t.max,
                        None => match rt.as_str() {
                            "Int128" => true,
                            _ => true,
                        },
                    };
                    let got_ok = match got {
                        Val::Int(v) => *v == exact,
                        Val::U128(v) => *v as i128 == exact,
                        Val::Dec(v, _, s) => *v == exact * pow10(*s as u32),
                        Val::F64(_) => (got.as_f64().unwrap() - exact as f64).abs() <= 1e-6 * (exact as f64).abs(),
                        _ => false,
                    };
                    if fits && got_ok {
                        res.nontrivial += 1;
                    } else if !fits {
                        fail(res, format!("C12|wraps-or-wrong-value|{site}"), &sql, format!("an error: exact sum {exact} does not fit {rt}"), format!("{got}"), &format!("P{p}"));
                    } else {
                        fail(res, format!("C12|wrong-value|{site}"), &sql, format!("{exact}"), format!("{got}"), &format!("P{p}"));
                    }
                    // avg: exact mean within float tolerance
                    if let Some(av) = r.rows[0][1].as_f64() {
                        let want = exact as f64 / vals.len() as f64;
                        if (av - want).abs() > 1e-9 * want.abs().max(1.0) {
                            fail(res, format!("C12|wrong-value|avg({tn})"), &sql, format!("{want}"), format!("{av}"), &format!("P{p}"));
                        }
                    }
                }
                Outcome::Error { .. } => {
                    let fits64 = exact >= i64::MIN as i128 && exact <= u64::MAX as i128;
                    if fits64 && vals.len() == 2 && exact.abs() < 1000 {
                        fail(res, format!("C12|spurious-error|{site}"), &sql, format!("{exact}"), o.brief(), "");
                    } else {
                        res.nontrivial += 1;
                    }
                }
                o2 => fail(res, format!("C12|{}|{site}", outcome_fail_class(o2).unwrap()), &sql, "value or error".into(), o2.brief(), ""),
            }
        }
    }
}

pub fn run(tier: Tier) -> i32 {
    let mut rep = Report::new("C12", tier, "exploration");
    let ops = ['+', '-', '*', '/', '%'];
    let exhaustive = tier.is_thorough();
    // work items: (type, op), unary per type, decimals, sums
    let mut work: Vec<(usize, Option<char>)> = Vec::new();
    for (ti, _) in INT_TYPES.iter().enumerate() {
        for op in ops {
            work.push((ti, Some(op)));
        }
        work.push((ti, None));
    }
    let n = work.len();
    let results = par_run(n + 2, Driver::new, |d, i| {
        let mut res = Res::default();
        if i == n {
            decimals(d, tier, &mut res);
        } else if i == n + 1 {
            sums(d, &mut res);
        } else {
            let (ti, op) = work[i];
            match op {
                Some(op) => int_binary(d, INT_TYPES[ti], op, exhaustive, &mut res),
                None => int_unary(d, INT_TYPES[ti], true, &mut res),
            }
        }
        res
    });
    let (mut evals, mut nontriv) = (0u64, 0u64);
    let mut outcomes = BTreeSet::new();
    for rr in results {
        evals += rr.evals;
        nontriv += rr.nontrivial;
        outcomes.extend(rr.outcomes);
        for (k, rp) in rr.fails {
            rep.fail(k, rp);
        }
    }
    rep.cov("evaluations", json!(evals));
    rep.cov("distinct_nontrivial", json!(nontriv));
    rep.cov("rule", json!(format!("op in {{+,-,*,/,%}} x 8 integer types: {} operand pairs per (type, op) ({}); unary minus over all values of the 8/16-bit types and the boundary alphabet otherwise; decimal +,-,* over (p,s) x (p,s) pairs x boundary^2 unscaled values incl. half-way digits and max precision; SUM/AVG over overflow bags with 1 and 2 partitions. Oracle: exact big-integer arithmetic fitted into the type the engine announced - representable => that exact value (column and literal context), otherwise the statement must fail with an error (never a wrapped value, a panic or an abort). non-trivial = pairs whose outcome was checked and accepted", if exhaustive { "all 65 536 for 8-bit types, boundary^2 otherwise" } else { "boundary^2 (about 25 values per type)" }, if exhaustive { "exhaustive 8-bit" } else { "quick: non-representable results are executed for boundary pairs only" })));
    rep.cov("distinct_outcomes", json!(outcomes.into_iter().collect::<Vec<_>>()));
    rep.cov("exhaustive", json!(true));
    rep.cov("samples", json!(["SELECT a, b, a + b FROM (VALUES (CAST(-128 AS TINYINT), CAST(127 AS TINYINT)), ...) v(a, b)", "SELECT CAST(127 AS TINYINT) + CAST(1 AS TINYINT)  -- must be an error", "SELECT CAST('9999999.99' AS DECIMAL(9,2)) * CAST('-99.9' AS DECIMAL(3,1))"]));
    rep.finish()
}
