//! C04 - every schedule terminates with the same result; no wake-up is lost.
//! E-SCHED/A: poll-granularity exploration of the real operators (no hooks).
use std::time::Duration;

use serde_json::json;

use crate::infra::{Replay, Report, Tier, threads};
use crate::sched::{ExploreCfg, Shape, explore};
use crate::thr::{self, ThrCfg};
use crate::tlc;

const L: &str = "(VALUES (1,'a'),(2,'b'),(2,'c'),(NULL,'d'),(3,'e')) l(a,x)";
const R: &str = "(VALUES (2,10),(2,20),(3,30),(NULL,40),(4,50)) r(a,y)";
const G: &str = "(SELECT g AS a, g % 3 AS k FROM generate_series(1, 7) s(g)) l";

fn cfgd(name: &str, p: usize, b: usize, extra: &[&str], query: String) -> Shape {
    let mut s = Shape::new(&format!("{name}/P{p}B{b}"), &[], &query);
    s.setup.push(format!("SET partitions TO {p}"));
    s.setup.push(format!("SET batch_size TO {b}"));
    for e in extra {
        s.setup.push(e.to_string());
    }
    s
}

pub fn shapes(tier: Tier) -> Vec<Shape> {
    let mut out = Vec::new();
    let ps: &[usize] = if tier.is_thorough() { &[1, 2, 3] } else { &[2] };
    for &p in ps {
        let b = 2;
        out.push(cfgd("hashjoin-inner", p, b, &[], format!("SELECT * FROM {L} JOIN {R} ON l.a = r.a")));
        out.push(cfgd("hashjoin-left", p, b, &[], format!("SELECT * FROM {L} LEFT JOIN {R} ON l.a = r.a")));
        out.push(cfgd("hashjoin-right", p, b, &[], format!("SELECT * FROM {L} RIGHT JOIN {R} ON l.a = r.a")));
        out.push(cfgd("hashjoin-semi", p, b, &[], format!("SELECT * FROM {L} WHERE a IN (SELECT a FROM {R})")));
        out.push(cfgd("hashjoin-mark", p, b, &[], format!("SELECT * FROM {L} WHERE a IN (SELECT a FROM {R}) OR x = 'a'")));
        out.push(cfgd("nljoin-inner", p, b, &["SET enable_hash_joins TO false"], format!("SELECT * FROM {L} JOIN {R} ON l.a = r.a")));
        out.push(cfgd("nljoin-lt", p, b, &[], format!("SELECT * FROM {L} JOIN {R} ON l.a < r.a")));
        out.push(cfgd("nljoin-left", p, b, &["SET enable_hash_joins TO false"], format!("SELECT * FROM {L} LEFT JOIN {R} ON l.a = r.a")));
        out.push(cfgd("cross", p, b, &[], format!("SELECT * FROM {L}, (VALUES (1),(2),(3)) r(z)")));
        out.push(cfgd("groupby", p, b, &[], format!("SELECT a, count(*), min(x) FROM {L} GROUP BY a")));
        out.push(cfgd("agg-global", p, b, &[], format!("SELECT count(*), sum(a) FROM {L}")));
        out.push(cfgd("agg-distinct", p, b, &[], format!("SELECT count(DISTINCT a), sum(DISTINCT a) FROM {L}")));
        out.push(cfgd("groupby-distinct", p, b, &[], format!("SELECT k, count(DISTINCT a) FROM {G} GROUP BY k")));
        out.push(cfgd("distinct", p, b, &[], format!("SELECT DISTINCT a FROM {L}")));
        let mut s = cfgd("sort", p, b, &[], format!("SELECT a, x FROM {L} ORDER BY a, x"));
        s.ordered = true;
        out.push(s);
        let mut s = cfgd("sort-limit", p, b, &[], format!("SELECT a, x FROM {L} ORDER BY a DESC, x LIMIT 3"));
        s.ordered = true;
        out.push(s);
        let mut s = cfgd("limit", p, b, &[], format!("SELECT a FROM {G} LIMIT 3"));
        s.limit_of = Some("l".into());
        out.push(s);
        let mut s = cfgd("limit-offset", p, b, &[], format!("SELECT a FROM {G} LIMIT 2 OFFSET 4"));
        s.limit_of = Some("l".into());
        out.push(s);
        out.push(cfgd("unionall", p, b, &[], format!("SELECT a FROM {L} UNION ALL SELECT a FROM {R}")));
        out.push(cfgd("union", p, b, &[], format!("SELECT a FROM {L} UNION SELECT a FROM {R}")));
        out.push(cfgd("matcte-join-and-subquery", p, b, &[], format!("WITH c AS MATERIALIZED (SELECT a, x FROM {L}) SELECT c.a, r.y, (SELECT count(*) FROM c) FROM c JOIN {R} ON c.a = r.a")));
        out.push(cfgd("matcte-union", p, b, &[], format!("WITH c AS MATERIALIZED (SELECT a, x FROM {L}) SELECT a FROM c UNION ALL SELECT a FROM c")));
        out.push(cfgd("join-3way", p, b, &[], format!("SELECT l.a, r.y, z.q FROM {L} JOIN {R} ON l.a = r.a JOIN (VALUES (2,'p'),(3,'q'),(3,'r')) z(a,q) ON r.a = z.a")));
        out.push(cfgd("corr-subquery", p, b, &[], format!("SELECT a, (SELECT max(y) FROM {R} WHERE r.a = l.a) FROM {L}")));
        out.push(cfgd("corr-exists", p, b, &[], format!("SELECT a FROM {L} WHERE EXISTS (SELECT 1 FROM {R} WHERE r.a = l.a)")));
        out.push(cfgd("backpressure", p, 1, &[], format!("SELECT a FROM {G}")));
        let mut s = cfgd("error-in-partition", p, b, &[], "SELECT CAST(x AS INT) FROM (VALUES ('1'),('2'),('3'),('x'),('5'),('6')) v(x)".to_string());
        s.expect_error = true;
        out.push(s);
        let mut s = cfgd("error-in-join-build", p, b, &[], format!("SELECT * FROM {L} JOIN (SELECT CAST(z AS INT) AS a FROM (VALUES ('2'),('q'),('3')) v(z)) r ON l.a = r.a"));
        s.expect_error = true;
        out.push(s);
        // inputs that end without producing a row, one per way an operator below can swallow its input:
        // a filter (zero-row batches still flow), an inner join without matches and a LIMIT whose OFFSET
        // skips everything (the operator above is finalized without ever being executed). Each barrier
        // operator is driven with such an input on either side.
        let empties: [(&str, String, String); 3] = [
            ("filter", format!("(SELECT a, x FROM {L} WHERE a > 100) l"), format!("(SELECT a, y FROM {R} WHERE a > 100) r")),
            ("nomatch-join", format!("(SELECT l0.a, l0.x FROM (VALUES (1,'a'),(2,'b'),(2,'c'),(NULL,'d'),(3,'e')) l0(a,x) JOIN (VALUES (101),(102),(103),(104)) q(z) ON l0.a = q.z) l"), format!("(SELECT r0.a, r0.y FROM (VALUES (2,10),(2,20),(3,30),(NULL,40),(4,50)) r0(a,y) JOIN (VALUES (101),(102),(103),(104)) q(z) ON r0.a = q.z) r")),
            ("offset-all", format!("(SELECT a, x FROM {L} LIMIT 3 OFFSET 10) l"), format!("(SELECT a, y FROM {R} LIMIT 3 OFFSET 10) r")),
        ];
        for (en, el, er) in &empties {
            for (side, l, r) in [("L", el.as_str(), R), ("R", L, er.as_str())] {
                let joins: [(&str, String); 7] = [
                    ("inner", format!("SELECT * FROM {l} JOIN {r} ON l.a = r.a")),
                    ("left", format!("SELECT * FROM {l} LEFT JOIN {r} ON l.a = r.a")),
                    ("right", format!("SELECT * FROM {l} RIGHT JOIN {r} ON l.a = r.a")),
                    ("full", format!("SELECT * FROM {l} FULL JOIN {r} ON l.a = r.a")),
                    ("semi", format!("SELECT * FROM {l} WHERE a IN (SELECT a FROM {r})")),
                    ("anti", format!("SELECT * FROM {l} WHERE NOT EXISTS (SELECT 1 FROM {r} WHERE r.a = l.a)")),
                    ("mark", format!("SELECT * FROM {l} WHERE a IN (SELECT a FROM {r}) OR x = 'a'")),
                ];
                for (jn, q) in joins {
                    if !tier.is_thorough() && (jn == "inner" || jn == "mark") && *en == "filter" {
                        continue;
                    }
                    out.push(cfgd(&format!("empty-{en}-{side}-hashjoin-{jn}"), p, b, &[], q));
                }
                if *en != "filter" || tier.is_thorough() {
                    out.push(cfgd(&format!("empty-{en}-{side}-nljoin-left"), p, b, &["SET enable_hash_joins TO false"], format!("SELECT * FROM {l} LEFT JOIN {r} ON l.a = r.a")));
                    out.push(cfgd(&format!("empty-{en}-{side}-nljoin-right"), p, b, &["SET enable_hash_joins TO false"], format!("SELECT * FROM {l} RIGHT JOIN {r} ON l.a = r.a")));
                }
            }
            let unary: [(&str, String, bool); 7] = [
                ("groupby", format!("SELECT a, count(*) FROM {el} GROUP BY a"), false),
                ("agg-global", format!("SELECT count(*), sum(a) FROM {el}"), false),
                ("agg-distinct", format!("SELECT count(DISTINCT a) FROM {el}"), false),
                ("distinct", format!("SELECT DISTINCT a FROM {el}"), false),
                ("sort", format!("SELECT a, x FROM {el} ORDER BY a, x"), true),
                ("union", format!("SELECT a FROM {el} UNION SELECT a FROM {R}"), false),
                ("matcte", format!("WITH c AS MATERIALIZED (SELECT a, x FROM {el}) SELECT a FROM c UNION ALL SELECT a FROM c"), false),
            ];
            for (un, q, ordered) in unary {
                if *en == "filter" && !tier.is_thorough() {
                    continue;
                }
                let mut s = cfgd(&format!("empty-{en}-{un}"), p, b, &[], q);
                s.ordered = ordered;
                out.push(s);
            }
        }
        // DML: every row visible exactly once afterwards
        let mut s = cfgd("insert-select", p, b, &[], format!("INSERT INTO x SELECT a, y FROM {R}"));
        s.per_run = vec!["DROP TABLE IF EXISTS x".into(), "CREATE TEMP TABLE x (a INT, y INT)".into(), "INSERT INTO x VALUES (0, 0)".into()];
        s.observe = vec!["SELECT * FROM x".into()];
        out.push(s);
        let mut s = cfgd("ctas", p, b, &[], format!("CREATE TEMP TABLE x AS SELECT a, y FROM {R}"));
        s.per_run = vec!["DROP TABLE IF EXISTS x".into()];
        s.observe = vec!["SELECT * FROM x".into()];
        out.push(s);
        let mut s = cfgd("insert-join", p, b, &[], format!("INSERT INTO x SELECT l.a, r.y FROM {L} JOIN {R} ON l.a = r.a"));
        s.per_run = vec!["DROP TABLE IF EXISTS x".into(), "CREATE TEMP TABLE x (a INT, y INT)".into()];
        s.observe = vec!["SELECT * FROM x".into()];
        out.push(s);
        // TEMP-table sources (one stored chunk; batch_size large enough)
        let mut s = cfgd("tables-hashjoin", p, 2048, &[], "SELECT * FROM tl JOIN tr ON tl.a = tr.a".to_string());
        s.setup.push("CREATE TEMP TABLE tl (a INT, x TEXT)".into());
        s.setup.push("INSERT INTO tl VALUES (1,'a'),(2,'b'),(2,'c'),(NULL,'d'),(3,'e')".into());
        s.setup.push("CREATE TEMP TABLE tr (a INT, y INT)".into());
        s.setup.push("INSERT INTO tr VALUES (2,10),(2,20),(3,30),(NULL,40),(4,50)".into());
        out.push(s.clone());
        let mut s2 = s.clone();
        s2.name = format!("tables-groupby/P{p}B2048");
        s2.query = "SELECT a, count(*) FROM tl GROUP BY a".into();
        out.push(s2);
        let mut s3 = s.clone();
        s3.name = format!("tables-self-insert/P{p}B2048");
        s3.setup.truncate(2);
        s3.per_run = vec!["DROP TABLE IF EXISTS tl".into(), "CREATE TEMP TABLE tl (a INT, x TEXT)".into(), "INSERT INTO tl VALUES (1,'a'),(2,'b'),(NULL,'d')".into()];
        s3.query = "INSERT INTO tl SELECT a + 10, x FROM tl".into();
        s3.observe = vec!["SELECT * FROM tl".into()];
        out.push(s3);
    }
    out
}

pub fn run(tier: Tier) -> i32 {
    let mut rep = Report::new("C04", tier, "model_checking");
    let shapes = shapes(tier);
    let (unb_cap, unb_wall, dev, spur, dev_wall) = match tier {
        Tier::Quick => (60_000u64, 2u64, 2usize, 1usize, 2u64),
        Tier::Thorough => (5_000_000u64, 90u64, 4usize, 2usize, 60u64),
    };
    let mut states = 0u64;
    let mut transitions = 0u64;
    let mut per_shape = Vec::new();
    let mut samples = Vec::new();
    let mut vacuous = Vec::new();
    for sh in &shapes {
        // pass 1: every schedule (no deviation bound), no spurious wake-ups
        let cfg = ExploreCfg { max_dev: None, max_spurious: 0, wall_cap: Duration::from_secs(unb_wall), exec_cap: unb_cap, threads: threads() };
        let r1 = explore(sh, &cfg);
        // pass 2: deviation-bounded with spurious / repeated wake-ups
        let cfg2 = ExploreCfg { max_dev: Some(dev), max_spurious: spur, wall_cap: Duration::from_secs(dev_wall), exec_cap: unb_cap, threads: threads() };
        let r2 = explore(sh, &cfg2);
        for (pass, r) in [("all-schedules", &r1), ("dev-bounded+spurious", &r2)] {
            states += r.executions;
            transitions += r.steps;
            for m in &r.machinery {
                rep.machinery_errors.push(m.clone());
            }
            for v in &r.violations {
                let mut steps: Vec<(usize, String)> = sh.setup.iter().map(|s| (0usize, s.clone())).collect();
                steps.extend(sh.per_run.iter().map(|s| (0usize, s.clone())));
                steps.push((0, sh.query.clone()));
                let base = sh.name.split('/').next().unwrap_or(&sh.name);
                rep.fail(
                    format!("C04|{}|{}", v.class, base),
                    Replay { check: "C04".into(), steps, schedule: Some(v.schedule.clone()), expected: v.expected.clone(), observed: v.observed.clone(), note: format!("shape={} pass={} (schedule = actor polled at each step; 0 = result consumer, k = k-th partition pipeline in spawn order)", sh.name, pass), ..Default::default() },
                );
            }
        }
        if r1.executions > 1 && r1.distinct_event_orders <= 1 && r1.n_tasks > 1 {
            vacuous.push(sh.name.clone());
        }
        per_shape.push(json!({
            "shape": sh.name, "tasks": r1.n_tasks,
            "all_schedules": {"executions": r1.executions, "complete": r1.complete, "max_len": r1.max_len, "max_enabled": r1.max_width, "distinct_event_orders": r1.distinct_event_orders, "distinct_outcomes": r1.distinct_outcomes, "error_executions": r1.error_executions},
            "dev_bounded": {"max_dev": dev, "max_spurious": spur, "executions": r2.executions, "complete": r2.complete, "spurious_executions": r2.spurious_executions, "distinct_event_orders": r2.distinct_event_orders},
        }));
        if samples.len() < 6 {
            samples.push(json!({"shape": sh.name, "query": sh.query, "schedule": r1.sample_schedules.last()}));
        }
    }
    // ---- thread level: the real ThreadedScheduler / TaskState / cancel under a controlled scheduler (hook H2),
    // and the TLA+ model of the task state machine bound to it by trace inclusion
    let (thr_states, thr_transitions, accepted) = thread_level(tier, &shapes, &mut rep);
    states += thr_states;
    transitions += thr_transitions;
    rep.cov("states", json!(states));
    rep.cov("transitions", json!(transitions));
    rep.cov("traces_validated_against_impl", json!(states + accepted));
    rep.cov("samples", json!(samples));
    rep.cov("shapes", json!(per_shape));
    rep.cov("vacuous_shapes", json!(vacuous));
    rep.cov("explanation", json!("states = distinct schedules, each executed to completion on the real operators (the explorer drives ExecutablePartitionPipeline::poll_execute directly, so every trace is an implementation trace); transitions = scheduling steps. Pass 1 enumerates every poll-level schedule of the shape (complete=true) or stops at the stated cap (complete=false); pass 2 enumerates every schedule with <= max_dev deviations from the default schedule where a deviation is choosing another enabled actor or polling a parked actor (spurious / repeated wake-up)."));
    rep.cov("exhaustive", json!(per_shape_complete(&rep)));
    rep.assume("poll-level explorer: scheduling points are polls (poll-atomic). thread-level explorer: scheduling points are the locks of the task state machine outside polls; a poll and the wake-ups it issues are one step; sequential consistency");
    rep.assume("hook H2 (cfg glaredb_verif) in glaredb_rt_native::threaded: scheduling points, transition log, pool stand-in; the scheduler code itself is the production code");
    rep.assume("VALUES / generate_series sources are used with small batch sizes because TEMP-table scans ignore batch_size (known finding under C03)");
    rep.finish()
}

/// Thread-level exploration (E-SCHED/B) + model conformance. Returns (executions, decisions, impl traces accepted by the model).
fn thread_level(tier: Tier, all: &[Shape], rep: &mut Report) -> (u64, u64, u64) {
    crate::guard::set_wall_limit_ms(10_000);
    let pick = |names: &[&str]| -> Vec<Shape> { all.iter().filter(|s| names.iter().any(|n| s.name == *n || s.name.starts_with(&format!("{n}/P2")))).cloned().collect() };
    let (plain, cancel, dev, pre, wall) = match tier {
        Tier::Quick => (pick(&["hashjoin-inner", "groupby", "sort-limit", "backpressure", "error-in-partition", "insert-select", "matcte-union"]), pick(&["hashjoin-inner", "backpressure", "agg-distinct"]), 1usize, 1usize, 20u64),
        Tier::Thorough => (
            pick(&["hashjoin-inner", "hashjoin-left", "hashjoin-mark", "nljoin-left", "groupby", "agg-distinct", "distinct", "sort", "sort-limit", "limit", "unionall", "matcte-join-and-subquery", "matcte-union", "corr-subquery", "backpressure", "error-in-partition", "error-in-join-build", "insert-select", "ctas", "tables-hashjoin", "empty-nomatch-join-L-hashjoin-left", "empty-offset-all-R-hashjoin-right"]),
            pick(&["hashjoin-inner", "hashjoin-left", "groupby", "agg-distinct", "sort", "backpressure", "unionall", "insert-select"]),
            2usize,
            2usize,
            60u64,
        ),
    };
    let graph = match tlc::load_graph() {
        Ok(g) => Some(g),
        Err(e) => {
            rep.machinery_errors.push(format!("TLA+ model of the task state machine: {e}"));
            None
        }
    };
    let mut conf = tlc::Conformance::default();
    let (mut execs, mut decs) = (0u64, 0u64);
    let mut per_shape = Vec::new();
    let mut sample = None;
    let mut all_complete = true;
    // lock level: every lock() of the operator states (hook H1) and of the runtime is a scheduling point, also
    // inside polls - check-then-act races between critical sections of one poll and another thread
    let fine_plain = match tier {
        Tier::Quick => pick(&["backpressure", "hashjoin-inner", "groupby", "unionall"]),
        Tier::Thorough => pick(&["backpressure", "hashjoin-inner", "hashjoin-left", "nljoin-left", "groupby", "agg-distinct", "sort-limit", "limit", "unionall", "matcte-union", "insert-select", "ctas", "error-in-partition"]),
    };
    let fine_cancel = match tier {
        Tier::Quick => pick(&["backpressure"]),
        Tier::Thorough => pick(&["backpressure", "hashjoin-inner", "groupby"]),
    };
    for (shapes, with_cancel, fine) in [(&plain, false, false), (&cancel, true, false), (&fine_plain, false, true), (&fine_cancel, true, true)] {
        for sh in shapes.iter() {
            let cfg = ThrCfg { max_dev: dev, max_preempt: pre, wall_cap: Duration::from_secs(wall), exec_cap: u64::MAX, threads: threads(), with_cancel, fine };
            let r = thr::explore(sh, &cfg);
            execs += r.executions;
            decs += r.decisions;
            all_complete &= r.complete;
            for m in &r.machinery {
                rep.machinery_errors.push(m.clone());
            }
            let base = sh.name.split('/').next().unwrap_or(&sh.name);
            let mk = |schedule: &[u16], expected: &str, observed: &str| {
                let mut steps: Vec<(usize, String)> = sh.setup.iter().map(|s| (0usize, s.clone())).collect();
                steps.extend(sh.per_run.iter().map(|s| (0usize, s.clone())));
                steps.push((0, sh.query.clone()));
                Replay { check: format!("C04/thread{}{}", if with_cancel { "+cancel" } else { "" }, if fine { "+locks" } else { "" }), steps, schedule: Some(schedule.to_vec()), expected: expected.into(), observed: observed.into(), note: format!("shape={} thread-level schedule on the real ThreadedScheduler (thread chosen at each scheduling point; 0 = result consumer, workers in spawn order{})", sh.name, if with_cancel { ", one thread calls QueryHandle::cancel" } else { "" }), ..Default::default() }
            };
            for v in &r.violations {
                rep.fail(format!("C04|{}:{}|{}", if fine { "locks" } else { "thread" }, v.class, base), mk(&v.schedule, &v.expected, &v.observed));
            }
            if let Some(g) = &graph {
                for (t, sched) in &r.distinct_task_traces {
                    if let Err(e) = g.accept(t, &mut conf) {
                        if conf.rejected.len() < 20 {
                            conf.rejected.push(e.clone());
                        }
                        rep.fail(format!("C04|thread:trace-not-in-model|{base}"), mk(sched, "every sequence of ScheduleState transitions and polls of a task is a path of models/TaskState.tla", &e));
                    }
                }
            }
            if sample.is_none() {
                sample = r.sample.clone().map(|s| json!({"shape": sh.name, "thread_schedule": s}));
            }
            per_shape.push(json!({"shape": sh.name, "cancel": with_cancel, "lock_level": fine, "executions": r.executions, "decisions": r.decisions, "complete_within_bound": r.complete, "max_decisions": r.max_len, "max_threads": r.max_threads, "tasks": r.n_tasks, "distinct_outcomes": r.distinct_outcomes, "distinct_task_traces": r.distinct_task_traces.len(), "cancel_runs_ending_in_error": r.cancel_error_runs, "cancel_runs_completed_before_cancel": r.cancel_late_runs}));
        }
    }
    let accepted = conf.traces as u64;
    rep.cov(
        "thread_level",
        json!({"max_deviations": dev, "max_preemptions": pre, "executions": execs, "decisions": decs, "all_complete_within_bound": all_complete, "sample": sample, "shapes": per_shape,
            "explanation": "every execution runs the real ThreadedScheduler::spawn_pipelines / TaskState::schedule / worker loop / ThreadedQueryHandle::cancel; one thread runs at a time and yields before every lock of the threaded runtime outside a poll (thread level) or before every lock of the runtime and of the operator states, also inside polls, with try-lock semantics for held locks (lock level, hooks H1 + H2); all schedules with <= max_deviations non-default choices (of which <= max_preemptions preempt a runnable thread) are executed; oracles: terminates, same result, error reaches the client, cancel while a task is incomplete ends in an error, at most one worker per task, no poll after completion"}),
    );
    if let Some(g) = &graph {
        rep.cov(
            "tla_model",
            json!({"file": "models/TaskState.tla", "tlc": g.tlc_summary, "model_states": g.states.len(), "model_edges": g.n_edges(), "impl_traces_accepted": conf.traces, "impl_trace_steps": conf.steps, "impl_traces_rejected": conf.rejected,
                "model_states_witnessed_by_impl": conf.visited_states.len(), "model_edges_witnessed_by_impl": conf.visited_edges.len(), "model_actions_never_witnessed": g.unwitnessed_actions(&conf),
                "explanation": "TLC checks the invariants (at most one worker, pending only while running, never run again after completion, no lost wake-up) on the model's whole state space and dumps the state graph; every distinct per-task sequence of logged ScheduleState transitions and poll results from all thread-level executions is replayed on that graph, comparing the logged running/pending/completed/canceled flags with the model state after each step"}),
        );
    }
    (execs, decs, accepted)
}

fn per_shape_complete(rep: &Report) -> bool {
    rep.coverage.get("shapes").and_then(|v| v.as_array()).map(|a| a.iter().all(|s| s["all_schedules"]["complete"].as_bool().unwrap_or(false))).unwrap_or(false)
}
