use vharness::drv::{Driver, set_quiet};
use vharness::infra::Tier;

fn main() {
    // DbError captures a backtrace when RUST_BACKTRACE is set: slow and globally locked.
    unsafe { std::env::set_var("RUST_BACKTRACE", "0") };
    let args: Vec<String> = std::env::args().collect();
    if args.len() >= 3 && args[1] == "sql" {
        set_quiet(true);
        let mut d = Driver::new();
        for stmt in &args[2..] {
            let o = d.q(stmt);
            println!("{stmt}\n  => {}", o.brief());
            if d.dirty {
                println!("  (engine rebuilt after panic/hang)");
                d = Driver::new();
            }
        }
        return;
    }
    if args.len() >= 2 && args[1] == "pq" {
        use vharness::pqgen::*;
        set_quiet(true);
        // vcheck pq <enc> <v1,v2,...|null> [pages]
        let enc = match args.get(2).map(|s| s.as_str()) { Some("dbp") => Enc::DeltaBinaryPacked, Some("dict") => Enc::Dict, Some("bss") => Enc::ByteStreamSplit, _ => Enc::Plain };
        let vals: Vec<Option<PV>> = args.get(3).map(|s| s.split(',').map(|x| if x == "null" { None } else { Some(PV::I32(x.parse().unwrap())) }).collect()).unwrap_or_default();
        let pages: Vec<usize> = args.get(4).map(|s| s.split(',').map(|x| x.parse().unwrap()).collect()).unwrap_or(vec![1000]);
        let optional = vals.iter().any(|v| v.is_none());
        let cols = vec![Column { name: "a".into(), phys: Phys::Int32, logical: Logical::None, optional, values: vals, enc, old_dict_id: false, v2: false, codec: Codec::None, levels: LevelMode::Rle, stats: StatsMode::Exact, page_rows: pages }];
        let (bytes, _) = write_file(&cols, &[1000]);
        if let Some(p) = args.get(5) { std::fs::write(p, &bytes).unwrap(); }
        let mut d = Driver::new();
        d.fs.put("f.parquet", bytes);
        println!("{}", d.q("SELECT * FROM read_parquet('f.parquet')").brief());
        return;
    }
    if args.len() >= 3 && args[1] == "replay" {
        // vcheck replay <file>: re-executes a recorded violation without the explorer.
        set_quiet(true);
        let v: serde_json::Value = serde_json::from_str(&std::fs::read_to_string(&args[2]).expect("replay file")).expect("replay json");
        let r = vharness::infra::Replay::from_json(&v);
        println!("property={} key={}", r.property, r.key);
        println!("recorded: expected {} / observed {}", r.expected, r.observed);
        let mut d = Driver::new();
        for (p, b) in &r.files {
            d.fs.put(p, b.clone());
        }
        let nsess = r.steps.iter().map(|(s, _)| *s).max().unwrap_or(0);
        for _ in 0..nsess {
            d.new_session();
        }
        let n = r.steps.len();
        for (i, (sess, sql)) in r.steps.iter().enumerate() {
            let last = i + 1 == n;
            if last {
                let mut script = std::collections::BTreeMap::new();
                for (ri, kind, arg) in &r.script {
                    let a = match kind.as_str() {
                        "short" => vharness::vfs::Answer::Short(*arg),
                        "pending" => vharness::vfs::Answer::Pending,
                        "err" => vharness::vfs::Answer::Err,
                        _ => vharness::vfs::Answer::Full,
                    };
                    script.insert(*ri, a);
                }
                d.fs.set_script(script);
            }
            let o = match (&r.schedule, last) {
                (Some(sch), true) if r.check.starts_with("C04/thread") => {
                    // thread-level schedule on the real ThreadedScheduler: replay setup on a ThrDriver
                    let mut td = vharness::thr::ThrDriver::new();
                    for (_, s0) in &r.steps[..n - 1] {
                        let _ = td.q_free(s0);
                    }
                    let obs = td.run_mode(sql, sch, r.check.contains("+cancel"), r.check.contains("+locks"));
                    if let Some(dv) = &obs.diverged {
                        println!("  schedule diverged: {dv}");
                    }
                    if let Some((c, det)) = vharness::thr::check_log(&obs.log) {
                        println!("  task state machine: {c}: {det}");
                    }
                    obs.outcome
                }
                (Some(sch), true) => {
                    let mut ps = vharness::sched::PrefixSched { prefix: sch, enabled_log: vec![], parked_log: vec![], diverged: None };
                    let out = d.run(*sess, sql, &mut ps).outcome;
                    if let Some(dv) = &ps.diverged {
                        println!("  schedule diverged: {dv}");
                    }
                    out
                }
                _ => d.run(*sess, sql, &mut vharness::drv::Sequential).outcome,
            };
            println!("[s{sess}] {}\n  => {}", vharness::infra::one_line(sql, 400), o.brief());
        }
        return;
    }
    if args.len() >= 3 && args[1] == "csv" {
        // vcheck csv <escaped content>...  (\n \r \t escapes)
        set_quiet(true);
        for a in &args[2..] {
            let data = a.replace("\\n", "\n").replace("\\r", "\r").replace("\\t", "\t");
            let mut d = Driver::new();
            d.fs.put("f.csv", data.as_bytes().to_vec());
            if let Ok(c) = std::env::var("VERIF_CHUNK") {
                d.fs.set_max_chunk(c.parse().ok());
            }
            let q = std::env::var("VERIF_CSV_SQL").unwrap_or_else(|_| "SELECT * FROM read_csv('f.csv')".into());
            println!("{:?}\n  => {}", data, d.q(&q).brief());
        }
        return;
    }
    if args.len() >= 3 && args[1] == "sqlfull" {
        set_quiet(true);
        let mut d = Driver::new();
        for stmt in &args[2..] {
            match d.q(stmt) {
                vharness::drv::Outcome::Rows(r) => {
                    println!("{:?} {:?}", r.names, r.types);
                    for row in &r.rows {
                        println!("{}", vharness::val::fmt_row(row));
                    }
                }
                o => println!("{}", o.brief()),
            }
        }
        return;
    }
    if args.len() >= 3 && args[1] == "sched" {
        // vcheck sched <query> [--setup s]... [--dev N] [--spur N] [--threads N]
        let mut shape = vharness::sched::Shape::new("cli", &[], &args[2]);
        let mut cfg = vharness::sched::ExploreCfg { max_dev: None, max_spurious: 0, wall_cap: std::time::Duration::from_secs(120), exec_cap: u64::MAX, threads: vharness::infra::threads() };
        let mut i = 3;
        while i + 1 < args.len() {
            match args[i].as_str() {
                "--setup" => shape.setup.push(args[i + 1].clone()),
                "--perrun" => shape.per_run.push(args[i + 1].clone()),
                "--observe" => shape.observe.push(args[i + 1].clone()),
                "--dev" => cfg.max_dev = Some(args[i + 1].parse().unwrap()),
                "--spur" => cfg.max_spurious = args[i + 1].parse().unwrap(),
                "--threads" => cfg.threads = args[i + 1].parse().unwrap(),
                "--wall" => cfg.wall_cap = std::time::Duration::from_secs(args[i + 1].parse().unwrap()),
                _ => {}
            }
            i += 2;
        }
        let t = std::time::Instant::now();
        let r = vharness::sched::explore(&shape, &cfg);
        println!("executions={} steps={} max_len={} max_width={} tasks={} event_orders={} outcomes={} complete={} errors={} violations={} machinery={:?} in {:.2}s", r.executions, r.steps, r.max_len, r.max_width, r.n_tasks, r.distinct_event_orders, r.distinct_outcomes, r.complete, r.error_executions, r.violations.len(), r.machinery, t.elapsed().as_secs_f64());
        for v in r.violations.iter().take(5) {
            println!("  VIOL {} sched={:?} expected={} observed={}", v.class, v.schedule, v.expected, v.observed);
        }
        println!("  samples: {:?}", r.sample_schedules);
        return;
    }
    if args.len() >= 3 && args[1] == "thr" {
        // vcheck thr <query> [--setup s]... [--pre N] [--cancel 1] [--threads N] [--wall S]
        let mut shape = vharness::sched::Shape::new("cli", &[], &args[2]);
        let mut cfg = vharness::thr::ThrCfg { max_dev: 2, max_preempt: 1, wall_cap: std::time::Duration::from_secs(120), exec_cap: u64::MAX, threads: vharness::infra::threads(), with_cancel: false, fine: false };
        let mut i = 3;
        while i + 1 < args.len() {
            match args[i].as_str() {
                "--setup" => shape.setup.push(args[i + 1].clone()),
                "--perrun" => shape.per_run.push(args[i + 1].clone()),
                "--observe" => shape.observe.push(args[i + 1].clone()),
                "--fine" => cfg.fine = args[i + 1] == "1",
                "--pre" => cfg.max_preempt = args[i + 1].parse().unwrap(),
                "--dev" => cfg.max_dev = args[i + 1].parse().unwrap(),
                "--cancel" => cfg.with_cancel = args[i + 1] == "1",
                "--threads" => cfg.threads = args[i + 1].parse().unwrap(),
                "--wall" => cfg.wall_cap = std::time::Duration::from_secs(args[i + 1].parse().unwrap()),
                _ => {}
            }
            i += 2;
        }
        let t = std::time::Instant::now();
        let r = vharness::thr::explore(&shape, &cfg);
        println!("executions={} decisions={} max_len={} max_threads={} tasks={} outcomes={} task_traces={} complete={} violations={} cancel(err/late)={}/{} machinery={:?} in {:.2}s", r.executions, r.decisions, r.max_len, r.max_threads, r.n_tasks, r.distinct_outcomes, r.distinct_task_traces.len(), r.complete, r.violations.len(), r.cancel_error_runs, r.cancel_late_runs, r.machinery, t.elapsed().as_secs_f64());
        for v in r.violations.iter().take(5) {
            println!("  VIOL {} sched={:?} expected={} observed={}", v.class, v.schedule, v.expected, v.observed);
        }
        for t in r.distinct_task_traces.keys().take(6) {
            println!("  trace: {}", t.iter().map(|x| x.0).collect::<Vec<_>>().join(" "));
        }
        println!("  sample: {:?}", r.sample);
        match vharness::tlc::load_graph() {
            Ok(g) => {
                let mut c = vharness::tlc::Conformance::default();
                for t in r.distinct_task_traces.keys() {
                    if let Err(e) = g.accept(t, &mut c) {
                        println!("  NOT IN MODEL: {e}");
                    }
                }
                println!("  model: {} states {} edges ({}); impl traces accepted {} ; model states witnessed {} edges witnessed {}; unwitnessed actions {:?}", g.states.len(), g.n_edges(), g.tlc_summary, c.traces, c.visited_states.len(), c.visited_edges.len(), g.unwitnessed_actions(&c));
            }
            Err(e) => println!("  TLC: {e}"),
        }
        return;
    }
    if args.len() >= 2 && args[1] == "terms" {
        let depth: usize = args.get(2).and_then(|s| s.parse().ok()).unwrap_or(1);
        let full = args.get(3).map(|s| s == "full").unwrap_or(false);
        let ts = vharness::alg::terms(depth, full);
        for t in &ts {
            println!("{}\t{}", t.shape, t.q.sql());
        }
        eprintln!("{} terms", ts.len());
        return;
    }
    if args.len() >= 2 && args[1].starts_with('C') && std::env::var("VERIF_CHILD").is_err() {
        // run the check in a guarded child process (hang / abort isolation)
        std::process::exit(vharness::guard::supervise(&args[1..]));
    }
    if args.len() >= 2 && args[1].starts_with('C') {
        let mut tier = match std::env::var("VERIF_TIER").ok().as_deref() {
            Some("thorough") => Tier::Thorough,
            _ => Tier::Quick,
        };
        let mut i = 2;
        while i < args.len() {
            if args[i] == "--tier" && i + 1 < args.len() {
                tier = if args[i + 1] == "thorough" { Tier::Thorough } else { Tier::Quick };
                i += 1;
            }
            i += 1;
        }
        let code = match args[1].as_str() {
            "C01" => vharness::checks::c01::run(tier),
            "C02" => vharness::checks::c02::run(tier),
            "C03" => vharness::checks::c03::run(tier),
            "C04" => vharness::checks::c04::run(tier),
            "C05" => vharness::checks::c05::run(tier),
            "C06" => vharness::checks::c06::run(tier),
            "C07" => vharness::checks::c07::run(tier),
            "C08" => vharness::checks::c08::run(tier),
            "C09" => vharness::checks::c09::run(tier),
            "C10" => vharness::checks::c10::run(tier),
            "C11" => vharness::checks::c11::run(tier),
            "C12" => vharness::checks::c12::run(tier),
            "C13" => vharness::checks::c13::run(tier),
            "C14" => vharness::checks::c14::run(tier),
            "C15" => vharness::checks::c15::run(tier),
            "C16" => vharness::checks::c16::run(tier),
            "C16A" => vharness::checks::c16a::run(tier),
            "C17" => vharness::checks::c17::run(tier),
            "C18" => vharness::checks::c18::run(tier),
            "C19" => vharness::checks::c19::run(tier),
            "C20" => vharness::checks::c20::run(tier),
            other => {
                eprintln!("unknown check {other}");
                2
            }
        };
        std::process::exit(code);
    }
    eprintln!("usage: vcheck <Cxx> [--tier quick|thorough] | sql <stmt>... | terms <depth> [full] | replay <file>");
    std::process::exit(2);
}
