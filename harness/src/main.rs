use vharness::drv::{Driver, set_quiet};
use vharness::infra::Tier;

fn main() {
    // DbError captures a backtrace when RUST_BACKTRACE is set: slow and globally locked.
    unsafe { std::env::set_var("RUST_BACKTRACE", "0") };
    let args: Vec<String> = std::env::args().collect();
    if args.len() >= 3 && args[1] == "sql" {
        set_quiet(true);
        let mut d = Driver::new();
        for stmt in &args[2..] {
            let o = d.q(stmt);
            println!("{stmt}\n  => {}", o.brief());
            if d.dirty {
                println!("  (engine rebuilt after panic/hang)");
                d = Driver::new();
            }
        }
        return;
    }
    if args.len() >= 2 && args[1] == "terms" {
        let depth: usize = args.get(2).and_then(|s| s.parse().ok()).unwrap_or(1);
        let full = args.get(3).map(|s| s == "full").unwrap_or(false);
        let ts = vharness::alg::terms(depth, full);
        for t in &ts {
            println!("{}\t{}", t.shape, t.q.sql());
        }
        eprintln!("{} terms", ts.len());
        return;
    }
    if args.len() >= 2 && args[1].starts_with('C') {
        let mut tier = match std::env::var("VERIF_TIER").ok().as_deref() {
            Some("thorough") => Tier::Thorough,
            _ => Tier::Quick,
        };
        let mut i = 2;
        while i < args.len() {
            if args[i] == "--tier" && i + 1 < args.len() {
                tier = if args[i + 1] == "thorough" { Tier::Thorough } else { Tier::Quick };
                i += 1;
            }
            i += 1;
        }
        let code = match args[1].as_str() {
            "C01" => vharness::checks::c01::run(tier),
            "C02" => vharness::checks::c02::run(tier),
            "C03" => vharness::checks::c03::run(tier),
            other => {
                eprintln!("unknown check {other}");
                2
            }
        };
        std::process::exit(code);
    }
    eprintln!("usage: vcheck <Cxx> [--tier quick|thorough] | sql <stmt>... | terms <depth> [full] | replay <file>");
    std::process::exit(2);
}
