//! Exact value representation used by every oracle.
use std::fmt;

use glaredb_core::arrays::datatype::TimeUnit;
use glaredb_core::arrays::scalar::BorrowedScalarValue;

#[derive(Clone, Debug, PartialEq, Eq, Hash, PartialOrd, Ord)]
pub enum Val {
    Null,
    Bool(bool),
    /// Any integer up to i128; the engine variant is kept in `tag`.
    Int(i128),
    U128(u128),
    F16(u16),
    F32(u32),
    F64(u64),
    /// unscaled value, precision, scale
    Dec(i128, u8, i8),
    Str(String),
    Bytes(Vec<u8>),
    Date32(i32),
    Date64(i64),
    /// unit (0=s,1=ms,2=us,3=ns), value
    Ts(u8, i64),
    Interval(i32, i32, i64),
    List(Vec<Val>),
    Struct(Vec<Val>),
}

impl Val {
    pub fn is_null(&self) -> bool {
        matches!(self, Val::Null)
    }
    pub fn f64(v: f64) -> Val {
        Val::F64(v.to_bits())
    }
    pub fn as_f64(&self) -> Option<f64> {
        match self {
            Val::F64(b) => Some(f64::from_bits(*b)),
            Val::F32(b) => Some(f32::from_bits(*b) as f64),
            Val::F16(b) => Some(half::f16::from_bits(*b).to_f64()),
            Val::Int(i) => Some(*i as f64),
            _ => None,
        }
    }
    pub fn as_int(&self) -> Option<i128> {
        match self {
            Val::Int(i) => Some(*i),
            _ => None,
        }
    }
    pub fn as_str(&self) -> Option<&str> {
        match self {
            Val::Str(s) => Some(s),
            _ => None,
        }
    }
    /// NaN-normalised copy (all NaNs compare equal, sign of NaN ignored).
    pub fn norm(&self) -> Val {
        match self {
            Val::F64(b) if f64::from_bits(*b).is_nan() => Val::F64(f64::NAN.to_bits()),
            Val::F32(b) if f32::from_bits(*b).is_nan() => Val::F32(f32::NAN.to_bits()),
            Val::F16(b) if half::f16::from_bits(*b).is_nan() => Val::F16(half::f16::NAN.to_bits()),
            Val::List(v) => Val::List(v.iter().map(|x| x.norm()).collect()),
            Val::Struct(v) => Val::Struct(v.iter().map(|x| x.norm()).collect()),
            o => o.clone(),
        }
    }
}

impl fmt::Display for Val {
    fn fmt(&self, f: &mut fmt::Formatter<'_>) -> fmt::Result {
        match self {
            Val::Null => write!(f, "NULL"),
            Val::Bool(b) => write!(f, "{b}"),
            Val::Int(i) => write!(f, "{i}"),
            Val::U128(i) => write!(f, "{i}"),
            Val::F16(b) => write!(f, "{:?}h", half::f16::from_bits(*b).to_f32()),
            Val::F32(b) => write!(f, "{:?}f", f32::from_bits(*b)),
            Val::F64(b) => write!(f, "{:?}", f64::from_bits(*b)),
            Val::Dec(v, p, s) => write!(f, "{v}e-{s}:dec({p},{s})"),
            Val::Str(s) => write!(f, "{s:?}"),
            Val::Bytes(b) => write!(f, "x{}", hex(b)),
            Val::Date32(d) => write!(f, "date32:{d}"),
            Val::Date64(d) => write!(f, "date64:{d}"),
            Val::Ts(u, v) => write!(f, "ts{u}:{v}"),
            Val::Interval(m, d, n) => write!(f, "interval:{m}m{d}d{n}ns"),
            Val::List(v) => {
                write!(f, "[")?;
                for (i, x) in v.iter().enumerate() {
                    if i > 0 {
                        write!(f, ",")?;
                    }
                    write!(f, "{x}")?;
                }
                write!(f, "]")
            }
            Val::Struct(v) => {
                write!(f, "{{")?;
                for (i, x) in v.iter().enumerate() {
                    if i > 0 {
                        write!(f, ",")?;
                    }
                    write!(f, "{x}")?;
                }
                write!(f, "}}")
            }
        }
    }
}

pub fn hex(b: &[u8]) -> String {
    let mut s = String::with_capacity(b.len() * 2);
    for x in b {
        s.push_str(&format!("{x:02x}"));
    }
    s
}

pub fn unhex(s: &str) -> Vec<u8> {
    (0..s.len() / 2)
        .map(|i| u8::from_str_radix(&s[2 * i..2 * i + 2], 16).unwrap())
        .collect()
}

pub fn unit_id(u: TimeUnit) -> u8 {
    match u {
        TimeUnit::Second => 0,
        TimeUnit::Millisecond => 1,
        TimeUnit::Microsecond => 2,
        TimeUnit::Nanosecond => 3,
    }
}

/// Convert an engine scalar into (Val, variant tag). The tag is the engine's
/// value variant (with decimal p,s / timestamp unit) rendered like the
/// `DataType` display would render the matching type where possible.
pub fn from_scalar(v: &BorrowedScalarValue<'_>) -> (Val, String) {
    use BorrowedScalarValue as S;
    match v {
        S::Null => (Val::Null, "Null".into()),
        S::Boolean(b) => (Val::Bool(*b), "Boolean".into()),
        S::Float16(x) => (Val::F16(x.to_bits()), "Float16".into()),
        S::Float32(x) => (Val::F32(x.to_bits()), "Float32".into()),
        S::Float64(x) => (Val::F64(x.to_bits()), "Float64".into()),
        S::Int8(x) => (Val::Int(*x as i128), "Int8".into()),
        S::Int16(x) => (Val::Int(*x as i128), "Int16".into()),
        S::Int32(x) => (Val::Int(*x as i128), "Int32".into()),
        S::Int64(x) => (Val::Int(*x as i128), "Int64".into()),
        S::Int128(x) => (Val::Int(*x), "Int128".into()),
        S::UInt8(x) => (Val::Int(*x as i128), "UInt8".into()),
        S::UInt16(x) => (Val::Int(*x as i128), "UInt16".into()),
        S::UInt32(x) => (Val::Int(*x as i128), "UInt32".into()),
        S::UInt64(x) => (Val::Int(*x as i128), "UInt64".into()),
        S::UInt128(x) => (Val::U128(*x), "UInt128".into()),
        S::Decimal64(d) => (
            Val::Dec(d.value as i128, d.precision, d.scale),
            format!("Decimal64({},{})", d.precision, d.scale),
        ),
        S::Decimal128(d) => (
            Val::Dec(d.value, d.precision, d.scale),
            format!("Decimal128({},{})", d.precision, d.scale),
        ),
        S::Date32(d) => (Val::Date32(*d), "Date32".into()),
        S::Date64(d) => (Val::Date64(*d), "Date64".into()),
        S::Timestamp(t) => (
            Val::Ts(unit_id(t.unit), t.value),
            format!("Timestamp({})", t.unit),
        ),
        S::Interval(i) => (Val::Interval(i.months, i.days, i.nanos), "Interval".into()),
        S::Utf8(s) => (Val::Str(s.to_string()), "Utf8".into()),
        S::Binary(b) => (Val::Bytes(b.to_vec()), "Binary".into()),
        S::Struct(vs) => {
            let mut out = Vec::new();
            let mut tags = Vec::new();
            for v in vs {
                let (a, t) = from_scalar(v);
                out.push(a);
                tags.push(t);
            }
            (Val::Struct(out), format!("Struct<{}>", tags.join(",")))
        }
        S::List(vs) => {
            let mut out = Vec::new();
            let mut tag = String::from("?");
            for v in vs {
                let (a, t) = from_scalar(v);
                if !a.is_null() {
                    tag = t;
                }
                out.push(a);
            }
            (Val::List(out), format!("List<{tag}>"))
        }
    }
}

pub type Row = Vec<Val>;

pub fn fmt_row(r: &Row) -> String {
    let v: Vec<String> = r.iter().map(|x| x.to_string()).collect();
    format!("({})", v.join(", "))
}

pub fn fmt_rows(rows: &[Row], max: usize) -> String {
    let mut v: Vec<String> = rows.iter().take(max).map(fmt_row).collect();
    if rows.len() > max {
        v.push(format!("... {} rows total", rows.len()));
    }
    format!("[{}]", v.join(" "))
}

/// Sorted, NaN-normalised copy for bag comparison.
pub fn bag(rows: &[Row]) -> Vec<Row> {
    let mut v: Vec<Row> = rows
        .iter()
        .map(|r| r.iter().map(|x| x.norm()).collect())
        .collect();
    v.sort();
    v
}
