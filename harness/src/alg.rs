//! Program and database alphabets for the relational checks (C01/C02/C03/...).
//! Terms of a small relational algebra, enumerated by depth, simplest first.
use std::collections::BTreeSet;

use crate::rm::*;
use crate::val::{Row, Val};

#[derive(Clone, Debug)]
pub struct Term {
    pub q: Query,
    /// output signature (unique names)
    pub sig: Vec<(String, Ty)>,
    pub shape: String,
    pub depth: usize,
    /// does the term contain a cross-partition barrier (join/agg/distinct/sort/limit/union/cte)
    pub barrier: bool,
}

fn int_cols(sig: &[(String, Ty)]) -> Vec<String> {
    sig.iter().filter(|c| c.1 == Ty::Int32 || c.1 == Ty::Int64).map(|c| c.0.clone()).collect()
}
fn text_cols(sig: &[(String, Ty)]) -> Vec<String> {
    sig.iter().filter(|c| c.1 == Ty::Text).map(|c| c.0.clone()).collect()
}

pub fn base_terms() -> Vec<Term> {
    let t = Term {
        q: Query::of(Select { distinct: false, items: vec![Item::Expr(col("a"), None), Item::Expr(col("b"), None), Item::Expr(col("c"), None)], from: Some(table("t")), where_: None, group_by: GroupBy::None, having: None }),
        sig: vec![("a".into(), Ty::Int32), ("b".into(), Ty::Int32), ("c".into(), Ty::Text)],
        shape: "t".into(),
        depth: 0,
        barrier: false,
    };
    let u = Term {
        q: Query::of(Select { distinct: false, items: vec![Item::Expr(col("a"), None), Item::Expr(col("d"), None)], from: Some(table("u")), where_: None, group_by: GroupBy::None, having: None }),
        sig: vec![("a".into(), Ty::Int32), ("d".into(), Ty::Int32)],
        shape: "u".into(),
        depth: 0,
        barrier: false,
    };
    vec![t, u]
}

/// FROM item for using `t` as an input: base tables are used directly, anything
/// else becomes a derived table.
fn as_from(t: &Term, alias: &str) -> From {
    if t.depth == 0 {
        if let Body::Select(s) = &t.q.body {
            if let Some(From::Table { name, .. }) = &s.from {
                return From::Table { name: name.clone(), alias: if alias == name { None } else { Some(alias.to_string()) } };
            }
        }
    }
    From::Sub { q: Box::new(t.q.clone()), alias: alias.to_string(), lateral: false }
}

fn base_alias(t: &Term, dflt: &str) -> String {
    if t.depth == 0 {
        if let Body::Select(s) = &t.q.body {
            if let Some(From::Table { name, .. }) = &s.from {
                return name.clone();
            }
        }
    }
    dflt.to_string()
}

fn sel(items: Vec<Item>, from: From) -> Select {
    Select { distinct: false, items, from: Some(from), where_: None, group_by: GroupBy::None, having: None }
}

fn all_items(sig: &[(String, Ty)]) -> Vec<Item> {
    sig.iter().map(|c| Item::Expr(col(&c.0), None)).collect()
}

fn agg(f: AggF, arg: Option<E>) -> E {
    E::Agg { f, arg: arg.map(Box::new), distinct: false, filter: None }
}

/// All unary operators applicable to `t`.
pub fn unary(t: &Term, full: bool) -> Vec<Term> {
    let mut out = Vec::new();
    let ints = int_cols(&t.sig);
    let texts = text_cols(&t.sig);
    let alias = base_alias(t, "s");
    let from = || as_from(t, &alias);
    let d = t.depth + 1;
    let mk = |q: Query, sig: Vec<(String, Ty)>, shape: &str, barrier: bool| Term { q, sig, shape: format!("{}({})", shape, t.shape), depth: d, barrier: t.barrier || barrier };
    if ints.is_empty() {
        return out;
    }
    let x = col(&ints[0]);
    let y = if ints.len() > 1 { col(&ints[1]) } else { col(&ints[0]) };
    let ty_of = |n: &str| t.sig.iter().find(|c| c.0 == n).map(|c| c.1).unwrap_or(Ty::Unknown);
    let xt = ty_of(&ints[0]);
    let yt = if ints.len() > 1 { ty_of(&ints[1]) } else { xt };
    let same_ty = xt == yt;
    // ---- filters
    let mut preds: Vec<(&str, E)> = vec![
        ("eq1", bin(Op::Eq, x.clone(), E::Int(1))),
        ("lt", bin(Op::Lt, x.clone(), y.clone())),
        ("isnull", E::IsNull(Box::new(x.clone()), false)),
        ("or", bin(Op::Or, bin(Op::Ne, x.clone(), E::Int(1)), E::IsNull(Box::new(y.clone()), false))),
        ("not", E::Not(Box::new(bin(Op::Eq, x.clone(), y.clone())))),
    ];
    if full {
        preds.push(("in", E::InList(Box::new(x.clone()), vec![E::Int(1), E::Int(3)], false)));
        preds.push(("between", E::Between(Box::new(y.clone()), Box::new(E::Int(1)), Box::new(E::Int(2)), false)));
        preds.push(("and", bin(Op::And, bin(Op::Ge, x.clone(), E::Int(1)), bin(Op::Le, y.clone(), E::Int(2)))));
        preds.push(("notin", E::InList(Box::new(x.clone()), vec![E::Int(2), E::Null], true)));
        preds.push(("isdistinct", bin(Op::Distinct, x.clone(), y.clone())));
        if !texts.is_empty() {
            preds.push(("texteq", bin(Op::Eq, col(&texts[0]), E::Str("x".into()))));
        }
    }
    for (n, p) in preds {
        let mut s = sel(all_items(&t.sig), from());
        s.where_ = Some(p);
        out.push(mk(Query::of(s), t.sig.clone(), &format!("filter:{n}"), false));
    }
    // ---- projections
    {
        let s = sel(vec![Item::Expr(bin(Op::Add, x.clone(), y.clone()), Some("s".into())), Item::Expr(x.clone(), None)], from());
        out.push(mk(Query::of(s), vec![("s".into(), Ty::Int32), (ints[0].clone(), Ty::Int32)], "proj:add", false));
        if same_ty {
            let case = E::Case(vec![(bin(Op::Eq, x.clone(), E::Int(1)), y.clone())], Some(Box::new(x.clone())));
            let s = sel(vec![Item::Expr(case, Some("k".into())), Item::Expr(y.clone(), Some("y".into()))], from());
            out.push(mk(Query::of(s), vec![("k".into(), xt), ("y".into(), yt)], "proj:case", false));
            let s = sel(vec![Item::Expr(E::Coalesce(vec![x.clone(), y.clone()]), Some("k".into()))], from());
            out.push(mk(Query::of(s), vec![("k".into(), xt)], "proj:coalesce", false));
        }
        if full {
            let case = E::Case(vec![(E::IsNull(Box::new(x.clone()), false), E::Int(0)), (bin(Op::Gt, x.clone(), E::Int(1)), bin(Op::Mul, x.clone(), E::Int(2)))], None);
            let s = sel(vec![Item::Expr(case, Some("k".into())), Item::Expr(bin(Op::Sub, y.clone(), E::Int(1)), Some("m".into()))], from());
            out.push(mk(Query::of(s), vec![("k".into(), Ty::Int32), ("m".into(), Ty::Int32)], "proj:case2", false));
            // constant column + reorder
            let s = sel(vec![Item::Expr(y.clone(), Some("y".into())), Item::Expr(E::Int(7), Some("k".into())), Item::Expr(x.clone(), Some("x".into()))], from());
            out.push(mk(Query::of(s), vec![("y".into(), Ty::Int32), ("k".into(), Ty::Int32), ("x".into(), Ty::Int32)], "proj:const", false));
            if !texts.is_empty() {
                let s = sel(vec![Item::Expr(col(&texts[0]), None), Item::Expr(x.clone(), None)], from());
                out.push(mk(Query::of(s), vec![(texts[0].clone(), Ty::Text), (ints[0].clone(), Ty::Int32)], "proj:text", false));
            }
        }
    }
    // ---- aggregates
    {
        let mut aggs: Vec<(&str, Vec<(E, &str, Ty)>)> = vec![
            ("count", vec![(agg(AggF::CountStar, None), "n", Ty::Int64)]),
            ("sum", vec![(agg(AggF::Sum, Some(y.clone())), "sm", Ty::Int64), (agg(AggF::Count, Some(y.clone())), "n", Ty::Int64)]),
            ("minmax", vec![(agg(AggF::Min, Some(y.clone())), "mn", Ty::Int32), (agg(AggF::Max, Some(y.clone())), "mx", Ty::Int32)]),
        ];
        if full {
            aggs.push(("avg", vec![(agg(AggF::Avg, Some(y.clone())), "av", Ty::F64)]));
            aggs.push(("cdist", vec![(E::Agg { f: AggF::Count, arg: Some(Box::new(y.clone())), distinct: true, filter: None }, "n", Ty::Int64)]));
            aggs.push(("sumfilter", vec![(E::Agg { f: AggF::Sum, arg: Some(Box::new(y.clone())), distinct: false, filter: Some(Box::new(bin(Op::Gt, y.clone(), E::Int(1)))) }, "sm", Ty::Int64)]));
            if !texts.is_empty() {
                aggs.push(("mintext", vec![(agg(AggF::Min, Some(col(&texts[0]))), "mn", Ty::Text)]));
            }
        }
        for (n, list) in &aggs {
            // grouped by x
            let mut items = vec![Item::Expr(x.clone(), None)];
            let mut sig = vec![(ints[0].clone(), Ty::Int32)];
            for (e, a, ty) in list {
                items.push(Item::Expr(e.clone(), Some(a.to_string())));
                sig.push((a.to_string(), *ty));
            }
            let mut s = sel(items, from());
            s.group_by = GroupBy::Plain(vec![x.clone()]);
            out.push(mk(Query::of(s), sig, &format!("group:{n}"), true));
            // global
            let mut items = vec![];
            let mut sig = vec![];
            for (e, a, ty) in list {
                items.push(Item::Expr(e.clone(), Some(a.to_string())));
                sig.push((a.to_string(), *ty));
            }
            let s = sel(items, from());
            out.push(mk(Query::of(s), sig, &format!("agg:{n}"), true));
        }
        // having
        let mut s = sel(vec![Item::Expr(x.clone(), None), Item::Expr(agg(AggF::CountStar, None), Some("n".into()))], from());
        s.group_by = GroupBy::Plain(vec![x.clone()]);
        s.having = Some(bin(Op::Gt, agg(AggF::CountStar, None), E::Int(1)));
        out.push(mk(Query::of(s), vec![(ints[0].clone(), Ty::Int32), ("n".into(), Ty::Int64)], "group:having", true));
        if full && ints.len() > 1 {
            let mut s = sel(vec![Item::Expr(x.clone(), None), Item::Expr(y.clone(), None), Item::Expr(agg(AggF::CountStar, None), Some("n".into()))], from());
            s.group_by = GroupBy::Plain(vec![x.clone(), y.clone()]);
            out.push(mk(Query::of(s), vec![(ints[0].clone(), Ty::Int32), (ints[1].clone(), Ty::Int32), ("n".into(), Ty::Int64)], "group:2keys", true));
            // group by expression
            let ex = bin(Op::Add, x.clone(), y.clone());
            let mut s = sel(vec![Item::Expr(ex.clone(), Some("k".into())), Item::Expr(agg(AggF::Sum, Some(x.clone())), Some("sm".into()))], from());
            s.group_by = GroupBy::Plain(vec![ex]);
            out.push(mk(Query::of(s), vec![("k".into(), Ty::Int32), ("sm".into(), Ty::Int64)], "group:expr", true));
        }
    }
    // ---- distinct
    {
        let mut s = sel(vec![Item::Expr(x.clone(), None)], from());
        s.distinct = true;
        out.push(mk(Query::of(s), vec![(ints[0].clone(), Ty::Int32)], "distinct:1", true));
        if ints.len() > 1 {
            let mut s = sel(vec![Item::Expr(x.clone(), None), Item::Expr(y.clone(), None)], from());
            s.distinct = true;
            out.push(mk(Query::of(s), vec![(ints[0].clone(), Ty::Int32), (ints[1].clone(), Ty::Int32)], "distinct:2", true));
        }
    }
    // ---- inner sort + limit (deterministic: total order over all columns)
    {
        let n = t.sig.len();
        let keys = |desc: bool, nf: Option<bool>| -> Vec<OrderKey> { (1..=n).map(|i| OrderKey { ordinal: i, desc, nulls_first: nf, by_name: false }).collect() };
        let mut variants: Vec<(&str, Vec<OrderKey>, Option<u64>, Option<u64>)> = vec![("asc:l1", keys(false, None), Some(1), None), ("desc:l2o1", keys(true, None), Some(2), Some(1))];
        if full {
            variants.push(("ascnf:l2", keys(false, Some(true)), Some(2), None));
            variants.push(("descnl:o1", keys(true, Some(false)), None, Some(1)));
            variants.push(("asc:l0", keys(false, None), Some(0), None));
        }
        for (nm, k, l, o) in variants {
            let mut q = Query::of(sel(all_items(&t.sig), from()));
            q.order_by = k;
            q.limit = l;
            q.offset = o;
            out.push(mk(q, t.sig.clone(), &format!("sortlimit:{nm}"), true));
        }
    }
    out
}

fn qualify(alias: &str, sig: &[(String, Ty)], taken: &mut BTreeSet<String>) -> (Vec<Item>, Vec<(String, Ty)>) {
    let mut items = Vec::new();
    let mut out = Vec::new();
    for (n, ty) in sig {
        let mut name = n.clone();
        while taken.contains(&name) {
            name.push('2');
        }
        taken.insert(name.clone());
        items.push(Item::Expr(qcol(alias, n), if &name == n { None } else { Some(name.clone()) }));
        out.push((name, *ty));
    }
    (items, out)
}

/// All binary operators over (l, r).
pub fn binary(l: &Term, r: &Term, full: bool) -> Vec<Term> {
    let mut out = Vec::new();
    let d = l.depth.max(r.depth) + 1;
    let li = int_cols(&l.sig);
    let ri = int_cols(&r.sig);
    if li.is_empty() || ri.is_empty() {
        return out;
    }
    let mk = |q: Query, sig: Vec<(String, Ty)>, shape: &str| Term { q, sig, shape: format!("{}({},{})", shape, l.shape, r.shape), depth: d, barrier: true };
    let lf = as_from(l, "l");
    let rf = as_from(r, "r");
    let lx = qcol("l", &li[0]);
    let rx = qcol("r", &ri[0]);
    let ry = qcol("r", ri.last().unwrap());
    let ly = qcol("l", li.last().unwrap());
    let mut conds: Vec<(&str, Option<E>)> = vec![("eq", Some(bin(Op::Eq, lx.clone(), rx.clone())))];
    if full {
        conds.push(("eq2", Some(bin(Op::And, bin(Op::Eq, lx.clone(), rx.clone()), bin(Op::Eq, ly.clone(), ry.clone())))));
        conds.push(("eqlt", Some(bin(Op::And, bin(Op::Eq, lx.clone(), rx.clone()), bin(Op::Lt, ly.clone(), ry.clone())))));
        conds.push(("lt", Some(bin(Op::Lt, lx.clone(), ry.clone()))));
        conds.push(("eqexpr", Some(bin(Op::Eq, bin(Op::Add, lx.clone(), E::Int(1)), rx.clone()))));
        conds.push(("or", Some(bin(Op::Or, bin(Op::Eq, lx.clone(), rx.clone()), bin(Op::Eq, ly.clone(), ry.clone())))));
    }
    let kinds: Vec<(&str, JoinKind)> = vec![("inner", JoinKind::Inner), ("left", JoinKind::Left), ("right", JoinKind::Right)];
    for (kn, kind) in &kinds {
        for (cn, cond) in &conds {
            let mut taken = BTreeSet::new();
            let (mut items, mut sig) = qualify("l", &l.sig, &mut taken);
            let (i2, s2) = qualify("r", &r.sig, &mut taken);
            items.extend(i2);
            sig.extend(s2);
            let f = From::Join { kind: *kind, l: Box::new(lf.clone()), r: Box::new(rf.clone()), on: cond.clone(), using: vec![], natural: false, comma: false };
            out.push(mk(Query::of(sel(items, f)), sig, &format!("join:{kn}:{cn}")));
        }
    }
    // cross join (comma) and semi join
    {
        let mut taken = BTreeSet::new();
        let (mut items, mut sig) = qualify("l", &l.sig, &mut taken);
        let (i2, s2) = qualify("r", &r.sig, &mut taken);
        items.extend(i2);
        sig.extend(s2);
        let f = From::Join { kind: JoinKind::Cross, l: Box::new(lf.clone()), r: Box::new(rf.clone()), on: None, using: vec![], natural: false, comma: true };
        let mut s = sel(items.clone(), f);
        if full {
            out.push(mk(Query::of(s.clone()), sig.clone(), "join:comma"));
        }
        s.where_ = Some(bin(Op::Eq, lx.clone(), rx.clone()));
        out.push(mk(Query::of(s), sig, "join:comma:whereeq"));
        let mut taken = BTreeSet::new();
        let (items, sig) = qualify("l", &l.sig, &mut taken);
        let f = From::Join { kind: JoinKind::Semi, l: Box::new(lf.clone()), r: Box::new(rf.clone()), on: Some(bin(Op::Eq, lx.clone(), rx.clone())), using: vec![], natural: false, comma: false };
        out.push(mk(Query::of(sel(items, f)), sig, "join:semi:eq"));
    }
    // subquery predicates: outer = l, inner = r
    {
        let inner_alias = "r";
        let rfrom = rf.clone();
        let one = |e: E, wh: Option<E>| -> Query {
            let mut s = sel(vec![Item::Expr(e, None)], rfrom.clone());
            s.where_ = wh;
            Query::of(s)
        };
        let ocol = col(&li[0]);
        let oq = qcol(&base_alias(l, "l"), &li[0]);
        let _ = inner_alias;
        let outer_from = as_from(l, &base_alias(l, "l"));
        // correlated references need the outer alias to differ from the inner alias
        let outer_alias = base_alias(l, "l");
        let corr_ok = outer_alias != "r" && !(r.depth == 0 && base_alias(r, "r") == outer_alias);
        let mut subs: Vec<(&str, E)> = vec![
            ("in", E::InQ(Box::new(ocol.clone()), Box::new(one(rx.clone(), None)), false)),
            ("notin", E::InQ(Box::new(ocol.clone()), Box::new(one(rx.clone(), None)), true)),
        ];
        if corr_ok {
            subs.push(("exists:corr", E::Exists(Box::new(one(E::Int(1), Some(bin(Op::Eq, rx.clone(), oq.clone())))), false)));
            subs.push(("notexists:corr", E::Exists(Box::new(one(E::Int(1), Some(bin(Op::Eq, rx.clone(), oq.clone())))), true)));
        }
        if full {
            subs.push(("eqany", E::Quant(Op::Eq, false, Box::new(ocol.clone()), Box::new(one(ry.clone(), None)))));
            subs.push(("neall", E::Quant(Op::Ne, true, Box::new(ocol.clone()), Box::new(one(ry.clone(), None)))));
            subs.push(("ltany", E::Quant(Op::Lt, false, Box::new(ocol.clone()), Box::new(one(ry.clone(), None)))));
            subs.push(("geall", E::Quant(Op::Ge, true, Box::new(ocol.clone()), Box::new(one(ry.clone(), None)))));
            if corr_ok {
                subs.push(("in:corr", E::InQ(Box::new(ocol.clone()), Box::new(one(ry.clone(), Some(bin(Op::Eq, rx.clone(), oq.clone())))), false)));
            }
        }
        for (n, p) in subs {
            let mut s = sel(all_items(&l.sig), outer_from.clone());
            s.where_ = Some(p);
            out.push(mk(Query::of(s), l.sig.clone(), &format!("subq:{n}")));
        }
        if corr_ok {
            // scalar subqueries in the select list
            let cnt = {
                let mut s = sel(vec![Item::Expr(agg(AggF::CountStar, None), None)], rfrom.clone());
                s.where_ = Some(bin(Op::Eq, rx.clone(), oq.clone()));
                Query::of(s)
            };
            let mx = {
                let mut s = sel(vec![Item::Expr(agg(AggF::Max, Some(ry.clone())), None)], rfrom.clone());
                s.where_ = Some(bin(Op::Eq, rx.clone(), oq.clone()));
                Query::of(s)
            };
            let mut variants = vec![("scalar:max", mx, Ty::Int32)];
            variants.push(("scalar:count", cnt, Ty::Int64));
            for (n, sq, ty) in variants {
                let mut items = all_items(&l.sig);
                items.push(Item::Expr(E::Scalar(Box::new(sq)), Some("sq".into())));
                let mut sig = l.sig.clone();
                sig.push(("sq".into(), ty));
                if sig.iter().filter(|c| c.0 == "sq").count() > 1 {
                    continue;
                }
                out.push(mk(Query::of(sel(items, outer_from.clone())), sig, &format!("subq:{n}")));
            }
            if full {
                // lateral
                let lat = {
                    let mut s = sel(vec![Item::Expr(ry.clone(), Some("lv".into()))], rfrom.clone());
                    s.where_ = Some(bin(Op::Eq, rx.clone(), oq.clone()));
                    Query::of(s)
                };
                if !l.sig.iter().any(|c| c.0 == "lv") {
                    let mut taken = BTreeSet::new();
                    let (mut items, mut sig) = qualify(&outer_alias, &l.sig, &mut taken);
                    items.push(Item::Expr(qcol("lt", "lv"), None));
                    sig.push(("lv".into(), Ty::Int32));
                    let f = From::Join { kind: JoinKind::Cross, l: Box::new(outer_from.clone()), r: Box::new(From::Sub { q: Box::new(lat), alias: "lt".into(), lateral: true }), on: None, using: vec![], natural: false, comma: true };
                    out.push(mk(Query::of(sel(items, f)), sig, "lateral:eq"));
                }
            }
        }
    }
    // unions (same arity & types on the first int column)
    {
        let lq = Query::of(sel(vec![Item::Expr(col(&li[0]), None)], as_from(l, &base_alias(l, "l"))));
        let rq = Query::of(sel(vec![Item::Expr(col(&ri[0]), None)], as_from(r, &base_alias(r, "r"))));
        for all in [true, false] {
            let q = Query { ctes: vec![], body: Body::Union { all, l: Box::new(lq.clone()), r: Box::new(rq.clone()) }, order_by: vec![], limit: None, offset: None };
            out.push(mk(q, vec![(li[0].clone(), Ty::Int32)], if all { "unionall" } else { "union" }));
        }
    }
    out
}

/// CTE forms over a term: referenced 1x, 2x (self join), materialized or not.
pub fn cte_forms(t: &Term) -> Vec<Term> {
    let mut out = Vec::new();
    let ints = int_cols(&t.sig);
    if ints.is_empty() {
        return out;
    }
    let d = t.depth + 1;
    for mat in [false, true] {
        let cte = Cte { name: "c".into(), materialized: mat, q: t.q.clone() };
        // one reference
        let mut q = Query::of(sel(all_items(&t.sig), table("c")));
        q.ctes = vec![cte.clone()];
        out.push(Term { q, sig: t.sig.clone(), shape: format!("cte{}:1ref({})", if mat { "mat" } else { "" }, t.shape), depth: d, barrier: true });
        // two references joined
        let mut taken = BTreeSet::new();
        let (mut items, mut sig) = qualify("c1", &t.sig, &mut taken);
        let (i2, s2) = qualify("c2", &t.sig, &mut taken);
        items.extend(i2);
        sig.extend(s2);
        let f = From::Join { kind: JoinKind::Inner, l: Box::new(table_as("c", "c1")), r: Box::new(table_as("c", "c2")), on: Some(bin(Op::Eq, qcol("c1", &ints[0]), qcol("c2", &ints[0]))), using: vec![], natural: false, comma: false };
        let mut q = Query::of(sel(items, f));
        q.ctes = vec![cte.clone()];
        out.push(Term { q, sig, shape: format!("cte{}:2ref:join({})", if mat { "mat" } else { "" }, t.shape), depth: d, barrier: true });
        // two references in a union all
        let one = Query::of(sel(vec![Item::Expr(col(&ints[0]), None)], table("c")));
        let mut q = Query { ctes: vec![cte], body: Body::Union { all: true, l: Box::new(one.clone()), r: Box::new(one) }, order_by: vec![], limit: None, offset: None };
        q.limit = None;
        out.push(Term { q, sig: vec![(ints[0].clone(), Ty::Int32)], shape: format!("cte{}:2ref:union({})", if mat { "mat" } else { "" }, t.shape), depth: d, barrier: true });
    }
    out
}

/// Top-level decorations: ORDER BY (checked as a sequence), LIMIT/OFFSET.
pub fn top_forms(t: &Term, full: bool) -> Vec<Term> {
    let mut out = vec![t.clone()];
    let n = t.sig.len();
    if t.q.order_by.is_empty() && t.q.limit.is_none() && t.q.offset.is_none() {
        let mk = |q: Query, shape: &str| Term { q, sig: t.sig.clone(), shape: format!("{}<{}>", shape, t.shape), depth: t.depth, barrier: true };
        let mut q = t.q.clone();
        q.order_by = vec![OrderKey { ordinal: 1, desc: false, nulls_first: None, by_name: false }];
        out.push(mk(q, "order:1asc"));
        if full {
            let mut q = t.q.clone();
            q.order_by = (1..=n).rev().map(|i| OrderKey { ordinal: i, desc: i % 2 == 1, nulls_first: if i % 2 == 0 { Some(true) } else { None }, by_name: false }).collect();
            out.push(mk(q, "order:mixed"));
            let mut q = t.q.clone();
            q.order_by = vec![OrderKey { ordinal: 1, desc: true, nulls_first: Some(false), by_name: true }];
            q.limit = Some(2);
            out.push(mk(q, "order:1descnl:l2"));
            let mut q = t.q.clone();
            q.limit = Some(1);
            q.offset = Some(1);
            out.push(mk(q, "limit:l1o1"));
        }
    }
    out
}

/// Enumerate terms up to `depth` stacked operators. Deduplicated by SQL text.
pub fn terms(depth: usize, full: bool) -> Vec<Term> {
    let base = base_terms();
    let mut levels: Vec<Vec<Term>> = vec![base.clone()];
    for d in 1..=depth {
        let mut next: Vec<Term> = Vec::new();
        let prev = &levels[d - 1];
        for t in prev {
            next.extend(unary(t, full));
            next.extend(cte_forms(t));
        }
        // binary: one side from the previous level, the other a base (both orders), plus base x base at d=1
        for t in prev {
            for b in &base {
                next.extend(binary(t, b, full));
                if t.depth > 0 {
                    next.extend(binary(b, t, full));
                }
            }
        }
        // make the signatures exact: names and types as RM derives them
        let empty = DbInst { tables: schema().iter().map(|t| (t.name.to_string(), vec![])).collect() }.to_rm();
        for t in &mut next {
            if let Ok(rel) = eval_query(&empty, &t.q) {
                if rel.cols.iter().all(|c| c.name.is_some()) {
                    t.sig = rel.cols.iter().map(|c| (c.name.clone().unwrap(), c.ty)).collect();
                }
            }
        }
        levels.push(next);
    }
    let mut seen = BTreeSet::new();
    let mut out = Vec::new();
    for lv in levels {
        for t in lv {
            for tt in top_forms(&t, full) {
                let sql = tt.q.sql();
                if seen.insert(sql) {
                    out.push(tt);
                }
            }
        }
    }
    out
}

// ------------------------------------------------------------------ databases

#[derive(Clone, Debug)]
pub struct TableDef {
    pub name: &'static str,
    pub cols: Vec<(&'static str, Ty)>,
}

pub fn schema() -> Vec<TableDef> {
    vec![
        TableDef { name: "t", cols: vec![("a", Ty::Int32), ("b", Ty::Int32), ("c", Ty::Text)] },
        TableDef { name: "u", cols: vec![("a", Ty::Int32), ("d", Ty::Int32)] },
    ]
}

pub fn domain(table: &str, colname: &str) -> Vec<Val> {
    match (table, colname) {
        (_, "a") => vec![Val::Null, Val::Int(1), Val::Int(2)],
        ("t", "b") | ("u", "d") => vec![Val::Null, Val::Int(1), Val::Int(3)],
        ("t", "c") => vec![Val::Null, Val::Str("x".into()), Val::Str("long-string-13b".into())],
        _ => vec![Val::Null],
    }
}

fn filler(table: &str, colname: &str, i: usize) -> Val {
    match (table, colname) {
        ("t", "c") => {
            if i % 2 == 0 { Val::Str("zz".into()) } else { Val::Null }
        }
        _ => {
            if i % 2 == 0 { Val::Int(7) } else { Val::Null }
        }
    }
}

/// Which (table, column) pairs a query mentions (over-approximation by name).
pub fn mentioned(q: &Query) -> BTreeSet<(String, String)> {
    let mut names: BTreeSet<String> = BTreeSet::new();
    let mut tables: BTreeSet<String> = BTreeSet::new();
    let mut star = false;
    walk_query(q, &mut names, &mut tables, &mut star);
    let mut out = BTreeSet::new();
    for td in schema() {
        if !tables.contains(td.name) {
            continue;
        }
        for (c, _) in &td.cols {
            if star || names.contains(*c) {
                out.insert((td.name.to_string(), c.to_string()));
            }
        }
    }
    out
}

fn walk_query(q: &Query, names: &mut BTreeSet<String>, tables: &mut BTreeSet<String>, star: &mut bool) {
    for c in &q.ctes {
        walk_query(&c.q, names, tables, star);
    }
    match &q.body {
        Body::Select(s) => {
            for it in &s.items {
                match it {
                    Item::Star => *star = true,
                    Item::Expr(e, _) => walk_expr(e, names, tables, star),
                }
            }
            if let Some(f) = &s.from {
                walk_from(f, names, tables, star);
            }
            if let Some(w) = &s.where_ {
                walk_expr(w, names, tables, star);
            }
            if let Some(h) = &s.having {
                walk_expr(h, names, tables, star);
            }
            match &s.group_by {
                GroupBy::None => {}
                GroupBy::Plain(v) | GroupBy::Rollup(v) | GroupBy::Cube(v) => {
                    for e in v {
                        walk_expr(e, names, tables, star);
                    }
                }
            }
        }
        Body::Union { l, r, .. } => {
            walk_query(l, names, tables, star);
            walk_query(r, names, tables, star);
        }
    }
}

fn walk_from(f: &From, names: &mut BTreeSet<String>, tables: &mut BTreeSet<String>, star: &mut bool) {
    match f {
        From::Table { name, .. } => {
            tables.insert(name.clone());
        }
        From::Values { rows, .. } => {
            for r in rows {
                for e in r {
                    walk_expr(e, names, tables, star);
                }
            }
        }
        From::Sub { q, .. } => walk_query(q, names, tables, star),
        From::Join { l, r, on, using, natural, .. } => {
            walk_from(l, names, tables, star);
            walk_from(r, names, tables, star);
            if let Some(e) = on {
                walk_expr(e, names, tables, star);
            }
            for u in using {
                names.insert(u.clone());
            }
            if *natural {
                *star = true;
            }
        }
    }
}

fn walk_expr(e: &E, names: &mut BTreeSet<String>, tables: &mut BTreeSet<String>, star: &mut bool) {
    match e {
        E::Col(_, n) => {
            names.insert(n.clone());
        }
        E::Int(_) | E::Str(_) | E::Bool(_) | E::Null => {}
        E::Bin(_, l, r) => {
            walk_expr(l, names, tables, star);
            walk_expr(r, names, tables, star);
        }
        E::Not(x) | E::Neg(x) | E::IsNull(x, _) | E::Grouping(x) | E::CastAs(x, _) => walk_expr(x, names, tables, star),
        E::Case(arms, els) => {
            for (c, v) in arms {
                walk_expr(c, names, tables, star);
                walk_expr(v, names, tables, star);
            }
            if let Some(x) = els {
                walk_expr(x, names, tables, star);
            }
        }
        E::Coalesce(v) => v.iter().for_each(|x| walk_expr(x, names, tables, star)),
        E::Between(a, b, c, _) => {
            walk_expr(a, names, tables, star);
            walk_expr(b, names, tables, star);
            walk_expr(c, names, tables, star);
        }
        E::InList(x, l, _) => {
            walk_expr(x, names, tables, star);
            l.iter().for_each(|y| walk_expr(y, names, tables, star));
        }
        E::Agg { arg, filter, .. } => {
            if let Some(a) = arg {
                walk_expr(a, names, tables, star);
            }
            if let Some(f) = filter {
                walk_expr(f, names, tables, star);
            }
        }
        E::Scalar(q) | E::Exists(q, _) => walk_query(q, names, tables, star),
        E::InQ(x, q, _) | E::Quant(_, _, x, q) => {
            walk_expr(x, names, tables, star);
            walk_query(q, names, tables, star);
        }
    }
}

/// All bags (multisets) of size 0..=r over `vals`, as sorted index vectors.
pub fn bags(nvals: usize, r: usize) -> Vec<Vec<usize>> {
    let mut out = vec![vec![]];
    let mut cur: Vec<Vec<usize>> = vec![vec![]];
    for _ in 0..r {
        let mut next = Vec::new();
        for b in &cur {
            let start = b.last().copied().unwrap_or(0);
            for v in start..nvals {
                let mut nb = b.clone();
                nb.push(v);
                next.push(nb);
            }
        }
        out.extend(next.iter().cloned());
        cur = next;
    }
    out
}

#[derive(Clone, Debug)]
pub struct DbInst {
    /// per schema table: rows (all columns)
    pub tables: Vec<(String, Vec<Row>)>,
}

impl DbInst {
    pub fn to_rm(&self) -> Db {
        let mut db = Db::default();
        for td in schema() {
            let rows = self.tables.iter().find(|t| t.0 == td.name).map(|t| t.1.clone()).unwrap_or_default();
            db.add_table(td.name, &td.cols, rows);
        }
        db
    }
    pub fn describe(&self) -> String {
        self.tables.iter().map(|(n, rows)| format!("{}={}", n, crate::val::fmt_rows(rows, 8))).collect::<Vec<_>>().join(" ")
    }
    pub fn setup_sql(&self) -> Vec<String> {
        let mut out = Vec::new();
        for td in schema() {
            let rows = self.tables.iter().find(|t| t.0 == td.name).map(|t| t.1.clone()).unwrap_or_default();
            out.push(format!("DROP TABLE IF EXISTS {}", td.name));
            let cols: Vec<String> = td.cols.iter().map(|(c, ty)| format!("{} {}", c, if *ty == Ty::Text { "TEXT" } else { "INT" })).collect();
            out.push(format!("CREATE TEMP TABLE {} ({})", td.name, cols.join(", ")));
            if !rows.is_empty() {
                let vs: Vec<String> = rows.iter().map(|r| format!("({})", r.iter().map(val_sql).collect::<Vec<_>>().join(", "))).collect();
                out.push(format!("INSERT INTO {} VALUES {}", td.name, vs.join(", ")));
            }
        }
        out
    }
}

pub fn val_sql(v: &Val) -> String {
    match v {
        Val::Null => "NULL".into(),
        Val::Int(i) => format!("{i}"),
        Val::Str(s) => format!("'{}'", s.replace('\'', "''")),
        Val::Bool(b) => format!("{b}"),
        o => format!("{o}"),
    }
}

/// Scope chosen for a term: bag size bound r and the enumerated databases.
pub struct Scope {
    pub r: usize,
    pub dbs: Vec<DbInst>,
    pub reduced: bool,
}

/// All databases with <= r rows per mentioned table over the mentioned columns'
/// domains (unmentioned columns get filler values). If the count exceeds
/// `budget`, r is lowered (and reported).
pub fn scope_for(q: &Query, r_max: usize, budget: usize) -> Scope {
    let m = mentioned(q);
    let sch = schema();
    let mut r = r_max;
    loop {
        let mut per_table: Vec<(String, Vec<Vec<Row>>)> = Vec::new();
        let mut total: usize = 1;
        for td in &sch {
            let cols: Vec<&str> = td.cols.iter().map(|c| c.0).filter(|c| m.contains(&(td.name.to_string(), c.to_string()))).collect();
            let table_used = m.iter().any(|x| x.0 == td.name);
            if !table_used {
                per_table.push((td.name.to_string(), vec![vec![]]));
                continue;
            }
            // row values = product of domains of mentioned columns
            let mut rowvals: Vec<Vec<(usize, Val)>> = vec![vec![]];
            for (ci, (c, _)) in td.cols.iter().enumerate() {
                if cols.contains(c) {
                    let dom = domain(td.name, c);
                    let mut nv = Vec::new();
                    for rv in &rowvals {
                        for d in &dom {
                            let mut x = rv.clone();
                            x.push((ci, d.clone()));
                            nv.push(x);
                        }
                    }
                    rowvals = nv;
                }
            }
            let bs = bags(rowvals.len(), r);
            let mut insts = Vec::new();
            for b in bs {
                let rows: Vec<Row> = b
                    .iter()
                    .enumerate()
                    .map(|(ri, &vi)| {
                        let mut row: Row = td.cols.iter().map(|(c, _)| filler(td.name, c, ri)).collect();
                        for (ci, v) in &rowvals[vi] {
                            row[*ci] = v.clone();
                        }
                        row
                    })
                    .collect();
                insts.push(rows);
            }
            total = total.saturating_mul(insts.len());
            per_table.push((td.name.to_string(), insts));
        }
        if total > budget && r > 1 {
            r -= 1;
            continue;
        }
        // product
        let mut dbs: Vec<DbInst> = vec![DbInst { tables: vec![] }];
        for (name, insts) in &per_table {
            let mut next = Vec::new();
            for d in &dbs {
                for rows in insts {
                    let mut nd = d.clone();
                    nd.tables.push((name.clone(), rows.clone()));
                    next.push(nd);
                }
            }
            dbs = next;
        }
        // if still over budget at r=1, keep every k-th (reported as reduced)
        let reduced = dbs.len() > budget;
        if reduced {
            let step = dbs.len().div_ceil(budget);
            dbs = dbs.into_iter().step_by(step).collect();
        }
        return Scope { r, dbs, reduced: reduced || r < r_max };
    }
}

/// Replace base tables by inline VALUES lists (a second rendering of every source).
pub fn inline_values(q: &Query, db: &DbInst) -> Query {
    let mut q = q.clone();
    map_query(&mut q, db);
    q
}

fn values_for(name: &str, alias: &Option<String>, db: &DbInst) -> Option<From> {
    let td = schema().into_iter().find(|t| t.name == name)?;
    let rows = db.tables.iter().find(|t| t.0 == name)?.1.clone();
    let lit = |v: &Val| match v {
        Val::Null => E::Null,
        Val::Int(i) => E::Int(*i as i64),
        Val::Str(s) => E::Str(s.clone()),
        Val::Bool(b) => E::Bool(*b),
        _ => E::Null,
    };
    let alias = alias.clone().unwrap_or_else(|| name.to_string());
    let cols: Vec<String> = td.cols.iter().map(|c| c.0.to_string()).collect();
    let typed_row = |r: &Row| -> Vec<E> { r.iter().zip(&td.cols).map(|(v, (_, ty))| if *ty == Ty::Text && !v.is_null() { lit(v) } else { E::CastAs(Box::new(lit(v)), *ty) }).collect() };
    if rows.is_empty() {
        // VALUES cannot be empty: one typed NULL row filtered away
        let nullrow: Row = td.cols.iter().map(|_| Val::Null).collect();
        let inner = From::Values { rows: vec![typed_row(&nullrow)], alias: "v0".into(), cols: cols.clone() };
        let mut s = Select::star(inner);
        s.items = cols.iter().map(|c| Item::Expr(col(c), None)).collect();
        s.where_ = Some(E::Bool(false));
        return Some(From::Sub { q: Box::new(Query::of(s)), alias, lateral: false });
    }
    let mut vrows: Vec<Vec<E>> = Vec::new();
    for (i, r) in rows.iter().enumerate() {
        if i == 0 { vrows.push(typed_row(r)) } else { vrows.push(r.iter().map(lit).collect()) }
    }
    Some(From::Values { rows: vrows, alias, cols })
}

fn map_query(q: &mut Query, db: &DbInst) {
    for c in &mut q.ctes {
        map_query(&mut c.q, db);
    }
    match &mut q.body {
        Body::Select(s) => {
            if let Some(f) = &mut s.from {
                map_from(f, db);
            }
            for it in &mut s.items {
                if let Item::Expr(e, _) = it {
                    map_expr(e, db);
                }
            }
            if let Some(w) = &mut s.where_ {
                map_expr(w, db);
            }
            if let Some(h) = &mut s.having {
                map_expr(h, db);
            }
        }
        Body::Union { l, r, .. } => {
            map_query(l, db);
            map_query(r, db);
        }
    }
}

fn map_from(f: &mut From, db: &DbInst) {
    match f {
        From::Table { name, alias } => {
            if let Some(v) = values_for(name, alias, db) {
                *f = v;
            }
        }
        From::Values { .. } => {}
        From::Sub { q, .. } => map_query(q, db),
        From::Join { l, r, on, .. } => {
            map_from(l, db);
            map_from(r, db);
            if let Some(e) = on {
                map_expr(e, db);
            }
        }
    }
}

fn map_expr(e: &mut E, db: &DbInst) {
    match e {
        E::Bin(_, l, r) => {
            map_expr(l, db);
            map_expr(r, db);
        }
        E::Not(x) | E::Neg(x) | E::IsNull(x, _) | E::Grouping(x) | E::CastAs(x, _) => map_expr(x, db),
        E::Case(arms, els) => {
            for (c, v) in arms {
                map_expr(c, db);
                map_expr(v, db);
            }
            if let Some(x) = els {
                map_expr(x, db);
            }
        }
        E::Coalesce(v) => v.iter_mut().for_each(|x| map_expr(x, db)),
        E::Between(a, b, c, _) => {
            map_expr(a, db);
            map_expr(b, db);
            map_expr(c, db);
        }
        E::InList(x, l, _) => {
            map_expr(x, db);
            l.iter_mut().for_each(|y| map_expr(y, db));
        }
        E::Agg { arg, filter, .. } => {
            if let Some(a) = arg {
                map_expr(a, db);
            }
            if let Some(f) = filter {
                map_expr(f, db);
            }
        }
        E::Scalar(q) | E::Exists(q, _) => map_query(q, db),
        E::InQ(x, q, _) | E::Quant(_, _, x, q) => {
            map_expr(x, db);
            map_query(q, db);
        }
        _ => {}
    }
}
