pub mod checks;
pub mod drv;
pub mod alg;
pub mod infra;
pub mod rm;
pub mod sched;
pub mod val;
pub mod vfs;
