//! Process-level isolation for statements that hang inside a single poll or
//! abort the process (stack overflow, allocation failure).
//!
//! The check runs in a child process. Every statement is written to a per-thread
//! slot of a shared memory file before it executes. A watchdog thread in the
//! child exits the process (code 3) when a statement exceeds the wall limit,
//! after recording it in the skip file. When the child dies from a signal the
//! supervisor reads the in-flight slots to attribute the death. The supervisor
//! re-runs the child; recorded statements are not executed again but yield
//! `Outcome::Hang` / `Outcome::Abort`, which the checks' oracles judge.
use std::collections::HashMap;
use std::fs::OpenOptions;
use std::io::Write;
use std::sync::atomic::{AtomicUsize, Ordering};
use std::sync::{Mutex, OnceLock};
use std::time::{SystemTime, UNIX_EPOCH};

const SLOT: usize = 8192;
const NSLOTS: usize = 64;

struct Shared {
    base: *mut u8,
}
unsafe impl Send for Shared {}
unsafe impl Sync for Shared {}

static SHARED: OnceLock<Option<Shared>> = OnceLock::new();
static NEXT_SLOT: AtomicUsize = AtomicUsize::new(0);
static SKIP: OnceLock<Mutex<HashMap<u64, String>>> = OnceLock::new();
static WALL_LIMIT_MS: AtomicUsize = AtomicUsize::new(10_000);
/// per slot: the CPU clock of the thread that owns it and the CPU time (ms) it had at `enter`
/// (clock ids of thread CPU clocks are negative numbers: "unset" is i64::MIN, not -1)
static CPU_CLOCK: [std::sync::atomic::AtomicI64; NSLOTS] = [const { std::sync::atomic::AtomicI64::new(i64::MIN) }; NSLOTS];
static CPU_AT_ENTER: [std::sync::atomic::AtomicU64; NSLOTS] = [const { std::sync::atomic::AtomicU64::new(0) }; NSLOTS];

fn cpu_ms(clock: libc::clockid_t) -> Option<u64> {
    let mut ts = libc::timespec { tv_sec: 0, tv_nsec: 0 };
    if unsafe { libc::clock_gettime(clock, &mut ts) } == 0 { Some(ts.tv_sec as u64 * 1000 + ts.tv_nsec as u64 / 1_000_000) } else { None }
}

thread_local! {
    static MY_SLOT: usize = NEXT_SLOT.fetch_add(1, Ordering::SeqCst) % NSLOTS;
    static TAG: std::cell::RefCell<String> = const { std::cell::RefCell::new(String::new()) };
}

static BLOWN: OnceLock<Mutex<std::collections::HashSet<String>>> = OnceLock::new();

/// Tag the statements this thread runs next (a fault group). When a tagged statement hangs or kills
/// the process the tag is recorded, and `tag_blown` reports it in later attempts.
pub fn set_tag(t: &str) {
    TAG.with(|x| *x.borrow_mut() = t.chars().take(60).collect());
}

pub fn tag_blown(t: &str) -> bool {
    let _ = skip_map();
    BLOWN.get().map(|b| b.lock().unwrap().contains(&t.chars().take(60).collect::<String>())).unwrap_or(false)
}

fn now_ms() -> u64 {
    SystemTime::now().duration_since(UNIX_EPOCH).map(|d| d.as_millis() as u64).unwrap_or(0)
}

fn map_file(path: &str, create: bool) -> Option<*mut u8> {
    use std::os::fd::AsRawFd;
    let f = OpenOptions::new().read(true).write(true).create(create).truncate(false).open(path).ok()?;
    if create {
        f.set_len((SLOT * NSLOTS) as u64).ok()?;
    }
    let p = unsafe { libc::mmap(std::ptr::null_mut(), SLOT * NSLOTS, libc::PROT_READ | libc::PROT_WRITE, libc::MAP_SHARED, f.as_raw_fd(), 0) };
    if p == libc::MAP_FAILED { None } else { Some(p as *mut u8) }
}

pub fn set_wall_limit_ms(ms: usize) {
    WALL_LIMIT_MS.store(ms, Ordering::SeqCst);
}

fn fnv(s: &str) -> u64 {
    let mut h: u64 = 0xcbf29ce484222325;
    for b in s.bytes() {
        h ^= b as u64;
        h = h.wrapping_mul(0x100000001b3);
    }
    h ^ ((s.len() as u64) << 40)
}

fn skip_map() -> &'static Mutex<HashMap<u64, String>> {
    SKIP.get_or_init(|| {
        let mut m = HashMap::new();
        let mut blown = std::collections::HashSet::new();
        if let Ok(p) = std::env::var("VERIF_SKIP_FILE") {
            if let Ok(s) = std::fs::read_to_string(p) {
                for line in s.lines() {
                    if let Ok(v) = serde_json::from_str::<serde_json::Value>(line) {
                        if let (Some(h), Some(kind)) = (v["hash"].as_str().and_then(|h| h.parse::<u64>().ok()), v["kind"].as_str()) {
                            m.insert(h, kind.to_string());
                        }
                        if let Some(t) = v["tag"].as_str() {
                            if !t.is_empty() {
                                blown.insert(t.to_string());
                            }
                        }
                    }
                }
            }
        }
        let _ = BLOWN.set(Mutex::new(blown));
        Mutex::new(m)
    })
}

/// If this statement was recorded as hanging/aborting in an earlier attempt,
/// returns the kind ("hang" | "abort").
pub fn skipped(sql: &str, ctx: u64) -> Option<String> {
    let m = skip_map().lock().unwrap();
    if m.is_empty() {
        return None;
    }
    m.get(&(fnv(sql) ^ ctx.wrapping_mul(0x9E3779B97F4A7C15))).cloned()
}

fn shared() -> Option<&'static Shared> {
    SHARED
        .get_or_init(|| {
            let p = std::env::var("VERIF_INFLIGHT").ok()?;
            let base = map_file(&p, false)?;
            let b = base as usize;
            std::thread::spawn(move || watchdog(b));
            Some(Shared { base })
        })
        .as_ref()
}

pub fn enter(sql: &str, ctx: u64) {
    if let Some(sh) = shared() {
        MY_SLOT.with(|&s| unsafe {
            let p = sh.base.add(s * SLOT);
            let bytes = sql.as_bytes();
            let n = bytes.len().min(SLOT - 96);
            std::ptr::copy_nonoverlapping(bytes.as_ptr(), p.add(96), n);
            TAG.with(|t| {
                let t = t.borrow();
                let tb = t.as_bytes();
                let k = tb.len().min(63);
                std::ptr::write_bytes(p.add(24), 0, 64);
                std::ptr::copy_nonoverlapping(tb.as_ptr(), p.add(24), k);
            });
            std::ptr::write_volatile(p.add(8) as *mut u32, n as u32);
            std::ptr::write_volatile(p.add(12) as *mut u32, if bytes.len() > n { 1 } else { 0 });
            std::ptr::write_volatile(p.add(16) as *mut u64, fnv(sql) ^ ctx.wrapping_mul(0x9E3779B97F4A7C15));
            let mut clk: libc::clockid_t = 0;
            if libc::pthread_getcpuclockid(libc::pthread_self(), &mut clk) == 0 {
                CPU_AT_ENTER[s].store(cpu_ms(clk).unwrap_or(0), Ordering::SeqCst);
                CPU_CLOCK[s].store(clk as i64, Ordering::SeqCst);
            } else {
                CPU_CLOCK[s].store(i64::MIN, Ordering::SeqCst);
            }
            std::ptr::write_volatile(p as *mut u64, now_ms());
        });
    }
}

pub fn leave() {
    if let Some(sh) = shared() {
        MY_SLOT.with(|&s| unsafe {
            std::ptr::write_volatile(sh.base.add(s * SLOT) as *mut u64, 0);
        });
    }
}

fn read_slots(base: *mut u8) -> Vec<(u64, String, u64, String)> {
    read_slots_idx(base).into_iter().map(|x| x.1).collect()
}

fn read_slots_idx(base: *mut u8) -> Vec<(usize, (u64, String, u64, String))> {
    let mut out = Vec::new();
    for s in 0..NSLOTS {
        unsafe {
            let p = base.add(s * SLOT);
            let t = std::ptr::read_volatile(p as *const u64);
            if t == 0 {
                continue;
            }
            let n = (std::ptr::read_volatile(p.add(8) as *const u32) as usize).min(SLOT - 96);
            let hash = std::ptr::read_volatile(p.add(16) as *const u64);
            let bytes = std::slice::from_raw_parts(p.add(96), n);
            let tagb = std::slice::from_raw_parts(p.add(24), 64);
            let tag = String::from_utf8_lossy(&tagb[..tagb.iter().position(|x| *x == 0).unwrap_or(64)]).to_string();
            out.push((s, (t, String::from_utf8_lossy(bytes).to_string(), hash, tag)));
        }
    }
    out
}

fn record_skip(sql: &str, hash: u64, kind: &str, tag: &str) {
    if let Ok(p) = std::env::var("VERIF_SKIP_FILE") {
        record_skip_to(std::path::Path::new(&p), sql, hash, kind, tag);
    }
}

fn watchdog(sh: usize) {
    loop {
        std::thread::sleep(std::time::Duration::from_millis(200));
        let limit = WALL_LIMIT_MS.load(Ordering::SeqCst) as u64;
        let now = now_ms();
        for (slot, (t, sql, hash, tag)) in read_slots_idx(sh as *mut u8) {
            let wall = now.saturating_sub(t);
            if wall <= limit {
                continue;
            }
            // A hang inside a poll burns CPU on the owning thread: the limit is applied to the CPU time of that
            // thread, which does not depend on the load of the machine. A thread that is merely starved
            // (machine under load, page-fault stalls) has used little CPU since `enter`; a thread blocked for
            // good (deadlock) uses none: those are given 40x the limit in wall time before the statement is
            // declared hung.
            let clk = CPU_CLOCK[slot].load(Ordering::SeqCst);
            let burned = if clk != i64::MIN { cpu_ms(clk as libc::clockid_t).map(|c| c.saturating_sub(CPU_AT_ENTER[slot].load(Ordering::SeqCst))) } else { None };
            // no readable CPU clock: only the (generous) wall rule applies
            let busy = burned.map(|b| b > limit).unwrap_or(false);
            if busy || wall > limit * 40 {
                record_skip(&sql, hash, "hang", &tag);
                eprintln!("verif-guard: statement exceeded the {limit} ms wall limit, restarting without it: {}", crate::infra::one_line(&sql, 200));
                std::process::exit(3);
            }
        }
    }
}

/// Supervisor: re-exec this binary as a guarded child until it finishes.
/// Returns the child's exit code.
pub fn supervise(args: &[String]) -> i32 {
    let exe = std::env::current_exe().expect("current_exe");
    let dir = crate::infra::verif_root().join("target").join("guard");
    let _ = std::fs::create_dir_all(&dir);
    let pid = std::process::id();
    // the in-flight table lives on tmpfs when there is one: stores to a disk-backed shared mapping can
    // stall for seconds behind unrelated write-back, which would look like a hang
    let shm = std::path::Path::new("/dev/shm");
    let inflight = if shm.is_dir() { shm.join(format!("verif-guard-inflight.{pid}")) } else { dir.join(format!("inflight.{pid}")) };
    let skip = dir.join(format!("skip.{pid}.jsonl"));
    let _ = std::fs::remove_file(&inflight);
    let _ = std::fs::remove_file(&skip);
    let base = match map_file(inflight.to_str().unwrap(), true) {
        Some(b) => b,
        None => {
            eprintln!("verif-guard: cannot map {inflight:?}");
            return 2;
        }
    };
    let mut attempts = 0;
    let mut force_single = false;
    let code = loop {
        attempts += 1;
        if attempts > 200 {
            eprintln!("verif-guard: too many restarts");
            break 2;
        }
        unsafe { std::ptr::write_bytes(base, 0, SLOT * NSLOTS) };
        let mut cmd = std::process::Command::new(&exe);
        cmd.args(args).env("VERIF_CHILD", "1").env("VERIF_INFLIGHT", &inflight).env("VERIF_SKIP_FILE", &skip);
        if force_single {
            cmd.env("VERIF_THREADS", "1");
        }
        let status = match cmd.status() {
            Ok(s) => s,
            Err(e) => {
                eprintln!("verif-guard: cannot spawn child: {e}");
                break 2;
            }
        };
        match status.code() {
            Some(3) => continue, // a hang was recorded by the child's watchdog
            Some(c) => break c,
            None => {
                // killed by a signal: attribute to the statement(s) in flight
                let slots = read_slots(base);
                if slots.len() == 1 {
                    record_skip_to(&skip, &slots[0].1, slots[0].2, "abort", &slots[0].3);
                    // kept after the run (the memory-monitor check pairs these with sanitizer reports)
                    record_skip_to(&dir.join("aborts.jsonl"), &slots[0].1, slots[0].2, &format!("abort:{status}"), &slots[0].3);
                    eprintln!("verif-guard: child died ({status}); in-flight statement recorded as abort: {}", crate::infra::one_line(&slots[0].1, 200));
                    force_single = false;
                    continue;
                }
                if force_single || slots.is_empty() {
                    eprintln!("verif-guard: child died ({status}) and the death cannot be attributed ({} statements in flight)", slots.len());
                    break 2;
                }
                eprintln!("verif-guard: child died ({status}) with {} statements in flight; re-running single-threaded to attribute", slots.len());
                force_single = true;
                continue;
            }
        }
    };
    let _ = std::fs::remove_file(&inflight);
    let _ = std::fs::remove_file(&skip);
    code
}

fn record_skip_to(path: &std::path::Path, sql: &str, hash: u64, kind: &str, tag: &str) {
    if let Ok(mut f) = OpenOptions::new().create(true).append(true).open(path) {
        let _ = writeln!(f, "{}", serde_json::json!({"hash": hash.to_string(), "sql": crate::infra::one_line(sql, 300), "kind": kind, "tag": tag}));
    }
}
