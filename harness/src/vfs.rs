//! VerifFs: the environment seam. An in-memory file tree whose `poll_read`
//! answers are scripted by the harness (full / short / pending / error).
use std::collections::BTreeMap;
use std::io::SeekFrom;
use std::sync::Arc;
use std::task::{Context, Poll, Waker};

use glaredb_core::runtime::filesystem::directory::{DirEntry, ReadDirHandle};
use glaredb_core::runtime::filesystem::glob::{GlobSegments, is_glob};
use glaredb_core::runtime::filesystem::{
    FileHandle, FileOpenContext, FileStat, FileSystem, FileType, OpenFlags,
};
use glaredb_error::{DbError, Result};
use parking_lot::Mutex;

#[derive(Clone, Copy, Debug, PartialEq, Eq)]
pub enum Answer {
    /// Serve as many bytes as requested/available.
    Full,
    /// Serve at most k bytes (k>=1).
    Short(usize),
    /// Return Pending once (waker is woken at the next scheduler step), then Full.
    Pending,
    /// Return an I/O error.
    Err,
}

#[derive(Debug, Default)]
pub struct FsState {
    pub files: BTreeMap<String, Arc<Vec<u8>>>,
    /// Answer for the k-th poll_read call (global counter). Missing => Full.
    pub script: BTreeMap<usize, Answer>,
    /// If set, every read serves at most this many bytes (after script).
    pub max_chunk: Option<usize>,
    pub reads: usize,
    pub opens: usize,
    pub pending_wakers: Vec<Waker>,
    /// log of (path, offset, requested, served) for each read
    pub log: Vec<(usize, usize, usize)>,
    pub log_on: bool,
    /// content hash per file (identifies the environment of a statement for the guard)
    pub hashes: BTreeMap<String, u64>,
}

fn fnv_bytes(b: &[u8]) -> u64 {
    let mut h: u64 = 0xcbf29ce484222325;
    for x in b {
        h ^= *x as u64;
        h = h.wrapping_mul(0x100000001b3);
    }
    h ^ ((b.len() as u64) << 32)
}

#[derive(Debug, Clone, Default)]
pub struct VerifFs {
    pub st: Arc<Mutex<FsState>>,
}

fn norm(path: &str) -> String {
    let mut p = path;
    loop {
        if let Some(r) = p.strip_prefix("./") {
            p = r;
        } else if let Some(r) = p.strip_prefix('/') {
            p = r;
        } else {
            break;
        }
    }
    let p = p.trim_end_matches('/');
    if p == "." { String::new() } else { p.to_string() }
}

impl VerifFs {
    pub fn new() -> Self {
        Self::default()
    }
    pub fn put(&self, path: &str, data: Vec<u8>) {
        let h = fnv_bytes(&data);
        let mut st = self.st.lock();
        st.hashes.insert(norm(path), h);
        st.files.insert(norm(path), Arc::new(data));
    }
    pub fn remove(&self, path: &str) {
        let mut st = self.st.lock();
        st.files.remove(&norm(path));
        st.hashes.remove(&norm(path));
    }
    pub fn clear_files(&self) {
        let mut st = self.st.lock();
        st.files.clear();
        st.hashes.clear();
    }
    /// Hash of the environment a statement runs in: file contents and the answer script.
    pub fn state_hash(&self) -> u64 {
        let st = self.st.lock();
        if st.files.is_empty() && st.script.is_empty() {
            return 0;
        }
        let mut h: u64 = 17;
        for (p, x) in &st.hashes {
            h = h.wrapping_mul(31).wrapping_add(fnv_bytes(p.as_bytes())).wrapping_mul(31).wrapping_add(*x);
        }
        for (i, a) in &st.script {
            let code: u64 = match a {
                Answer::Full => 1,
                Answer::Short(k) => 2 + (*k as u64) * 8,
                Answer::Pending => 3,
                Answer::Err => 4,
            };
            h = h.wrapping_mul(31).wrapping_add(*i as u64 * 1000 + code);
        }
        h.wrapping_add(st.max_chunk.unwrap_or(0) as u64)
    }
    pub fn set_script(&self, script: BTreeMap<usize, Answer>) {
        let mut st = self.st.lock();
        st.script = script;
        st.reads = 0;
    }
    pub fn reset_counters(&self) {
        let mut st = self.st.lock();
        st.reads = 0;
        st.opens = 0;
        st.log.clear();
    }
    pub fn reads(&self) -> usize {
        self.st.lock().reads
    }
    pub fn set_max_chunk(&self, c: Option<usize>) {
        self.st.lock().max_chunk = c;
    }
    /// Wake everything parked on a Pending answer. Returns how many were woken.
    pub fn flush_pending(&self) -> usize {
        let ws: Vec<Waker> = std::mem::take(&mut self.st.lock().pending_wakers);
        let n = ws.len();
        for w in ws {
            w.wake();
        }
        n
    }
    pub fn has_pending(&self) -> bool {
        !self.st.lock().pending_wakers.is_empty()
    }
}

#[derive(Debug)]
pub struct VHandle {
    path: String,
    data: Arc<Vec<u8>>,
    pos: usize,
    st: Arc<Mutex<FsState>>,
}

impl FileHandle for VHandle {
    fn path(&self) -> &str {
        &self.path
    }
    fn size(&self) -> u64 {
        self.data.len() as u64
    }
    fn poll_read(&mut self, cx: &mut Context, buf: &mut [u8]) -> Poll<Result<usize>> {
        let mut st = self.st.lock();
        let k = st.reads;
        let ans = st.script.get(&k).copied().unwrap_or(Answer::Full);
        if ans == Answer::Pending {
            // consume: the retry is a new call with the default answer
            st.reads += 1;
            st.pending_wakers.push(cx.waker().clone());
            return Poll::Pending;
        }
        st.reads += 1;
        if ans == Answer::Err {
            return Poll::Ready(Err(DbError::new("verif: injected I/O error")));
        }
        let rem = self.data.len().saturating_sub(self.pos);
        let mut count = usize::min(buf.len(), rem);
        if let Answer::Short(n) = ans {
            count = count.min(n.max(1));
        }
        if let Some(m) = st.max_chunk {
            count = count.min(m.max(1));
        }
        if st.log_on {
            let p = self.pos;
            st.log.push((p, buf.len(), count));
        }
        drop(st);
        if count == 0 {
            // at or beyond the end of the file (a seek past the end is allowed, reads return 0)
            return Poll::Ready(Ok(0));
        }
        buf[..count].copy_from_slice(&self.data[self.pos..self.pos + count]);
        self.pos += count;
        Poll::Ready(Ok(count))
    }
    fn poll_write(&mut self, _cx: &mut Context, _buf: &[u8]) -> Poll<Result<usize>> {
        Poll::Ready(Err(DbError::new("verif fs: write unsupported")))
    }
    fn poll_seek(&mut self, _cx: &mut Context, seek: SeekFrom) -> Poll<Result<()>> {
        let len = self.data.len() as i128;
        let np: i128 = match seek {
            SeekFrom::Start(o) => o as i128,
            SeekFrom::End(o) => len + o as i128,
            SeekFrom::Current(o) => self.pos as i128 + o as i128,
        };
        if np < 0 {
            return Poll::Ready(Err(DbError::new("verif fs: seek before start")));
        }
        // like a real file: seeking past the end is allowed, reads return 0
        self.pos = np.min(i128::from(u32::MAX)) as usize;
        Poll::Ready(Ok(()))
    }
    fn poll_flush(&mut self, _cx: &mut Context) -> Poll<Result<()>> {
        Poll::Ready(Err(DbError::new("verif fs: flush unsupported")))
    }
}

#[derive(Debug)]
pub struct VDir {
    /// normalized dir ("" = root)
    dir: String,
    /// how the directory was spelled by the caller (prefix for entries)
    shown: String,
    exhausted: bool,
    st: Arc<Mutex<FsState>>,
}

impl ReadDirHandle for VDir {
    fn poll_list(&mut self, _cx: &mut Context, ents: &mut Vec<DirEntry>) -> Poll<Result<usize>> {
        if self.exhausted {
            return Poll::Ready(Ok(0));
        }
        self.exhausted = true;
        let st = self.st.lock();
        let prefix = if self.dir.is_empty() { String::new() } else { format!("{}/", self.dir) };
        let mut seen: BTreeMap<String, bool> = BTreeMap::new();
        let mut any = self.dir.is_empty();
        for k in st.files.keys() {
            if let Some(rest) = k.strip_prefix(&prefix) {
                any = true;
                match rest.split_once('/') {
                    Some((d, _)) => {
                        seen.insert(d.to_string(), true);
                    }
                    None => {
                        seen.entry(rest.to_string()).or_insert(false);
                    }
                }
            }
        }
        if !any {
            return Poll::Ready(Err(DbError::new(format!(
                "Failed to read directory: {}",
                self.shown
            ))));
        }
        let n = seen.len();
        for (name, is_dir) in seen {
            let p = format!("{}/{}", self.shown, name);
            ents.push(if is_dir { DirEntry::new_dir(p) } else { DirEntry::new_file(p) });
        }
        Poll::Ready(Ok(n))
    }
    fn change_dir(&mut self, relative: impl Into<String>) -> Result<Self> {
        let rel: String = relative.into();
        let dir = if self.dir.is_empty() { rel.clone() } else { format!("{}/{}", self.dir, rel) };
        Ok(VDir {
            dir,
            shown: format!("{}/{}", self.shown, rel),
            exhausted: false,
            st: self.st.clone(),
        })
    }
}

impl FileSystem for VerifFs {
    const NAME: &str = "Verif";
    type FileHandle = VHandle;
    type ReadDirHandle = VDir;
    type State = ();

    async fn load_state(&self, _context: FileOpenContext<'_>) -> Result<()> {
        Ok(())
    }

    async fn open(&self, flags: OpenFlags, path: &str, _state: &()) -> Result<VHandle> {
        if flags.is_write() || flags.is_create() {
            return Err(DbError::new("verif fs: read only"));
        }
        let mut st = self.st.lock();
        st.opens += 1;
        let key = norm(path);
        match st.files.get(&key) {
            Some(d) => Ok(VHandle {
                path: path.to_string(),
                data: d.clone(),
                pos: 0,
                st: self.st.clone(),
            }),
            None => Err(DbError::new(format!("No such file or directory: {path}"))),
        }
    }

    async fn stat(&self, path: &str, _state: &()) -> Result<Option<FileStat>> {
        let st = self.st.lock();
        let key = norm(path);
        if st.files.contains_key(&key) {
            return Ok(Some(FileStat { file_type: FileType::File }));
        }
        let prefix = format!("{key}/");
        if key.is_empty() || st.files.keys().any(|k| k.starts_with(&prefix)) {
            return Ok(Some(FileStat { file_type: FileType::Directory }));
        }
        Ok(None)
    }

    async fn read_dir(&self, dir: &str, _state: &()) -> Result<VDir> {
        Ok(VDir {
            dir: norm(dir),
            shown: dir.trim_end_matches('/').to_string(),
            exhausted: false,
            st: self.st.clone(),
        })
    }

    fn glob_segments(glob: &str) -> Result<GlobSegments> {
        // Same splitting rule as the native LocalFileSystem.
        let mut segments: Vec<_> = glob.split('/').filter(|s| !s.is_empty()).collect();
        if segments.is_empty() {
            return Err(DbError::new("Missing segments for glob"));
        }
        let mut root_dir = Vec::new();
        while !segments.is_empty() && !is_glob(segments[0]) {
            root_dir.push(segments.remove(0));
        }
        let mut root_dir = root_dir.join("/");
        let segments = segments.into_iter().map(|s| s.to_string()).collect();
        if root_dir.is_empty() {
            root_dir = ".".to_string();
        }
        Ok(GlobSegments { root_dir, segments })
    }

    fn can_handle_path(&self, _path: &str) -> bool {
        true
    }
}
