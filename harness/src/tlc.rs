//! Binding of models/TaskState.tla to the implementation: TLC explores the model's whole state space
//! (invariants checked by TLC itself) and dumps the state graph; every per-task event sequence logged by the
//! thread-level explorer (hook H2) must be a path of that graph from the initial state, with the logged
//! ScheduleState flags equal to the model state's (trace inclusion, implementation => model); the graph's
//! states and edges witnessed by implementation traces are counted (model => implementation coverage).
use std::collections::{BTreeMap, BTreeSet};
use std::path::PathBuf;
use std::process::Command;

use crate::infra::verif_root;

#[derive(Clone, Debug)]
pub struct MState {
    pub flags: [bool; 4],
    pub act: String,
    pub text: String,
}

pub struct Graph {
    pub init: usize,
    pub states: Vec<MState>,
    /// state -> (label of the target's `act`, target)
    pub edges: Vec<Vec<(String, usize)>>,
    pub tlc_summary: String,
}

fn fnv(s: &[u8]) -> u64 {
    let mut h: u64 = 0xcbf29ce484222325;
    for b in s {
        h ^= *b as u64;
        h = h.wrapping_mul(0x100000001b3);
    }
    h
}

/// Run TLC on the model (cached by the hash of the model text) and parse the dumped graph.
pub fn load_graph() -> Result<Graph, String> {
    let dir = verif_root().join("models");
    let tla = std::fs::read(dir.join("TaskState.tla")).map_err(|e| format!("cannot read models/TaskState.tla: {e}"))?;
    let cfg = std::fs::read(dir.join("TaskState.cfg")).map_err(|e| format!("cannot read models/TaskState.cfg: {e}"))?;
    let key = format!("{:016x}", fnv(&[tla.clone(), cfg.clone()].concat()));
    let out: PathBuf = verif_root().join("target").join("tlc").join(&key);
    let dot = out.join("ts.dot");
    let log = out.join("tlc.log");
    if !(dot.exists() && log.exists()) {
        let _ = std::fs::create_dir_all(&out);
        let o = Command::new("tlc")
            .current_dir(&out)
            .args(["-workers", "1", "-metadir"])
            .arg(out.join("meta"))
            .arg("-dump")
            .arg("dot")
            .arg(&dot)
            .arg("-config")
            .arg(dir.join("TaskState.cfg"))
            .arg(dir.join("TaskState.tla"))
            .output()
            .map_err(|e| format!("cannot run tlc: {e}"))?;
        let text = format!("{}{}", String::from_utf8_lossy(&o.stdout), String::from_utf8_lossy(&o.stderr));
        if !text.contains("Model checking completed. No error has been found.") {
            let _ = std::fs::remove_file(&dot);
            return Err(format!("TLC did not verify the model: {}", text.lines().filter(|l| l.contains("Error") || l.contains("violated") || l.contains("Invariant")).take(5).collect::<Vec<_>>().join(" | ")));
        }
        std::fs::write(&log, &text).map_err(|e| e.to_string())?;
        let _ = std::fs::remove_dir_all(out.join("meta"));
    }
    let text = std::fs::read_to_string(&dot).map_err(|e| format!("cannot read TLC dump: {e}"))?;
    let logt = std::fs::read_to_string(&log).unwrap_or_default();
    let summary = logt.lines().find(|l| l.contains("distinct states found")).unwrap_or("").to_string();
    let mut ids: BTreeMap<String, usize> = BTreeMap::new();
    let mut states: Vec<MState> = Vec::new();
    let mut raw_edges: Vec<(String, String)> = Vec::new();
    let mut init: Option<String> = None;
    for line in text.lines() {
        let line = line.trim();
        if let Some((a, rest)) = line.split_once(" -> ") {
            let b = rest.split_whitespace().next().unwrap_or("").to_string();
            raw_edges.push((a.to_string(), b));
        } else if let Some((id, rest)) = line.split_once(" [label=\"") {
            if !(id.starts_with('-') || id.chars().next().map(|c| c.is_ascii_digit()).unwrap_or(false)) {
                continue;
            }
            let label = rest.split("\",").next().unwrap_or("");
            let get = |var: &str| -> String {
                let pat = format!("{var} = ");
                label.split("\\n").find_map(|p| p.trim_start_matches("/\\\\ ").strip_prefix(&pat).map(|v| v.replace(['\\', '"'], "").trim().to_string())).unwrap_or_default()
            };
            let b = |var: &str| get(var) == "TRUE";
            let st = MState { flags: [b("running"), b("pending"), b("completed"), b("canceled")], act: get("act").replace('"', ""), text: label.replace("\\n", " ").replace("/\\\\ ", "").replace("\\\"", "'") };
            if rest.contains("style = filled") && init.is_none() {
                init = Some(id.to_string());
            }
            if !ids.contains_key(id) {
                ids.insert(id.to_string(), states.len());
                states.push(st);
            }
        }
    }
    let init = init.and_then(|i| ids.get(&i).copied()).ok_or("no initial state in the TLC dump")?;
    let mut edges: Vec<Vec<(String, usize)>> = vec![Vec::new(); states.len()];
    for (a, b) in raw_edges {
        let (Some(&ia), Some(&ib)) = (ids.get(&a), ids.get(&b)) else { return Err(format!("edge {a} -> {b} refers to an unknown state")) };
        let l = states[ib].act.clone();
        if !edges[ia].iter().any(|(x, t)| *x == l && *t == ib) {
            edges[ia].push((l, ib));
        }
    }
    if states.len() < 10 || states[init].act != "Init" {
        return Err(format!("TLC dump not understood ({} states)", states.len()));
    }
    Ok(Graph { init, states, edges, tlc_summary: summary })
}

#[derive(Default)]
pub struct Conformance {
    pub traces: usize,
    pub steps: u64,
    pub visited_states: BTreeSet<usize>,
    pub visited_edges: BTreeSet<(usize, usize)>,
    pub rejected: Vec<String>,
}

impl Graph {
    /// Walk one implementation trace; Err(description) when it is not a path of the model.
    pub fn accept(&self, trace: &[(&'static str, [bool; 4])], c: &mut Conformance) -> Result<(), String> {
        let mut cur = self.init;
        c.visited_states.insert(cur);
        for (i, (label, flags)) in trace.iter().enumerate() {
            let nexts: Vec<usize> = self.edges[cur].iter().filter(|(l, _)| l == label).map(|(_, t)| *t).collect();
            if nexts.len() != 1 {
                return Err(format!("step {i}: `{label}` is not possible in model state [{}] (after {:?})", self.states[cur].text, trace[..i].iter().map(|x| x.0).collect::<Vec<_>>()));
            }
            let n = nexts[0];
            let is_state_label = label.starts_with("Schedule") || label.starts_with("Epilogue") || *label == "CancelSet";
            if is_state_label && self.states[n].flags != *flags {
                return Err(format!("step {i}: after `{label}` the implementation has running/pending/completed/canceled = {flags:?}, the model {:?} (after {:?})", self.states[n].flags, trace[..i].iter().map(|x| x.0).collect::<Vec<_>>()));
            }
            c.visited_edges.insert((cur, n));
            c.visited_states.insert(n);
            cur = n;
            c.steps += 1;
        }
        c.traces += 1;
        Ok(())
    }

    pub fn n_edges(&self) -> usize {
        self.edges.iter().map(|e| e.len()).sum()
    }

    pub fn unwitnessed_actions(&self, c: &Conformance) -> Vec<String> {
        let mut all: BTreeSet<String> = BTreeSet::new();
        let mut seen: BTreeSet<String> = BTreeSet::new();
        for (a, es) in self.edges.iter().enumerate() {
            for (l, b) in es {
                all.insert(l.clone());
                if c.visited_edges.contains(&(a, *b)) {
                    seen.insert(l.clone());
                }
            }
        }
        all.difference(&seen).cloned().collect()
    }
}
