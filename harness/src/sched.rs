//! E-SCHED/A: stateless exhaustive exploration of poll-granularity schedules of
//! the real operators. The harness is the PipelineRuntime, so it decides which
//! partition pipeline (or the result consumer) is polled next.
use std::collections::{BTreeMap, BTreeSet};
use std::sync::Mutex;
use std::sync::atomic::{AtomicBool, AtomicU64, Ordering};
use std::time::{Duration, Instant};

use crate::drv::{Driver, Outcome, PickCtx, RunResult, Sched, default_pick};
use crate::val::bag;

/// One query shape to explore.
#[derive(Clone, Debug)]
pub struct Shape {
    pub name: String,
    /// statements run once per driver (tables, views)
    pub setup: Vec<String>,
    /// statements run before every execution (e.g. DROP/CREATE for DML shapes, SET ...)
    pub per_run: Vec<String>,
    pub query: String,
    /// statements run after the query whose outcome is part of the observation (e.g. SELECT * FROM x)
    pub observe: Vec<String>,
    /// compare rows as a sequence (ORDER BY on a total key) instead of a bag
    pub ordered: bool,
    /// LIMIT without total order: only the row count (and sub-bag of `superset`) is determined
    pub limit_of: Option<String>,
    /// the query is expected to fail (error must reach the client on every schedule)
    pub expect_error: bool,
}

impl Shape {
    pub fn new(name: &str, setup: &[&str], query: &str) -> Shape {
        Shape { name: name.into(), setup: setup.iter().map(|s| s.to_string()).collect(), per_run: vec![], query: query.into(), observe: vec![], ordered: false, limit_of: None, expect_error: false }
    }
}

/// Replays a prefix of choices, then follows the default schedule.
pub struct PrefixSched<'a> {
    pub prefix: &'a [u16],
    /// recorded: enabled and parked sets per step
    pub enabled_log: Vec<Vec<u16>>,
    pub parked_log: Vec<Vec<u16>>,
    pub diverged: Option<String>,
}

impl<'a> Sched for PrefixSched<'a> {
    fn pick(&mut self, cx: &PickCtx<'_>) -> usize {
        self.enabled_log.push(cx.enabled.iter().map(|x| *x as u16).collect());
        self.parked_log.push(cx.parked.iter().map(|x| *x as u16).collect());
        if cx.step < self.prefix.len() {
            let want = self.prefix[cx.step] as usize;
            if cx.enabled.contains(&want) || cx.parked.contains(&want) {
                return want;
            }
            if self.diverged.is_none() {
                self.diverged = Some(format!("step {}: prefix wants actor {} but enabled={:?} parked={:?}", cx.step, want, cx.enabled, cx.parked));
            }
            return if cx.enabled.is_empty() { cx.parked[0] } else { default_pick(cx.enabled) };
        }
        if cx.enabled.is_empty() {
            // cannot happen: the driver reports a hang before asking
            return cx.parked[0];
        }
        default_pick(cx.enabled)
    }
}

#[derive(Clone, Debug)]
pub struct ExecObs {
    pub outcome: Outcome,
    pub observed: Vec<Outcome>,
    pub trace: Vec<u16>,
    pub events: Vec<u8>,
    pub enabled_log: Vec<Vec<u16>>,
    pub parked_log: Vec<Vec<u16>>,
    pub task_errors: usize,
    pub n_tasks: usize,
    pub diverged: Option<String>,
}

pub fn prepare(d: &mut Driver, shape: &Shape) {
    for s in &shape.setup {
        d.must(s);
    }
}

pub fn execute(d: &mut Driver, shape: &Shape, prefix: &[u16]) -> ExecObs {
    for s in &shape.per_run {
        let _ = d.q(s);
    }
    let mut sched = PrefixSched { prefix, enabled_log: vec![], parked_log: vec![], diverged: None };
    let RunResult { outcome, stats } = d.run(0, &shape.query, &mut sched);
    let mut observed = Vec::new();
    if !d.dirty {
        for s in &shape.observe {
            observed.push(d.q(s));
        }
    }
    ExecObs { outcome, observed, trace: stats.trace, events: stats.events, enabled_log: sched.enabled_log, parked_log: sched.parked_log, task_errors: stats.task_errors, n_tasks: stats.n_tasks, diverged: sched.diverged }
}

#[derive(Clone, Debug)]
pub struct SchedViolation {
    pub class: String,
    pub schedule: Vec<u16>,
    pub expected: String,
    pub observed: String,
}

/// Canonical form of the observation used for "same result as the sequential run".
fn canon(shape: &Shape, o: &Outcome) -> String {
    match o {
        Outcome::Rows(r) => {
            if shape.ordered {
                format!("rows:{:?}:{:?}:{}", r.names, r.types, crate::val::fmt_rows(&r.rows, 100000))
            } else if shape.limit_of.is_some() {
                format!("rows:{:?}:{:?}:n={}", r.names, r.types, r.rows.len())
            } else {
                format!("rows:{:?}:{:?}:{}", r.names, r.types, crate::val::fmt_rows(&bag(&r.rows), 100000))
            }
        }
        Outcome::Error { .. } => "error".to_string(),
        Outcome::Panic { loc, msg } => format!("panic:{loc}:{msg}"),
        Outcome::Hang { detail } => format!("hang:{detail}"),
        Outcome::Abort { detail } => format!("abort:{detail}"),
    }
}

fn canon_obs(o: &Outcome) -> String {
    match o {
        Outcome::Rows(r) => format!("rows:{:?}:{}", r.types, crate::val::fmt_rows(&bag(&r.rows), 100000)),
        Outcome::Error { .. } => "error".into(),
        o => o.brief(),
    }
}

pub struct ExploreCfg {
    /// maximum deviations from the default schedule (None = unbounded: all schedules)
    pub max_dev: Option<usize>,
    /// maximum spurious wake-ups (polls of a parked actor) per execution
    pub max_spurious: usize,
    pub wall_cap: Duration,
    pub exec_cap: u64,
    pub threads: usize,
}

#[derive(Clone, Debug, Default)]
pub struct ExploreResult {
    pub executions: u64,
    pub steps: u64,
    pub max_len: usize,
    pub max_width: usize,
    pub distinct_event_orders: usize,
    pub distinct_outcomes: usize,
    pub complete: bool,
    pub violations: Vec<SchedViolation>,
    pub machinery: Vec<String>,
    pub n_tasks: usize,
    pub sample_schedules: Vec<String>,
    pub error_executions: u64,
    pub spurious_executions: u64,
}

struct Work {
    prefix: Vec<u16>,
    devs: usize,
    spurious: usize,
}

/// Exhaustive exploration: every schedule reachable with <= max_dev deviations
/// (or every schedule when unbounded), each run to completion on the real engine.
pub fn explore(shape: &Shape, cfg: &ExploreCfg) -> ExploreResult {
    let start = Instant::now();
    // reference: the default schedule, run twice (determinism proof)
    let mut d0 = Driver::new();
    d0.horizon = 100_000;
    prepare(&mut d0, shape);
    let ref1 = execute(&mut d0, shape, &[]);
    if d0.dirty {
        d0 = Driver::new();
        prepare(&mut d0, shape);
    }
    let ref2 = execute(&mut d0, shape, &[]);
    let mut res = ExploreResult::default();
    res.n_tasks = ref1.n_tasks;
    if ref1.trace != ref2.trace || ref1.events != ref2.events || canon(shape, &ref1.outcome) != canon(shape, &ref2.outcome) {
        res.machinery.push(format!("shape {}: the default schedule is not reproducible (trace {:?} vs {:?})", shape.name, ref1.trace, ref2.trace));
        return res;
    }
    let ref_canon = canon(shape, &ref1.outcome);
    let ref_obs: Vec<String> = ref1.observed.iter().map(canon_obs).collect();
    let horizon = (ref1.trace.len() * 50).max(2000);

    let queue: Mutex<Vec<Work>> = Mutex::new(vec![Work { prefix: vec![], devs: 0, spurious: 0 }]);
    let inflight = AtomicU64::new(0);
    let stop = AtomicBool::new(false);
    let capped = AtomicBool::new(false);
    let executions = AtomicU64::new(0);
    let steps = AtomicU64::new(0);
    let shared: Mutex<(BTreeSet<Vec<u8>>, BTreeSet<String>, Vec<SchedViolation>, Vec<String>, usize, usize, Vec<String>, u64, u64)> = Mutex::new((BTreeSet::new(), BTreeSet::new(), vec![], vec![], 0, 0, vec![], 0, 0));

    std::thread::scope(|sc| {
        for _ in 0..cfg.threads.max(1) {
            sc.spawn(|| {
                crate::drv::set_quiet(true);
                let mut d = Driver::new();
                d.horizon = horizon;
                prepare(&mut d, shape);
                let mut local_events: BTreeSet<Vec<u8>> = BTreeSet::new();
                let mut local_out: BTreeSet<String> = BTreeSet::new();
                loop {
                    if stop.load(Ordering::SeqCst) {
                        break;
                    }
                    let w = {
                        let mut q = queue.lock().unwrap();
                        match q.pop() {
                            Some(w) => {
                                inflight.fetch_add(1, Ordering::SeqCst);
                                Some(w)
                            }
                            None => None,
                        }
                    };
                    let w = match w {
                        Some(w) => w,
                        None => {
                            if inflight.load(Ordering::SeqCst) == 0 {
                                break;
                            }
                            std::thread::yield_now();
                            continue;
                        }
                    };
                    if d.dirty {
                        d = Driver::new();
                        d.horizon = horizon;
                        prepare(&mut d, shape);
                    }
                    let obs = execute(&mut d, shape, &w.prefix);
                    let n = executions.fetch_add(1, Ordering::SeqCst) + 1;
                    steps.fetch_add(obs.trace.len() as u64, Ordering::SeqCst);
                    if n >= cfg.exec_cap || start.elapsed() > cfg.wall_cap {
                        capped.store(true, Ordering::SeqCst);
                        stop.store(true, Ordering::SeqCst);
                    }
                    // ---- oracles
                    let mut viol: Option<(String, String, String)> = None;
                    if let Some(dv) = &obs.diverged {
                        shared.lock().unwrap().3.push(format!("shape {}: divergence while replaying prefix {:?}: {}", shape.name, w.prefix, dv));
                    } else {
                        let c = canon(shape, &obs.outcome);
                        local_out.insert(c.clone());
                        match &obs.outcome {
                            Outcome::Panic { loc, msg } => viol = Some((crate::infra::panic_class(loc, msg), "no panic".into(), obs.outcome.brief())),
                            Outcome::Hang { detail } => viol = Some(("hang".into(), "terminates (no lost wake-up)".into(), detail.clone())),
                            Outcome::Abort { detail } => viol = Some(("abort".into(), "no abort".into(), detail.clone())),
                            _ => {
                                if obs.task_errors > 0 && !obs.outcome.is_error() {
                                    viol = Some(("error-lost".into(), "a task error reaches the client".into(), obs.outcome.brief()));
                                } else if c != ref_canon {
                                    viol = Some(("result-differs".into(), ref1.outcome.brief(), obs.outcome.brief()));
                                } else if shape.expect_error && !obs.outcome.is_error() {
                                    viol = Some(("missing-error".into(), "error".into(), obs.outcome.brief()));
                                } else {
                                    let oc: Vec<String> = obs.observed.iter().map(canon_obs).collect();
                                    if oc != ref_obs {
                                        viol = Some(("effect-differs".into(), format!("{:?}", ref_obs), format!("{:?}", oc)));
                                    }
                                }
                            }
                        }
                    }
                    local_events.insert(obs.events.clone());
                    {
                        let mut sh = shared.lock().unwrap();
                        sh.4 = sh.4.max(obs.trace.len());
                        sh.5 = sh.5.max(obs.enabled_log.iter().map(|e| e.len()).max().unwrap_or(0));
                        if sh.6.len() < 3 || (n % 997 == 0 && sh.6.len() < 8) {
                            sh.6.push(obs.trace.iter().map(|x| x.to_string()).collect::<Vec<_>>().join(","));
                        }
                        if obs.outcome.is_error() {
                            sh.7 += 1;
                        }
                        if w.spurious > 0 {
                            sh.8 += 1;
                        }
                        if let Some((class, expected, observed)) = viol {
                            if sh.2.len() < 50 {
                                sh.2.push(SchedViolation { class, schedule: obs.trace.clone(), expected, observed });
                            }
                        }
                    }
                    // ---- children: alternatives at every point after the prefix
                    if obs.diverged.is_none() {
                        let mut children: Vec<Work> = Vec::new();
                        let len = obs.trace.len().min(obs.enabled_log.len());
                        for i in w.prefix.len()..len {
                            let chosen = obs.trace[i];
                            let within = |d: usize| cfg.max_dev.map(|m| d <= m).unwrap_or(true);
                            if within(w.devs + 1) {
                                for &alt in &obs.enabled_log[i] {
                                    if alt != chosen {
                                        let mut p = obs.trace[..i].to_vec();
                                        p.push(alt);
                                        children.push(Work { prefix: p, devs: w.devs + 1, spurious: w.spurious });
                                    }
                                }
                                if w.spurious < cfg.max_spurious {
                                    for &alt in &obs.parked_log[i] {
                                        let mut p = obs.trace[..i].to_vec();
                                        p.push(alt);
                                        children.push(Work { prefix: p, devs: w.devs + 1, spurious: w.spurious + 1 });
                                    }
                                }
                            }
                        }
                        if !children.is_empty() {
                            queue.lock().unwrap().extend(children);
                        }
                    }
                    inflight.fetch_sub(1, Ordering::SeqCst);
                }
                let mut sh = shared.lock().unwrap();
                sh.0.extend(local_events);
                sh.1.extend(local_out);
            });
        }
    });
    let sh = shared.into_inner().unwrap();
    res.executions = executions.load(Ordering::SeqCst);
    res.steps = steps.load(Ordering::SeqCst);
    res.distinct_event_orders = sh.0.len();
    res.distinct_outcomes = sh.1.len();
    res.violations = sh.2;
    res.machinery.extend(sh.3);
    res.max_len = sh.4;
    res.max_width = sh.5;
    res.sample_schedules = sh.6;
    res.error_executions = sh.7;
    res.spurious_executions = sh.8;
    res.complete = !capped.load(Ordering::SeqCst);
    let _ = BTreeMap::<u8, u8>::new();
    res
}
