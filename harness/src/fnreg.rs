//! Function alphabet derived from the engine's own registry
//! (`BUILTIN_SCALAR_FUNCTION_SETS`, `BUILTIN_AGGREGATE_FUNCTION_SETS`), plus the
//! SQL value alphabets per data type.
use glaredb_core::arrays::datatype::DataTypeId;
use glaredb_core::functions::aggregate::builtin::BUILTIN_AGGREGATE_FUNCTION_SETS;
use glaredb_core::functions::scalar::FunctionVolatility;
use glaredb_core::functions::scalar::builtin::BUILTIN_SCALAR_FUNCTION_SETS;

#[derive(Clone, Debug)]
pub struct Sig {
    pub name: String,
    pub args: Vec<DataTypeId>,
    pub variadic: Option<DataTypeId>,
    pub ret: DataTypeId,
    pub volatile: bool,
    pub category: String,
}

#[derive(Clone, Debug)]
pub struct DocExample {
    pub name: String,
    pub example: String,
    pub output: String,
}

pub fn scalar_sigs() -> Vec<Sig> {
    let mut out = Vec::new();
    for set in BUILTIN_SCALAR_FUNCTION_SETS {
        let cat = set.doc.first().map(|d| d.category.as_str().to_string()).unwrap_or_default();
        for f in set.functions {
            let s = f.signature();
            out.push(Sig { name: set.name.to_string(), args: s.positional_args.to_vec(), variadic: s.variadic_arg, ret: s.return_type, volatile: matches!(f.volatility(), FunctionVolatility::Volatile), category: cat.clone() });
        }
    }
    out
}

pub fn aggregate_sigs() -> Vec<Sig> {
    let mut out = Vec::new();
    for set in BUILTIN_AGGREGATE_FUNCTION_SETS {
        let cat = set.doc.first().map(|d| d.category.as_str().to_string()).unwrap_or_default();
        for f in set.functions {
            let s = f.signature();
            out.push(Sig { name: set.name.to_string(), args: s.positional_args.to_vec(), variadic: s.variadic_arg, ret: s.return_type, volatile: false, category: cat.clone() });
        }
    }
    out
}

pub fn doc_examples() -> Vec<DocExample> {
    let mut out = Vec::new();
    for set in BUILTIN_SCALAR_FUNCTION_SETS {
        for d in set.doc {
            if let Some(e) = &d.example {
                out.push(DocExample { name: set.name.to_string(), example: e.example.to_string(), output: e.output.to_string() });
            }
        }
    }
    for set in BUILTIN_AGGREGATE_FUNCTION_SETS {
        for d in set.doc {
            if let Some(e) = &d.example {
                out.push(DocExample { name: set.name.to_string(), example: e.example.to_string(), output: e.output.to_string() });
            }
        }
    }
    out
}

/// SQL type name usable in CAST for a type id (None: not expressible / not covered).
pub fn sql_type(t: DataTypeId) -> Option<&'static str> {
    Some(match t {
        DataTypeId::Boolean => "BOOLEAN",
        DataTypeId::Int8 => "TINYINT",
        DataTypeId::Int16 => "SMALLINT",
        DataTypeId::Int32 => "INT",
        DataTypeId::Int64 => "BIGINT",
        DataTypeId::UInt8 => "UTINYINT",
        DataTypeId::UInt16 => "USMALLINT",
        DataTypeId::UInt32 => "UINT",
        DataTypeId::UInt64 => "UBIGINT",
        DataTypeId::Float16 => "HALF",
        DataTypeId::Float32 => "REAL",
        DataTypeId::Float64 => "DOUBLE",
        DataTypeId::Decimal64 => "DECIMAL(9,2)",
        DataTypeId::Decimal128 => "DECIMAL(28,4)",
        DataTypeId::Utf8 => "TEXT",
        DataTypeId::Date32 => "DATE",
        DataTypeId::Timestamp => "TIMESTAMP",
        DataTypeId::Interval => "INTERVAL",
        _ => return None,
    })
}

/// Reduced value alphabet (SQL expressions, first is NULL) for a type.
pub fn alphabet(t: DataTypeId, small: bool) -> Option<Vec<String>> {
    let ty = sql_type(t)?;
    let lits: Vec<&str> = match t {
        DataTypeId::Boolean => vec!["true", "false"],
        DataTypeId::Int8 => vec!["-128", "-1", "0", "1", "7", "127"],
        DataTypeId::Int16 => vec!["-32768", "-1", "0", "1", "300", "32767"],
        DataTypeId::Int32 => vec!["-2147483648", "-1", "0", "1", "70000", "2147483647"],
        DataTypeId::Int64 => vec!["-9223372036854775808", "-1", "0", "1", "5000000000", "9223372036854775807"],
        DataTypeId::UInt8 => vec!["0", "1", "7", "255"],
        DataTypeId::UInt16 => vec!["0", "1", "300", "65535"],
        DataTypeId::UInt32 => vec!["0", "1", "70000", "4294967295"],
        DataTypeId::UInt64 => vec!["0", "1", "5000000000", "18446744073709551615"],
        DataTypeId::Float16 => vec!["0", "-1.5", "2.5", "'NaN'", "'Infinity'", "65504"],
        DataTypeId::Float32 => vec!["0", "-1.5", "2.5", "'NaN'", "'-Infinity'", "'3.4e38'", "16777217"],
        DataTypeId::Float64 => vec!["0", "-1.5", "2.5", "0.1", "'NaN'", "'Infinity'", "'1.7e308'", "9007199254740993"],
        DataTypeId::Decimal64 => vec!["'0.00'", "'1.50'", "'-2.25'", "'9999999.99'", "'-0.01'"],
        DataTypeId::Decimal128 => vec!["'0.0000'", "'1.5000'", "'-2.2500'", "'999999999999999999999999.9999'"],
        DataTypeId::Utf8 => vec!["''", "'a'", "'Ab c'", "'é€😀'", "'long-string-over-12-bytes'", "'%_\\'", "'12'"],
        DataTypeId::Date32 => vec!["'1970-01-01'", "'2024-02-29'", "'1899-12-31'", "'9999-12-31'", "'0001-01-01'"],
        DataTypeId::Timestamp => vec!["'1970-01-01 00:00:00'", "'2024-02-29 12:34:56.789'", "'1969-12-31 23:59:59.999999'", "'9999-12-31 23:59:59'"],
        DataTypeId::Interval => vec!["'1 day'", "'1 month'", "'-1 hour'", "'1 year 2 months 3 days'"],
        _ => return None,
    };
    let take = if small { 3 } else { lits.len() };
    if t == DataTypeId::Timestamp {
        // no cast to TIMESTAMP exists in this dialect: build values with epoch functions
        let mut out = vec!["epoch(CAST(NULL AS BIGINT))".to_string()];
        for l in ["epoch(0)", "epoch_ms(1709210096789)", "epoch(-1)", "epoch(253402300799)"].into_iter().take(take) {
            out.push(l.to_string());
        }
        return Some(out);
    }
    let mut out = vec![format!("CAST(NULL AS {ty})")];
    for l in lits.into_iter().take(take) {
        // identity casts of BOOLEAN / TEXT literals are rejected by the engine (recorded under C13)
        if matches!(t, DataTypeId::Boolean | DataTypeId::Utf8) {
            out.push(l.to_string());
        } else {
            out.push(format!("CAST({l} AS {ty})"));
        }
    }
    Some(out)
}

/// Render a call of function `name` on argument SQL expressions. Operator-named
/// functions use operator syntax.
pub fn call_sql(name: &str, args: &[String]) -> Option<String> {
    let symbolic = !name.chars().any(|c| c.is_ascii_alphabetic());
    if !symbolic {
        return Some(format!("{}({})", name, args.join(", ")));
    }
    match args.len() {
        1 => Some(format!("({} {})", name, args[0])),
        2 => Some(format!("({} {} {})", args[0], name, args[1])),
        _ => None,
    }
}
