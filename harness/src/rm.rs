//! Reference model RM: a boring nested-loop evaluator of a small SQL algebra,
//! plus the renderer of the same AST to GlareDB SQL text.
//!
//! Semantics are textbook SQL bag semantics with three-valued logic.
//! Correlated subqueries are evaluated once per outer row with an environment
//! chain - which is what property C09 defines them to mean.
use std::cmp::Ordering;
use std::collections::BTreeMap;

use crate::val::{Row, Val};

#[derive(Clone, Copy, Debug, PartialEq, Eq, Hash, PartialOrd, Ord)]
pub enum Ty {
    Bool,
    Int32,
    Int64,
    F64,
    Text,
    /// unknown / not predicted: never compared
    Unknown,
}

impl Ty {
    pub fn engine_name(&self) -> Option<&'static str> {
        match self {
            Ty::Bool => Some("Boolean"),
            Ty::Int32 => Some("Int32"),
            Ty::Int64 => Some("Int64"),
            Ty::F64 => Some("Float64"),
            Ty::Text => Some("Utf8"),
            Ty::Unknown => None,
        }
    }
}

#[derive(Clone, Copy, Debug, PartialEq, Eq, Hash, PartialOrd, Ord)]
pub enum Op {
    Add,
    Sub,
    Mul,
    Eq,
    Ne,
    Lt,
    Le,
    Gt,
    Ge,
    And,
    Or,
    /// IS NOT DISTINCT FROM
    NotDistinct,
    /// IS DISTINCT FROM
    Distinct,
}

impl Op {
    pub fn sql(&self) -> &'static str {
        match self {
            Op::Add => "+",
            Op::Sub => "-",
            Op::Mul => "*",
            Op::Eq => "=",
            Op::Ne => "<>",
            Op::Lt => "<",
            Op::Le => "<=",
            Op::Gt => ">",
            Op::Ge => ">=",
            Op::And => "AND",
            Op::Or => "OR",
            Op::NotDistinct => "IS NOT DISTINCT FROM",
            Op::Distinct => "IS DISTINCT FROM",
        }
    }
    pub fn is_cmp(&self) -> bool {
        matches!(self, Op::Eq | Op::Ne | Op::Lt | Op::Le | Op::Gt | Op::Ge)
    }
}

#[derive(Clone, Copy, Debug, PartialEq, Eq, Hash, PartialOrd, Ord)]
pub enum AggF {
    CountStar,
    Count,
    Sum,
    Min,
    Max,
    Avg,
}

impl AggF {
    pub fn name(&self) -> &'static str {
        match self {
            AggF::CountStar | AggF::Count => "count",
            AggF::Sum => "sum",
            AggF::Min => "min",
            AggF::Max => "max",
            AggF::Avg => "avg",
        }
    }
}

#[derive(Clone, Debug, PartialEq, Eq, Hash, PartialOrd, Ord)]
pub enum E {
    Col(Option<String>, String),
    Int(i64),
    Str(String),
    Bool(bool),
    Null,
    Bin(Op, Box<E>, Box<E>),
    Not(Box<E>),
    Neg(Box<E>),
    /// IS NULL (false) / IS NOT NULL (true)
    IsNull(Box<E>, bool),
    Case(Vec<(E, E)>, Option<Box<E>>),
    Coalesce(Vec<E>),
    Between(Box<E>, Box<E>, Box<E>, bool),
    InList(Box<E>, Vec<E>, bool),
    Agg { f: AggF, arg: Option<Box<E>>, distinct: bool, filter: Option<Box<E>> },
    /// GROUPING(e)
    Grouping(Box<E>),
    Scalar(Box<Query>),
    Exists(Box<Query>, bool),
    InQ(Box<E>, Box<Query>, bool),
    /// e op ANY/ALL (q); all=true => ALL
    Quant(Op, bool, Box<E>, Box<Query>),
    /// CAST(e AS ty) used only to type literals (identity on values of that type)
    CastAs(Box<E>, Ty),
}

pub fn col(n: &str) -> E {
    E::Col(None, n.to_string())
}
pub fn qcol(q: &str, n: &str) -> E {
    E::Col(Some(q.to_string()), n.to_string())
}
pub fn bin(op: Op, l: E, r: E) -> E {
    E::Bin(op, Box::new(l), Box::new(r))
}

#[derive(Clone, Copy, Debug, PartialEq, Eq, Hash, PartialOrd, Ord)]
pub enum JoinKind {
    Cross,
    Inner,
    Left,
    Right,
    Semi,
}

#[derive(Clone, Debug, PartialEq, Eq, Hash, PartialOrd, Ord)]
pub enum From {
    Table { name: String, alias: Option<String> },
    Values { rows: Vec<Vec<E>>, alias: String, cols: Vec<String> },
    Sub { q: Box<Query>, alias: String, lateral: bool },
    Join { kind: JoinKind, l: Box<From>, r: Box<From>, on: Option<E>, using: Vec<String>, natural: bool, comma: bool },
}

#[derive(Clone, Debug, PartialEq, Eq, Hash, PartialOrd, Ord)]
pub enum GroupBy {
    None,
    Plain(Vec<E>),
    Rollup(Vec<E>),
    Cube(Vec<E>),
}

#[derive(Clone, Debug, PartialEq, Eq, Hash, PartialOrd, Ord)]
pub enum Item {
    Star,
    Expr(E, Option<String>),
}

#[derive(Clone, Debug, PartialEq, Eq, Hash, PartialOrd, Ord)]
pub struct Select {
    pub distinct: bool,
    pub items: Vec<Item>,
    pub from: Option<From>,
    pub where_: Option<E>,
    pub group_by: GroupBy,
    pub having: Option<E>,
}

#[derive(Clone, Debug, PartialEq, Eq, Hash, PartialOrd, Ord)]
pub enum Body {
    Select(Select),
    Union { all: bool, l: Box<Query>, r: Box<Query> },
}

#[derive(Clone, Debug, PartialEq, Eq, Hash, PartialOrd, Ord)]
pub struct OrderKey {
    /// 1-based output ordinal
    pub ordinal: usize,
    pub desc: bool,
    pub nulls_first: Option<bool>,
    /// render by output name instead of ordinal (when it has one)
    pub by_name: bool,
}

#[derive(Clone, Debug, PartialEq, Eq, Hash, PartialOrd, Ord)]
pub struct Cte {
    pub name: String,
    pub materialized: bool,
    pub q: Query,
}

#[derive(Clone, Debug, PartialEq, Eq, Hash, PartialOrd, Ord)]
pub struct Query {
    pub ctes: Vec<Cte>,
    pub body: Body,
    pub order_by: Vec<OrderKey>,
    pub limit: Option<u64>,
    pub offset: Option<u64>,
}

impl Query {
    pub fn of(sel: Select) -> Query {
        Query { ctes: vec![], body: Body::Select(sel), order_by: vec![], limit: None, offset: None }
    }
}

impl Select {
    pub fn star(from: From) -> Select {
        Select { distinct: false, items: vec![Item::Star], from: Some(from), where_: None, group_by: GroupBy::None, having: None }
    }
}

pub fn table(name: &str) -> From {
    From::Table { name: name.to_string(), alias: None }
}
pub fn table_as(name: &str, alias: &str) -> From {
    From::Table { name: name.to_string(), alias: Some(alias.to_string()) }
}

// ------------------------------------------------------------------ rendering

#[derive(Clone, Copy, Debug, Default)]
pub struct Render {
    /// render identifiers as "quoted"
    pub quote: bool,
}

fn ident(r: &Render, s: &str) -> String {
    if r.quote || !s.chars().all(|c| c.is_ascii_alphanumeric() || c == '_') || s.chars().next().map(|c| c.is_ascii_digit()).unwrap_or(true) {
        format!("\"{}\"", s.replace('"', "\"\""))
    } else {
        s.to_string()
    }
}

pub fn expr_sql(e: &E, r: &Render) -> String {
    match e {
        E::Col(None, n) => ident(r, n),
        E::Col(Some(q), n) => format!("{}.{}", ident(r, q), ident(r, n)),
        E::Int(i) => {
            if *i < 0 { format!("({i})") } else { format!("{i}") }
        }
        E::Str(s) => format!("'{}'", s.replace('\'', "''")),
        E::Bool(b) => format!("{b}"),
        E::Null => "NULL".into(),
        E::Bin(op, l, rr) => format!("({} {} {})", expr_sql(l, r), op.sql(), expr_sql(rr, r)),
        E::Not(x) => format!("(NOT {})", expr_sql(x, r)),
        E::Neg(x) => format!("(-{})", expr_sql(x, r)),
        E::IsNull(x, neg) => format!("({} IS {}NULL)", expr_sql(x, r), if *neg { "NOT " } else { "" }),
        E::Case(arms, els) => {
            let mut s = String::from("CASE");
            for (c, v) in arms {
                s.push_str(&format!(" WHEN {} THEN {}", expr_sql(c, r), expr_sql(v, r)));
            }
            if let Some(e) = els {
                s.push_str(&format!(" ELSE {}", expr_sql(e, r)));
            }
            s.push_str(" END");
            s
        }
        E::Coalesce(v) => format!("coalesce({})", v.iter().map(|x| expr_sql(x, r)).collect::<Vec<_>>().join(", ")),
        E::Between(x, lo, hi, neg) => format!("({} {}BETWEEN {} AND {})", expr_sql(x, r), if *neg { "NOT " } else { "" }, expr_sql(lo, r), expr_sql(hi, r)),
        E::InList(x, l, neg) => format!("({} {}IN ({}))", expr_sql(x, r), if *neg { "NOT " } else { "" }, l.iter().map(|x| expr_sql(x, r)).collect::<Vec<_>>().join(", ")),
        E::Agg { f, arg, distinct, filter } => {
            let inner = match (f, arg) {
                (AggF::CountStar, _) => "*".to_string(),
                (_, Some(a)) => format!("{}{}", if *distinct { "DISTINCT " } else { "" }, expr_sql(a, r)),
                _ => "*".to_string(),
            };
            let mut s = format!("{}({})", f.name(), inner);
            if let Some(fl) = filter {
                s.push_str(&format!(" FILTER (WHERE {})", expr_sql(fl, r)));
            }
            s
        }
        E::Grouping(x) => format!("grouping({})", expr_sql(x, r)),
        E::Scalar(q) => format!("({})", query_sql(q, r)),
        E::Exists(q, neg) => format!("({}EXISTS ({}))", if *neg { "NOT " } else { "" }, query_sql(q, r)),
        E::InQ(x, q, neg) => format!("({} {}IN ({}))", expr_sql(x, r), if *neg { "NOT " } else { "" }, query_sql(q, r)),
        E::Quant(op, all, x, q) => format!("({} {} {} ({}))", expr_sql(x, r), op.sql(), if *all { "ALL" } else { "ANY" }, query_sql(q, r)),
        E::CastAs(x, ty) => format!(
            "CAST({} AS {})",
            expr_sql(x, r),
            match ty {
                Ty::Bool => "BOOLEAN",
                Ty::Int32 => "INT",
                Ty::Int64 => "BIGINT",
                Ty::F64 => "DOUBLE",
                _ => "TEXT",
            }
        ),
    }
}

pub fn from_sql(f: &From, r: &Render) -> String {
    match f {
        From::Table { name, alias } => match alias {
            Some(a) => format!("{} AS {}", ident(r, name), ident(r, a)),
            None => ident(r, name),
        },
        From::Values { rows, alias, cols } => {
            let rs: Vec<String> = rows.iter().map(|row| format!("({})", row.iter().map(|x| expr_sql(x, r)).collect::<Vec<_>>().join(", "))).collect();
            format!("(VALUES {}) AS {}({})", rs.join(", "), ident(r, alias), cols.iter().map(|c| ident(r, c)).collect::<Vec<_>>().join(", "))
        }
        From::Sub { q, alias, lateral } => format!("{}({}) AS {}", if *lateral { "LATERAL " } else { "" }, query_sql(q, r), ident(r, alias)),
        From::Join { kind, l, r: rr, on, using, natural, comma } => {
            let ls = from_sql(l, r);
            let rs = match &**rr {
                From::Join { .. } => format!("({})", from_sql(rr, r)),
                _ => from_sql(rr, r),
            };
            if *comma {
                return format!("{ls}, {rs}");
            }
            let kw = match kind {
                JoinKind::Cross => "CROSS JOIN",
                JoinKind::Inner => "INNER JOIN",
                JoinKind::Left => "LEFT JOIN",
                JoinKind::Right => "RIGHT JOIN",
                JoinKind::Semi => "SEMI JOIN",
            };
            let kw = if *natural { format!("NATURAL {kw}") } else { kw.to_string() };
            let mut s = format!("{ls} {kw} {rs}");
            if let Some(on) = on {
                s.push_str(&format!(" ON {}", expr_sql(on, r)));
            } else if !using.is_empty() {
                s.push_str(&format!(" USING ({})", using.iter().map(|c| ident(r, c)).collect::<Vec<_>>().join(", ")));
            }
            s
        }
    }
}

pub fn select_sql(s: &Select, r: &Render) -> String {
    let mut out = String::from("SELECT ");
    if s.distinct {
        out.push_str("DISTINCT ");
    }
    let items: Vec<String> = s
        .items
        .iter()
        .map(|it| match it {
            Item::Star => "*".to_string(),
            Item::Expr(e, None) => expr_sql(e, r),
            Item::Expr(e, Some(a)) => format!("{} AS {}", expr_sql(e, r), ident(r, a)),
        })
        .collect();
    out.push_str(&items.join(", "));
    if let Some(f) = &s.from {
        out.push_str(" FROM ");
        out.push_str(&from_sql(f, r));
    }
    if let Some(w) = &s.where_ {
        out.push_str(" WHERE ");
        out.push_str(&expr_sql(w, r));
    }
    match &s.group_by {
        GroupBy::None => {}
        GroupBy::Plain(v) => {
            out.push_str(" GROUP BY ");
            out.push_str(&v.iter().map(|x| expr_sql(x, r)).collect::<Vec<_>>().join(", "));
        }
        GroupBy::Rollup(v) => {
            out.push_str(&format!(" GROUP BY ROLLUP ({})", v.iter().map(|x| expr_sql(x, r)).collect::<Vec<_>>().join(", ")));
        }
        GroupBy::Cube(v) => {
            out.push_str(&format!(" GROUP BY CUBE ({})", v.iter().map(|x| expr_sql(x, r)).collect::<Vec<_>>().join(", ")));
        }
    }
    if let Some(h) = &s.having {
        out.push_str(" HAVING ");
        out.push_str(&expr_sql(h, r));
    }
    out
}

pub fn query_sql(q: &Query, r: &Render) -> String {
    let mut out = String::new();
    if !q.ctes.is_empty() {
        out.push_str("WITH ");
        let cs: Vec<String> = q
            .ctes
            .iter()
            .map(|c| format!("{} AS {}({})", ident(r, &c.name), if c.materialized { "MATERIALIZED " } else { "" }, query_sql(&c.q, r)))
            .collect();
        out.push_str(&cs.join(", "));
        out.push(' ');
    }
    match &q.body {
        Body::Select(s) => out.push_str(&select_sql(s, r)),
        Body::Union { all, l, r: rr } => {
            let wrap = |q: &Query| {
                if q.order_by.is_empty() && q.limit.is_none() && q.offset.is_none() && q.ctes.is_empty() {
                    query_sql(q, r)
                } else {
                    format!("({})", query_sql(q, r))
                }
            };
            out.push_str(&format!("{} UNION {}{}", wrap(l), if *all { "ALL " } else { "" }, wrap(rr)));
        }
    }
    if !q.order_by.is_empty() {
        out.push_str(" ORDER BY ");
        let names = q.output_names_hint();
        let ks: Vec<String> = q
            .order_by
            .iter()
            .map(|k| {
                let base = if k.by_name {
                    match names.get(k.ordinal - 1).and_then(|n| n.clone()) {
                        Some(n) => ident(r, &n),
                        None => format!("{}", k.ordinal),
                    }
                } else {
                    format!("{}", k.ordinal)
                };
                format!(
                    "{}{}{}",
                    base,
                    if k.desc { " DESC" } else { "" },
                    match k.nulls_first {
                        Some(true) => " NULLS FIRST",
                        Some(false) => " NULLS LAST",
                        None => "",
                    }
                )
            })
            .collect();
        out.push_str(&ks.join(", "));
    }
    if let Some(l) = q.limit {
        out.push_str(&format!(" LIMIT {l}"));
    }
    if let Some(o) = q.offset {
        out.push_str(&format!(" OFFSET {o}"));
    }
    out
}

impl Query {
    /// Output names where they are syntactically evident (aliases / plain columns).
    fn output_names_hint(&self) -> Vec<Option<String>> {
        match &self.body {
            Body::Select(s) => s
                .items
                .iter()
                .map(|it| match it {
                    Item::Expr(_, Some(a)) => Some(a.clone()),
                    Item::Expr(E::Col(_, n), None) => Some(n.clone()),
                    _ => None,
                })
                .collect(),
            Body::Union { l, .. } => l.output_names_hint(),
        }
    }
    pub fn sql(&self) -> String {
        query_sql(self, &Render::default())
    }
}

// ------------------------------------------------------------------ evaluation

#[derive(Clone, Debug, PartialEq, Eq)]
pub struct ColInfo {
    pub qual: Option<String>,
    /// None: the name is not defined by the docs (not compared)
    pub name: Option<String>,
    pub ty: Ty,
    /// hidden from `*` (e.g. right side of USING duplicates) - not used for plain joins
    pub hidden: bool,
}

#[derive(Clone, Debug)]
pub struct Rel {
    pub cols: Vec<ColInfo>,
    pub rows: Vec<Row>,
}

#[derive(Clone, Debug, PartialEq, Eq)]
pub enum RmErr {
    /// the model predicts a run-time error (e.g. scalar subquery with >1 row)
    Runtime(String),
    /// the statement is outside the model (never a verdict)
    Unsupported(String),
}

type R<T> = Result<T, RmErr>;

fn unsup<T>(s: impl Into<String>) -> R<T> {
    Err(RmErr::Unsupported(s.into()))
}

/// Database = named relations (tables, views already evaluated, CTEs).
#[derive(Clone, Debug, Default)]
pub struct Db {
    pub rels: BTreeMap<String, Rel>,
}

impl Db {
    pub fn add_table(&mut self, name: &str, cols: &[(&str, Ty)], rows: Vec<Row>) {
        self.rels.insert(
            name.to_string(),
            Rel {
                cols: cols.iter().map(|(n, t)| ColInfo { qual: Some(name.to_string()), name: Some(n.to_string()), ty: *t, hidden: false }).collect(),
                rows,
            },
        );
    }
}

pub struct Env<'a> {
    pub cols: &'a [ColInfo],
    pub row: &'a [Val],
    pub parent: Option<&'a Env<'a>>,
}

fn lookup<'a>(env: Option<&'a Env<'a>>, q: &Option<String>, n: &str) -> R<(&'a Val, Ty)> {
    let mut cur = env;
    while let Some(e) = cur {
        let mut found: Option<usize> = None;
        let mut count = 0;
        for (i, c) in e.cols.iter().enumerate() {
            if c.name.as_deref() != Some(n) {
                continue;
            }
            if let Some(qq) = q {
                if c.qual.as_deref() != Some(qq.as_str()) {
                    continue;
                }
            }
            if count == 0 {
                found = Some(i);
            }
            count += 1;
        }
        if count > 1 {
            // duplicate identical values are fine only if caller knows; treat as unsupported
            return unsup(format!("ambiguous column {n}"));
        }
        if let Some(i) = found {
            return Ok((&e.row[i], e.cols[i].ty));
        }
        cur = e.parent;
    }
    unsup(format!("unresolved column {q:?}.{n}"))
}

pub fn truth(v: &Val) -> Option<bool> {
    match v {
        Val::Bool(b) => Some(*b),
        _ => None,
    }
}

fn tv(b: Option<bool>) -> Val {
    match b {
        Some(x) => Val::Bool(x),
        None => Val::Null,
    }
}

/// SQL comparison of two non-null values of the same family.
pub fn cmp_vals(a: &Val, b: &Val) -> R<Ordering> {
    match (a, b) {
        (Val::Int(x), Val::Int(y)) => Ok(x.cmp(y)),
        (Val::Str(x), Val::Str(y)) => Ok(x.as_bytes().cmp(y.as_bytes())),
        (Val::Bool(x), Val::Bool(y)) => Ok(x.cmp(y)),
        (Val::Date32(x), Val::Date32(y)) => Ok(x.cmp(y)),
        (Val::Date64(x), Val::Date64(y)) => Ok(x.cmp(y)),
        (Val::Ts(u1, x), Val::Ts(u2, y)) if u1 == u2 => Ok(x.cmp(y)),
        (Val::Dec(x, _, s1), Val::Dec(y, _, s2)) if s1 == s2 => Ok(x.cmp(y)),
        (Val::Bytes(x), Val::Bytes(y)) => Ok(x.cmp(y)),
        (Val::F32(_), Val::F32(_)) | (Val::F16(_), Val::F16(_)) => Ok(total_f64(a.as_f64().unwrap(), b.as_f64().unwrap())),
        (Val::F64(_), _) | (_, Val::F64(_)) => {
            let x = a.as_f64().ok_or(RmErr::Unsupported("cmp".into()))?;
            let y = b.as_f64().ok_or(RmErr::Unsupported("cmp".into()))?;
            Ok(total_f64(x, y))
        }
        _ => unsup(format!("compare {a} with {b}")),
    }
}

/// NaN above every number, NaN == NaN, -0 == +0
pub fn total_f64(x: f64, y: f64) -> Ordering {
    match (x.is_nan(), y.is_nan()) {
        (true, true) => Ordering::Equal,
        (true, false) => Ordering::Greater,
        (false, true) => Ordering::Less,
        _ => x.partial_cmp(&y).unwrap(),
    }
}

fn cmp_op(op: Op, a: &Val, b: &Val) -> R<Val> {
    if a.is_null() || b.is_null() {
        return Ok(Val::Null);
    }
    let o = cmp_vals(a, b)?;
    let r = match op {
        Op::Eq => o == Ordering::Equal,
        Op::Ne => o != Ordering::Equal,
        Op::Lt => o == Ordering::Less,
        Op::Le => o != Ordering::Greater,
        Op::Gt => o == Ordering::Greater,
        Op::Ge => o != Ordering::Less,
        _ => return unsup("cmp op"),
    };
    Ok(Val::Bool(r))
}

pub fn and3(a: Option<bool>, b: Option<bool>) -> Option<bool> {
    match (a, b) {
        (Some(false), _) | (_, Some(false)) => Some(false),
        (Some(true), Some(true)) => Some(true),
        _ => None,
    }
}
pub fn or3(a: Option<bool>, b: Option<bool>) -> Option<bool> {
    match (a, b) {
        (Some(true), _) | (_, Some(true)) => Some(true),
        (Some(false), Some(false)) => Some(false),
        _ => None,
    }
}

struct Ctx<'a> {
    db: &'a Db,
}

/// Aggregation context: the rows of the current group.
struct Grp<'a> {
    cols: &'a [ColInfo],
    rows: &'a [Row],
    /// grouping expressions and whether each is active in the current grouping set
    keys: &'a [E],
    active: &'a [bool],
}

impl<'a> Ctx<'a> {
    fn eval(&self, e: &E, env: Option<&Env<'_>>, grp: Option<&Grp<'_>>) -> R<(Val, Ty)> {
        // grouped context: an expression structurally equal to a grouping key
        if let Some(g) = grp {
            for (i, k) in g.keys.iter().enumerate() {
                if k == e {
                    if !g.active[i] {
                        let ty = self.type_of(e, g.cols, env);
                        return Ok((Val::Null, ty));
                    }
                    break;
                }
            }
        }
        match e {
            E::Col(q, n) => {
                if let Some(g) = grp {
                    // evaluate on the first row of the group, falling back to outer env
                    if let Some(first) = g.rows.first() {
                        let env2 = Env { cols: g.cols, row: first, parent: env };
                        let (v, t) = lookup(Some(&env2), q, n)?;
                        return Ok((v.clone(), t));
                    } else {
                        // empty global group: only outer references are meaningful
                        let (v, t) = lookup(env, q, n)?;
                        return Ok((v.clone(), t));
                    }
                }
                let (v, t) = lookup(env, q, n)?;
                Ok((v.clone(), t))
            }
            E::Int(i) => Ok((Val::Int(*i as i128), Ty::Int32)),
            E::Str(s) => Ok((Val::Str(s.clone()), Ty::Text)),
            E::Bool(b) => Ok((Val::Bool(*b), Ty::Bool)),
            E::Null => Ok((Val::Null, Ty::Unknown)),
            E::Neg(x) => {
                let (v, t) = self.eval(x, env, grp)?;
                match v {
                    Val::Null => Ok((Val::Null, t)),
                    Val::Int(i) => Ok((Val::Int(-i), t)),
                    _ => unsup("neg"),
                }
            }
            E::Bin(op, l, r) => {
                let (a, ta) = self.eval(l, env, grp)?;
                match op {
                    Op::And | Op::Or => {
                        let (b, _) = self.eval(r, env, grp)?;
                        let (x, y) = (truth(&a), truth(&b));
                        if (!a.is_null() && x.is_none()) || (!b.is_null() && y.is_none()) {
                            return unsup("non-boolean in AND/OR");
                        }
                        Ok((tv(if *op == Op::And { and3(x, y) } else { or3(x, y) }), Ty::Bool))
                    }
                    Op::Add | Op::Sub | Op::Mul => {
                        let (b, tb) = self.eval(r, env, grp)?;
                        let ty = match (ta, tb) {
                            (Ty::Int32, Ty::Int32) => Ty::Int32,
                            (Ty::Int64, Ty::Int64) | (Ty::Int64, Ty::Int32) | (Ty::Int32, Ty::Int64) => Ty::Int64,
                            _ => Ty::Unknown,
                        };
                        if a.is_null() || b.is_null() {
                            return Ok((Val::Null, ty));
                        }
                        let (x, y) = match (&a, &b) {
                            (Val::Int(x), Val::Int(y)) => (*x, *y),
                            _ => return unsup("arith on non-int"),
                        };
                        let v = match op {
                            Op::Add => x + y,
                            Op::Sub => x - y,
                            _ => x * y,
                        };
                        let (lo, hi) = match ty {
                            Ty::Int32 => (i32::MIN as i128, i32::MAX as i128),
                            _ => (i64::MIN as i128, i64::MAX as i128),
                        };
                        if v < lo || v > hi {
                            return Err(RmErr::Runtime("integer overflow".into()));
                        }
                        Ok((Val::Int(v), ty))
                    }
                    Op::NotDistinct | Op::Distinct => {
                        let (b, _) = self.eval(r, env, grp)?;
                        let same = match (a.is_null(), b.is_null()) {
                            (true, true) => true,
                            (true, false) | (false, true) => false,
                            _ => cmp_vals(&a, &b)? == Ordering::Equal,
                        };
                        Ok((Val::Bool(if *op == Op::NotDistinct { same } else { !same }), Ty::Bool))
                    }
                    _ => {
                        let (b, _) = self.eval(r, env, grp)?;
                        Ok((cmp_op(*op, &a, &b)?, Ty::Bool))
                    }
                }
            }
            E::Not(x) => {
                let (v, _) = self.eval(x, env, grp)?;
                Ok((tv(truth(&v).map(|b| !b)), Ty::Bool))
            }
            E::IsNull(x, neg) => {
                let (v, _) = self.eval(x, env, grp)?;
                Ok((Val::Bool(v.is_null() != *neg), Ty::Bool))
            }
            E::Case(arms, els) => {
                let mut ty = Ty::Unknown;
                // result type: common type of branches if they agree
                let mut tys = Vec::new();
                for (_, v) in arms {
                    tys.push(self.type_of_g(v, env, grp));
                }
                if let Some(e) = els {
                    tys.push(self.type_of_g(e, env, grp));
                }
                let known: Vec<Ty> = tys.iter().copied().filter(|t| *t != Ty::Unknown).collect();
                if !known.is_empty() && known.iter().all(|t| *t == known[0]) && known.len() == tys.len() {
                    ty = known[0];
                }
                for (c, v) in arms {
                    let (cv, _) = self.eval(c, env, grp)?;
                    if truth(&cv) == Some(true) {
                        let (vv, _) = self.eval(v, env, grp)?;
                        return Ok((vv, ty));
                    }
                }
                match els {
                    Some(e) => {
                        let (vv, _) = self.eval(e, env, grp)?;
                        Ok((vv, ty))
                    }
                    None => Ok((Val::Null, ty)),
                }
            }
            E::Coalesce(v) => {
                let mut ty = Ty::Unknown;
                let tys: Vec<Ty> = v.iter().map(|x| self.type_of_g(x, env, grp)).collect();
                if tys.iter().all(|t| *t == tys[0]) {
                    ty = tys[0];
                }
                for x in v {
                    let (xv, _) = self.eval(x, env, grp)?;
                    if !xv.is_null() {
                        return Ok((xv, ty));
                    }
                }
                Ok((Val::Null, ty))
            }
            E::Between(x, lo, hi, neg) => {
                let (v, _) = self.eval(x, env, grp)?;
                let (l, _) = self.eval(lo, env, grp)?;
                let (h, _) = self.eval(hi, env, grp)?;
                let a = truth(&cmp_op(Op::Ge, &v, &l)?);
                let b = truth(&cmp_op(Op::Le, &v, &h)?);
                let r = and3(a, b);
                Ok((tv(if *neg { r.map(|x| !x) } else { r }), Ty::Bool))
            }
            E::InList(x, list, neg) => {
                let (v, _) = self.eval(x, env, grp)?;
                let mut acc = Some(false);
                for it in list {
                    let (iv, _) = self.eval(it, env, grp)?;
                    acc = or3(acc, truth(&cmp_op(Op::Eq, &v, &iv)?));
                }
                Ok((tv(if *neg { acc.map(|x| !x) } else { acc }), Ty::Bool))
            }
            E::Agg { f, arg, distinct, filter } => {
                let g = match grp {
                    Some(g) => g,
                    None => return unsup("aggregate outside aggregate context"),
                };
                let mut vals: Vec<Val> = Vec::new();
                let mut n_star = 0i128;
                let mut arg_ty = Ty::Unknown;
                if let Some(a) = arg {
                    arg_ty = self.type_of(a, g.cols, env);
                }
                for row in g.rows {
                    let renv = Env { cols: g.cols, row, parent: env };
                    if let Some(fl) = filter {
                        let (fv, _) = self.eval(fl, Some(&renv), None)?;
                        if truth(&fv) != Some(true) {
                            continue;
                        }
                    }
                    n_star += 1;
                    if let Some(a) = arg {
                        let (v, _) = self.eval(a, Some(&renv), None)?;
                        if !v.is_null() {
                            vals.push(v);
                        }
                    }
                }
                if *distinct {
                    let mut s: Vec<Val> = Vec::new();
                    for v in vals {
                        if !s.contains(&v) {
                            s.push(v);
                        }
                    }
                    vals = s;
                }
                match f {
                    AggF::CountStar => Ok((Val::Int(n_star), Ty::Int64)),
                    AggF::Count => Ok((Val::Int(vals.len() as i128), Ty::Int64)),
                    AggF::Sum => {
                        let ty = match arg_ty {
                            Ty::Int32 | Ty::Int64 => Ty::Int64,
                            _ => Ty::Unknown,
                        };
                        if vals.is_empty() {
                            return Ok((Val::Null, ty));
                        }
                        let mut s = 0i128;
                        for v in &vals {
                            match v {
                                Val::Int(i) => s += *i,
                                _ => return unsup("sum non-int"),
                            }
                        }
                        if s < i64::MIN as i128 || s > i64::MAX as i128 {
                            return Err(RmErr::Runtime("sum overflow".into()));
                        }
                        Ok((Val::Int(s), ty))
                    }
                    AggF::Avg => {
                        if vals.is_empty() {
                            return Ok((Val::Null, Ty::F64));
                        }
                        let mut s = 0i128;
                        for v in &vals {
                            match v {
                                Val::Int(i) => s += *i,
                                _ => return unsup("avg non-int"),
                            }
                        }
                        Ok((Val::f64(s as f64 / vals.len() as f64), Ty::F64))
                    }
                    AggF::Min | AggF::Max => {
                        if vals.is_empty() {
                            return Ok((Val::Null, arg_ty));
                        }
                        let mut best = vals[0].clone();
                        for v in &vals[1..] {
                            let o = cmp_vals(v, &best)?;
                            if (*f == AggF::Min && o == Ordering::Less) || (*f == AggF::Max && o == Ordering::Greater) {
                                best = v.clone();
                            }
                        }
                        Ok((best, arg_ty))
                    }
                }
            }
            E::Grouping(x) => {
                let g = match grp {
                    Some(g) => g,
                    None => return unsup("grouping outside aggregate"),
                };
                for (i, k) in g.keys.iter().enumerate() {
                    if k == &**x {
                        return Ok((Val::Int(if g.active[i] { 0 } else { 1 }), Ty::Int64));
                    }
                }
                unsup("grouping() of non-key")
            }
            E::Scalar(q) => {
                let penv = self.sub_env(env, grp);
                let rel = self.with_env(q, penv.as_ref().map(|b| b.as_env()))?;
                if rel.cols.len() != 1 {
                    return unsup("scalar subquery with != 1 column");
                }
                match rel.rows.len() {
                    0 => Ok((Val::Null, rel.cols[0].ty)),
                    1 => Ok((rel.rows[0][0].clone(), rel.cols[0].ty)),
                    _ => Err(RmErr::Runtime("scalar subquery returned more than one row".into())),
                }
            }
            E::Exists(q, neg) => {
                let penv = self.sub_env(env, grp);
                let rel = self.with_env(q, penv.as_ref().map(|b| b.as_env()))?;
                Ok((Val::Bool(rel.rows.is_empty() == *neg), Ty::Bool))
            }
            E::InQ(x, q, neg) => {
                let (v, _) = self.eval(x, env, grp)?;
                let penv = self.sub_env(env, grp);
                let rel = self.with_env(q, penv.as_ref().map(|b| b.as_env()))?;
                let mut acc = Some(false);
                for r in &rel.rows {
                    acc = or3(acc, truth(&cmp_op(Op::Eq, &v, &r[0])?));
                }
                Ok((tv(if *neg { acc.map(|x| !x) } else { acc }), Ty::Bool))
            }
            E::CastAs(x, ty) => {
                let (v, _) = self.eval(x, env, grp)?;
                Ok((v, *ty))
            }
            E::Quant(op, all, x, q) => {
                let (v, _) = self.eval(x, env, grp)?;
                let penv = self.sub_env(env, grp);
                let rel = self.with_env(q, penv.as_ref().map(|b| b.as_env()))?;
                let mut acc = if *all { Some(true) } else { Some(false) };
                for r in &rel.rows {
                    let c = truth(&cmp_op(*op, &v, &r[0])?);
                    acc = if *all { and3(acc, c) } else { or3(acc, c) };
                }
                Ok((tv(acc), Ty::Bool))
            }
        }
    }

    /// In a grouped context, a correlated subquery sees the group's first row.
    fn sub_env<'e>(&self, env: Option<&'e Env<'e>>, grp: Option<&'e Grp<'e>>) -> Option<OwnedEnv<'e>> {
        match grp {
            Some(g) if !g.rows.is_empty() => Some(OwnedEnv { cols: g.cols, row: &g.rows[0], parent: env }),
            _ => env.map(|e| OwnedEnv { cols: e.cols, row: e.row, parent: e.parent }),
        }
    }

    fn with_env(&self, q: &Query, env: Option<Env<'_>>) -> R<Rel> {
        self.query(q, env.as_ref())
    }

    fn type_of_g(&self, e: &E, env: Option<&Env<'_>>, grp: Option<&Grp<'_>>) -> Ty {
        match grp {
            Some(g) => self.type_of(e, g.cols, env),
            None => match env {
                Some(en) => self.type_of(e, en.cols, en.parent),
                None => self.type_of(e, &[], None),
            },
        }
    }

    /// Static type of an expression over `cols` (best effort; Unknown when unsure).
    fn type_of(&self, e: &E, cols: &[ColInfo], parent: Option<&Env<'_>>) -> Ty {
        let dummy: Vec<Val> = vec![Val::Null; cols.len()];
        let env = Env { cols, row: &dummy, parent };
        match e {
            E::Col(q, n) => lookup(Some(&env), q, n).map(|x| x.1).unwrap_or(Ty::Unknown),
            E::Int(_) => Ty::Int32,
            E::Str(_) => Ty::Text,
            E::Bool(_) => Ty::Bool,
            E::Null => Ty::Unknown,
            E::Neg(x) => self.type_of(x, cols, parent),
            E::Bin(op, l, r) => match op {
                Op::Add | Op::Sub | Op::Mul => match (self.type_of(l, cols, parent), self.type_of(r, cols, parent)) {
                    (Ty::Int32, Ty::Int32) => Ty::Int32,
                    (Ty::Int64, Ty::Int64) | (Ty::Int64, Ty::Int32) | (Ty::Int32, Ty::Int64) => Ty::Int64,
                    _ => Ty::Unknown,
                },
                _ => Ty::Bool,
            },
            E::Not(_) | E::IsNull(..) | E::Between(..) | E::InList(..) | E::Exists(..) | E::InQ(..) | E::Quant(..) => Ty::Bool,
            E::Case(arms, els) => {
                let mut tys: Vec<Ty> = arms.iter().map(|(_, v)| self.type_of(v, cols, parent)).collect();
                if let Some(e) = els {
                    tys.push(self.type_of(e, cols, parent));
                }
                if tys.iter().all(|t| *t == tys[0]) { tys[0] } else { Ty::Unknown }
            }
            E::Coalesce(v) => {
                let tys: Vec<Ty> = v.iter().map(|x| self.type_of(x, cols, parent)).collect();
                if !tys.is_empty() && tys.iter().all(|t| *t == tys[0]) { tys[0] } else { Ty::Unknown }
            }
            E::Agg { f, arg, .. } => match f {
                AggF::CountStar | AggF::Count => Ty::Int64,
                AggF::Avg => Ty::F64,
                AggF::Sum => match arg.as_ref().map(|a| self.type_of(a, cols, parent)) {
                    Some(Ty::Int32) | Some(Ty::Int64) => Ty::Int64,
                    _ => Ty::Unknown,
                },
                AggF::Min | AggF::Max => arg.as_ref().map(|a| self.type_of(a, cols, parent)).unwrap_or(Ty::Unknown),
            },
            E::Grouping(_) => Ty::Int64,
            E::CastAs(_, ty) => *ty,
            E::Scalar(_) => Ty::Unknown,
        }
    }

    fn from(&self, f: &From, env: Option<&Env<'_>>) -> R<Rel> {
        match f {
            From::Table { name, alias } => {
                let rel = self.db.rels.get(name).ok_or_else(|| RmErr::Unsupported(format!("unknown table {name}")))?;
                let q = alias.clone().unwrap_or_else(|| name.clone());
                Ok(Rel { cols: rel.cols.iter().map(|c| ColInfo { qual: Some(q.clone()), ..c.clone() }).collect(), rows: rel.rows.clone() })
            }
            From::Values { rows, alias, cols } => {
                let mut out = Vec::new();
                let mut tys = vec![Ty::Unknown; cols.len()];
                for (ri, r) in rows.iter().enumerate() {
                    let mut row = Vec::new();
                    for (i, e) in r.iter().enumerate() {
                        let (v, t) = self.eval(e, env, None)?;
                        if ri == 0 || tys[i] == Ty::Unknown {
                            if t != Ty::Unknown {
                                tys[i] = t;
                            }
                        } else if t != Ty::Unknown && t != tys[i] {
                            tys[i] = Ty::Unknown;
                        }
                        row.push(v);
                    }
                    out.push(row);
                }
                // a column with a NULL literal somewhere: only trust the type if all non-null agree (done above)
                Ok(Rel {
                    cols: cols.iter().zip(tys).map(|(c, t)| ColInfo { qual: Some(alias.clone()), name: Some(c.clone()), ty: t, hidden: false }).collect(),
                    rows: out,
                })
            }
            From::Sub { q, alias, lateral } => {
                let rel = self.query(q, if *lateral { env } else { env_skip_lateral(env) })?;
                Ok(Rel { cols: rel.cols.into_iter().map(|c| ColInfo { qual: Some(alias.clone()), ..c }).collect(), rows: rel.rows })
            }
            From::Join { kind, l, r, on, using, natural, .. } => {
                let lrel = self.from(l, env)?;
                let lateral_right = matches!(&**r, From::Sub { lateral: true, .. });
                let rrel_static = if lateral_right { None } else { Some(self.from(r, env)?) };
                // column layout
                let rcols_probe = match &rrel_static {
                    Some(r) => r.cols.clone(),
                    None => {
                        // evaluate once with a NULL row to learn the columns
                        let dummy: Vec<Val> = vec![Val::Null; lrel.cols.len()];
                        let lenv = Env { cols: &lrel.cols, row: &dummy, parent: env };
                        self.from(r, Some(&lenv)).map(|x| x.cols).unwrap_or_default()
                    }
                };
                let mut using_cols: Vec<String> = using.clone();
                if *natural {
                    for c in &lrel.cols {
                        if let Some(n) = &c.name {
                            if rcols_probe.iter().any(|rc| rc.name.as_ref() == Some(n)) && !using_cols.contains(n) {
                                using_cols.push(n.clone());
                            }
                        }
                    }
                }
                let mut cols: Vec<ColInfo> = lrel.cols.clone();
                cols.extend(rcols_probe.iter().cloned());
                let nl = lrel.cols.len();
                let nr = rcols_probe.len();
                let mut out: Vec<Row> = Vec::new();
                let mut right_matched: Vec<bool> = vec![false; rrel_static.as_ref().map(|r| r.rows.len()).unwrap_or(0)];
                for lrow in &lrel.rows {
                    let lenv = Env { cols: &lrel.cols, row: lrow, parent: env };
                    let rrel_dyn;
                    let rrows: &Vec<Row> = match &rrel_static {
                        Some(r) => &r.rows,
                        None => {
                            rrel_dyn = self.from(r, Some(&lenv))?;
                            &rrel_dyn.rows
                        }
                    };
                    let mut matched = false;
                    for (ri, rrow) in rrows.iter().enumerate() {
                        let mut comb: Row = lrow.clone();
                        comb.extend(rrow.iter().cloned());
                        let cenv = Env { cols: &cols, row: &comb, parent: env };
                        let mut ok = Some(true);
                        if let Some(on) = on {
                            let (v, _) = self.eval(on, Some(&cenv), None)?;
                            ok = truth(&v);
                        }
                        for u in &using_cols {
                            let li = lrel.cols.iter().position(|c| c.name.as_ref() == Some(u)).ok_or_else(|| RmErr::Unsupported("using col".into()))?;
                            let rj = rcols_probe.iter().position(|c| c.name.as_ref() == Some(u)).ok_or_else(|| RmErr::Unsupported("using col".into()))?;
                            ok = and3(ok, truth(&cmp_op(Op::Eq, &lrow[li], &rrow[rj])?));
                        }
                        if ok == Some(true) {
                            matched = true;
                            if ri < right_matched.len() {
                                right_matched[ri] = true;
                            }
                            if *kind == JoinKind::Semi {
                                break;
                            }
                            out.push(comb);
                        }
                    }
                    match kind {
                        JoinKind::Semi => {
                            if matched {
                                out.push(lrow.clone());
                            }
                        }
                        JoinKind::Left => {
                            if !matched {
                                let mut comb: Row = lrow.clone();
                                comb.extend(std::iter::repeat(Val::Null).take(nr));
                                out.push(comb);
                            }
                        }
                        _ => {}
                    }
                }
                if *kind == JoinKind::Right {
                    if let Some(rr) = &rrel_static {
                        for (ri, rrow) in rr.rows.iter().enumerate() {
                            if !right_matched[ri] {
                                let mut comb: Row = std::iter::repeat(Val::Null).take(nl).collect();
                                comb.extend(rrow.iter().cloned());
                                out.push(comb);
                            }
                        }
                    }
                }
                if *kind == JoinKind::Semi {
                    return Ok(Rel { cols: lrel.cols, rows: out });
                }
                // USING / NATURAL: the right copy of each using column is hidden from `*`
                if !using_cols.is_empty() {
                    for u in &using_cols {
                        if let Some(rj) = rcols_probe.iter().position(|c| c.name.as_ref() == Some(u)) {
                            cols[nl + rj].hidden = true;
                        }
                    }
                    if *kind == JoinKind::Right {
                        // the visible using column takes the right value for unmatched right rows; keep
                        // the model simple: unsupported
                        return unsup("RIGHT JOIN USING");
                    }
                }
                Ok(Rel { cols, rows: out })
            }
        }
    }

    fn select(&self, s: &Select, env: Option<&Env<'_>>) -> R<Rel> {
        let input = match &s.from {
            Some(f) => self.from(f, env)?,
            None => Rel { cols: vec![], rows: vec![vec![]] },
        };
        // WHERE
        let mut rows: Vec<Row> = Vec::new();
        for row in &input.rows {
            let renv = Env { cols: &input.cols, row, parent: env };
            let keep = match &s.where_ {
                Some(w) => truth(&self.eval(w, Some(&renv), None)?.0) == Some(true),
                None => true,
            };
            if keep {
                rows.push(row.clone());
            }
        }
        let has_agg = s.items.iter().any(|it| matches!(it, Item::Expr(e, _) if contains_agg(e))) || s.having.as_ref().map(contains_agg).unwrap_or(false);
        let grouped = !matches!(s.group_by, GroupBy::None) || has_agg;
        // expand items
        let mut items: Vec<(E, Option<String>, Option<ColInfo>)> = Vec::new();
        for it in &s.items {
            match it {
                Item::Star => {
                    for c in &input.cols {
                        if c.hidden {
                            continue;
                        }
                        let n = c.name.clone().ok_or_else(|| RmErr::Unsupported("star over unnamed".into()))?;
                        items.push((E::Col(c.qual.clone(), n), None, Some(c.clone())));
                    }
                }
                Item::Expr(e, a) => items.push((e.clone(), a.clone(), None)),
            }
        }
        let out_cols = |this: &Self| -> Vec<ColInfo> {
            items
                .iter()
                .map(|(e, a, src)| {
                    let name = match (a, e) {
                        (Some(a), _) => Some(a.clone()),
                        (None, E::Col(_, n)) => Some(n.clone()),
                        (None, E::Agg { f, .. }) => Some(f.name().to_string()),
                        _ => None,
                    };
                    let ty = match src {
                        Some(c) => c.ty,
                        None => this.type_of(e, &input.cols, env),
                    };
                    ColInfo { qual: None, name, ty, hidden: false }
                })
                .collect()
        };
        let cols = out_cols(self);
        let mut out: Vec<Row> = Vec::new();
        if grouped {
            if rows.is_empty() && matches!(s.group_by, GroupBy::Rollup(_) | GroupBy::Cube(_)) {
                // whether the grand-total row exists for empty input is not documented: not asserted
                return unsup("grouping sets over empty input");
            }
            let (keys, sets): (Vec<E>, Vec<Vec<bool>>) = match &s.group_by {
                GroupBy::None => (vec![], vec![vec![]]),
                GroupBy::Plain(k) => (k.clone(), vec![vec![true; k.len()]]),
                GroupBy::Rollup(k) => {
                    let n = k.len();
                    let sets = (0..=n).rev().map(|m| (0..n).map(|i| i < m).collect()).collect();
                    (k.clone(), sets)
                }
                GroupBy::Cube(k) => {
                    let n = k.len();
                    let mut sets = Vec::new();
                    for mask in (0..(1u32 << n)).rev() {
                        sets.push((0..n).map(|i| mask & (1 << (n - 1 - i)) != 0).collect());
                    }
                    (k.clone(), sets)
                }
            };
            for active in &sets {
                // partition rows by the active keys
                let mut groups: Vec<(Vec<Val>, Vec<Row>)> = Vec::new();
                for row in &rows {
                    let renv = Env { cols: &input.cols, row, parent: env };
                    let mut key = Vec::new();
                    for (i, k) in keys.iter().enumerate() {
                        if active[i] {
                            key.push(self.eval(k, Some(&renv), None)?.0.norm());
                        }
                    }
                    match groups.iter_mut().find(|g| g.0 == key) {
                        Some(g) => g.1.push(row.clone()),
                        None => groups.push((key, vec![row.clone()])),
                    }
                }
                if groups.is_empty() && keys.iter().zip(active).all(|(_, a)| !*a) {
                    // global aggregate (or the grand-total grouping set) over empty input
                    groups.push((vec![], vec![]));
                }
                for (_, grows) in &groups {
                    let g = Grp { cols: &input.cols, rows: grows, keys: &keys, active };
                    if let Some(h) = &s.having {
                        let (hv, _) = self.eval(h, env, Some(&g))?;
                        if truth(&hv) != Some(true) {
                            continue;
                        }
                    }
                    let mut orow = Vec::new();
                    for (e, _, _) in &items {
                        orow.push(self.eval(e, env, Some(&g))?.0);
                    }
                    out.push(orow);
                }
            }
        } else {
            for row in &rows {
                let renv = Env { cols: &input.cols, row, parent: env };
                let mut orow = Vec::new();
                for (e, _, _) in &items {
                    orow.push(self.eval(e, Some(&renv), None)?.0);
                }
                out.push(orow);
            }
        }
        if s.distinct {
            out = dedup(out);
        }
        Ok(Rel { cols, rows: out })
    }

    pub fn query(&self, q: &Query, env: Option<&Env<'_>>) -> R<Rel> {
        if !q.ctes.is_empty() {
            // CTE = its defining query (deterministic alphabet => evaluate once)
            let mut db2 = self.db.clone();
            for c in &q.ctes {
                let sub = Ctx { db: &db2 };
                let rel = sub.query(&c.q, env)?;
                let rel = Rel { cols: rel.cols.into_iter().map(|ci| ColInfo { qual: Some(c.name.clone()), ..ci }).collect(), rows: rel.rows };
                db2.rels.insert(c.name.clone(), rel);
            }
            let sub = Ctx { db: &db2 };
            let mut q2 = q.clone();
            q2.ctes.clear();
            return sub.query(&q2, env);
        }
        let mut rel = match &q.body {
            Body::Select(s) => self.select(s, env)?,
            Body::Union { all, l, r } => {
                let a = self.query(l, env)?;
                let b = self.query(r, env)?;
                if a.cols.len() != b.cols.len() {
                    return unsup("union arity");
                }
                let cols: Vec<ColInfo> = a.cols.iter().zip(&b.cols).map(|(x, y)| ColInfo { qual: None, name: x.name.clone(), ty: if x.ty == y.ty { x.ty } else { Ty::Unknown }, hidden: false }).collect();
                let mut rows = a.rows;
                rows.extend(b.rows);
                if !*all {
                    rows = dedup(rows);
                }
                Rel { cols, rows }
            }
        };
        if !q.order_by.is_empty() {
            let keys = q.order_by.clone();
            let mut err = None;
            rel.rows.sort_by(|a, b| match cmp_rows_by(a, b, &keys) {
                Ok(o) => o,
                Err(e) => {
                    err = Some(e);
                    Ordering::Equal
                }
            });
            if let Some(e) = err {
                return Err(e);
            }
        }
        if q.limit.is_some() || q.offset.is_some() {
            let off = q.offset.unwrap_or(0) as usize;
            let lim = q.limit.map(|l| l as usize).unwrap_or(usize::MAX);
            rel.rows = rel.rows.into_iter().skip(off).take(lim).collect();
        }
        Ok(rel)
    }
}

struct OwnedEnv<'a> {
    cols: &'a [ColInfo],
    row: &'a [Val],
    parent: Option<&'a Env<'a>>,
}
impl<'a> OwnedEnv<'a> {
    fn as_env(&self) -> Env<'a> {
        Env { cols: self.cols, row: self.row, parent: self.parent }
    }
}

/// A non-LATERAL derived table cannot see its siblings, but it can still see
/// the enclosing query's outer rows. Our From evaluation passes only the outer
/// env to non-lateral items (siblings are never put in env), so this is identity.
fn env_skip_lateral<'a>(env: Option<&'a Env<'a>>) -> Option<&'a Env<'a>> {
    env
}

pub fn contains_agg(e: &E) -> bool {
    match e {
        E::Agg { .. } | E::Grouping(_) => true,
        E::Bin(_, l, r) => contains_agg(l) || contains_agg(r),
        E::Not(x) | E::Neg(x) | E::IsNull(x, _) | E::CastAs(x, _) => contains_agg(x),
        E::Case(arms, els) => arms.iter().any(|(c, v)| contains_agg(c) || contains_agg(v)) || els.as_ref().map(|e| contains_agg(e)).unwrap_or(false),
        E::Coalesce(v) => v.iter().any(contains_agg),
        E::Between(a, b, c, _) => contains_agg(a) || contains_agg(b) || contains_agg(c),
        E::InList(x, l, _) => contains_agg(x) || l.iter().any(contains_agg),
        E::InQ(x, _, _) | E::Quant(_, _, x, _) => contains_agg(x),
        _ => false,
    }
}

fn dedup(rows: Vec<Row>) -> Vec<Row> {
    let mut out: Vec<Row> = Vec::new();
    let mut seen: Vec<Row> = Vec::new();
    for r in rows {
        let n: Row = r.iter().map(|v| v.norm()).collect();
        if !seen.contains(&n) {
            seen.push(n);
            out.push(r);
        }
    }
    out
}

/// Compare one key value: NULLs are largest by default (last ASC, first DESC).
pub fn cmp_key(a: &Val, b: &Val, k: &OrderKey) -> R<Ordering> {
    let nulls_first = k.nulls_first.unwrap_or(k.desc);
    match (a.is_null(), b.is_null()) {
        (true, true) => Ok(Ordering::Equal),
        (true, false) => Ok(if nulls_first { Ordering::Less } else { Ordering::Greater }),
        (false, true) => Ok(if nulls_first { Ordering::Greater } else { Ordering::Less }),
        _ => {
            let o = cmp_vals(a, b)?;
            Ok(if k.desc { o.reverse() } else { o })
        }
    }
}

pub fn cmp_rows_by(a: &Row, b: &Row, keys: &[OrderKey]) -> R<Ordering> {
    for k in keys {
        let o = cmp_key(&a[k.ordinal - 1], &b[k.ordinal - 1], k)?;
        if o != Ordering::Equal {
            return Ok(o);
        }
    }
    Ok(Ordering::Equal)
}

pub fn eval_query(db: &Db, q: &Query) -> R<Rel> {
    Ctx { db }.query(q, None)
}

// ------------------------------------------------------------------ comparing an engine result with the model

#[derive(Clone, Debug, PartialEq, Eq)]
pub enum Mismatch {
    Rows(String),
    Order(String),
    Arity(String),
    Name(String),
    Type(String),
}

impl Mismatch {
    pub fn class(&self) -> &'static str {
        match self {
            Mismatch::Rows(_) => "wrong-rows",
            Mismatch::Order(_) => "wrong-order",
            Mismatch::Arity(_) => "wrong-arity",
            Mismatch::Name(_) => "wrong-name",
            Mismatch::Type(_) => "wrong-type",
        }
    }
    pub fn text(&self) -> &str {
        match self {
            Mismatch::Rows(s) | Mismatch::Order(s) | Mismatch::Arity(s) | Mismatch::Name(s) | Mismatch::Type(s) => s,
        }
    }
}

fn approx_eq(a: &Val, b: &Val) -> bool {
    match (a, b) {
        (Val::F64(_), Val::F64(_)) => {
            let (x, y) = (a.as_f64().unwrap(), b.as_f64().unwrap());
            if x.is_nan() || y.is_nan() {
                return x.is_nan() && y.is_nan();
            }
            x == y || (x - y).abs() <= 1e-9 * x.abs().max(y.abs()).max(1.0)
        }
        _ => a == b,
    }
}

fn rows_eq(a: &Row, b: &Row) -> bool {
    a.len() == b.len() && a.iter().zip(b).all(|(x, y)| approx_eq(x, y))
}

/// multiset difference helper: is `sub` a sub-multiset of `sup`?
fn sub_multiset(sub: &[Row], sup: &[Row]) -> bool {
    let mut used = vec![false; sup.len()];
    'o: for r in sub {
        for (i, s) in sup.iter().enumerate() {
            if !used[i] && rows_eq(r, s) {
                used[i] = true;
                continue 'o;
            }
        }
        return false;
    }
    true
}

pub fn bag_eq(a: &[Row], b: &[Row]) -> bool {
    a.len() == b.len() && sub_multiset(a, b)
}

/// Check an engine result (names, types, rows) against the model for query q.
/// `model` is RM's evaluation of q *without* its top-level ORDER BY/LIMIT applied
/// when `top` carries them: admissible results are characterised per tie group.
pub fn check_result(db: &Db, q: &Query, names: &[String], types: &[String], rows: &[Row]) -> Result<Option<Mismatch>, RmErr> {
    // evaluate the query without the top-level limit/offset (keep order_by)
    let mut q0 = q.clone();
    q0.limit = None;
    q0.offset = None;
    let full = eval_query(db, &q0)?;
    if full.cols.len() != names.len() {
        return Ok(Some(Mismatch::Arity(format!("expected {} columns, got {}", full.cols.len(), names.len()))));
    }
    for (i, c) in full.cols.iter().enumerate() {
        if let Some(n) = &c.name {
            if n != &names[i] {
                return Ok(Some(Mismatch::Name(format!("column {} expected name {:?}, got {:?}", i + 1, n, names[i]))));
            }
        }
        if let Some(t) = c.ty.engine_name() {
            if t != types[i] {
                return Ok(Some(Mismatch::Type(format!("column {} expected type {}, got {}", i + 1, t, types[i]))));
            }
        }
    }
    for r in rows {
        if r.len() != full.cols.len() {
            return Ok(Some(Mismatch::Arity(format!("row with {} values, schema has {}", r.len(), full.cols.len()))));
        }
    }
    let off = q.offset.unwrap_or(0) as usize;
    let lim = q.limit.map(|l| l as usize).unwrap_or(usize::MAX);
    let n = full.rows.len();
    let want = n.saturating_sub(off).min(lim);
    if rows.len() != want {
        return Ok(Some(Mismatch::Rows(format!("expected {} rows, got {}; model(full)={} engine={}", want, rows.len(), crate::val::fmt_rows(&full.rows, 12), crate::val::fmt_rows(rows, 12)))));
    }
    if q.order_by.is_empty() {
        let ok = if q.limit.is_some() || q.offset.is_some() { sub_multiset(rows, &full.rows) } else { bag_eq(rows, &full.rows) };
        if !ok {
            return Ok(Some(Mismatch::Rows(format!("model={} engine={}", crate::val::fmt_rows(&full.rows, 12), crate::val::fmt_rows(rows, 12)))));
        }
        return Ok(None);
    }
    // ordered: engine rows must be sorted by the keys
    for w in rows.windows(2) {
        if cmp_rows_by(&w[0], &w[1], &q.order_by)? == Ordering::Greater {
            return Ok(Some(Mismatch::Order(format!("adjacent rows out of order: {} then {}", crate::val::fmt_row(&w[0]), crate::val::fmt_row(&w[1])))));
        }
    }
    // window of the sorted model rows
    let window: Vec<Row> = full.rows.iter().skip(off).take(lim).cloned().collect();
    // per tie group: count in engine == count in window; engine rows of that key are a
    // sub-multiset of the model rows with that key
    let mut i = 0;
    while i < window.len() {
        let mut j = i + 1;
        while j < window.len() && cmp_rows_by(&window[i], &window[j], &q.order_by)? == Ordering::Equal {
            j += 1;
        }
        // engine rows i..j must have the same key
        for k in i..j {
            if cmp_rows_by(&rows[k], &window[i], &q.order_by)? != Ordering::Equal {
                return Ok(Some(Mismatch::Rows(format!("position {} expected key of {}, got {}", k, crate::val::fmt_row(&window[i]), crate::val::fmt_row(&rows[k])))));
            }
        }
        let model_group: Vec<Row> = full.rows.iter().filter(|r| cmp_rows_by(r, &window[i], &q.order_by).map(|o| o == Ordering::Equal).unwrap_or(false)).cloned().collect();
        if !sub_multiset(&rows[i..j], &model_group) {
            return Ok(Some(Mismatch::Rows(format!("rows of tie group differ: model group={} engine={}", crate::val::fmt_rows(&model_group, 12), crate::val::fmt_rows(&rows[i..j], 12)))));
        }
        i = j;
    }
    Ok(None)
}

#[cfg(test)]
mod tests {
    use super::*;

    fn db() -> Db {
        let mut db = Db::default();
        db.add_table(
            "t",
            &[("a", Ty::Int32), ("b", Ty::Int32)],
            vec![vec![Val::Int(1), Val::Int(1)], vec![Val::Int(2), Val::Int(3)], vec![Val::Null, Val::Null], vec![Val::Int(1), Val::Int(3)]],
        );
        db
    }

    #[test]
    fn count_bug() {
        // select a, (select count(*) from t t2 where t2.a = t.a) from t
        let sub = Query::of(Select {
            distinct: false,
            items: vec![Item::Expr(E::Agg { f: AggF::CountStar, arg: None, distinct: false, filter: None }, None)],
            from: Some(table_as("t", "t2")),
            where_: Some(bin(Op::Eq, qcol("t2", "a"), qcol("t", "a"))),
            group_by: GroupBy::None,
            having: None,
        });
        let q = Query::of(Select { distinct: false, items: vec![Item::Expr(col("a"), None), Item::Expr(E::Scalar(Box::new(sub)), None)], from: Some(table("t")), where_: None, group_by: GroupBy::None, having: None });
        let r = eval_query(&db(), &q).unwrap();
        assert_eq!(r.rows[2], vec![Val::Null, Val::Int(0)]);
        assert_eq!(r.rows[0], vec![Val::Int(1), Val::Int(2)]);
    }

    #[test]
    fn not_in_null() {
        // select a from t where a not in (select b from t) -> empty since b has NULL
        let sub = Query::of(Select { distinct: false, items: vec![Item::Expr(col("b"), None)], from: Some(table_as("t", "t2")), where_: None, group_by: GroupBy::None, having: None });
        let q = Query::of(Select { distinct: false, items: vec![Item::Expr(col("a"), None)], from: Some(table("t")), where_: Some(E::InQ(Box::new(col("a")), Box::new(sub), true)), group_by: GroupBy::None, having: None });
        assert!(eval_query(&db(), &q).unwrap().rows.is_empty());
    }

    #[test]
    fn left_join_and_group() {
        let f = From::Join { kind: JoinKind::Left, l: Box::new(table_as("t", "l")), r: Box::new(table_as("t", "r")), on: Some(bin(Op::Eq, qcol("l", "a"), qcol("r", "b"))), using: vec![], natural: false, comma: false };
        let q = Query::of(Select::star(f));
        let r = eval_query(&db(), &q).unwrap();
        assert_eq!(r.rows.len(), 4); // (1,1)x(1,1) ; (1,3)x(1,1) ; 2 unmatched ; null unmatched
        let q2 = Query::of(Select {
            distinct: false,
            items: vec![Item::Expr(col("a"), None), Item::Expr(E::Agg { f: AggF::Sum, arg: Some(Box::new(col("b"))), distinct: false, filter: None }, None)],
            from: Some(table("t")),
            where_: None,
            group_by: GroupBy::Plain(vec![col("a")]),
            having: None,
        });
        let r2 = eval_query(&db(), &q2).unwrap();
        assert_eq!(r2.rows.len(), 3);
        assert!(r2.rows.contains(&vec![Val::Int(1), Val::Int(4)]));
        assert!(r2.rows.contains(&vec![Val::Null, Val::Null]));
    }
}
