//! Evidence, known findings, reporting, replay artefacts, parallel shard runner.
use std::collections::{BTreeMap, BTreeSet};
use std::fs;
use std::path::PathBuf;
use std::sync::atomic::{AtomicUsize, Ordering};
use std::time::Instant;

use serde_json::{Map, Value, json};

pub fn verif_root() -> PathBuf {
    std::env::var("VERIF_ROOT").map(PathBuf::from).unwrap_or_else(|_| PathBuf::from("/verif"))
}

#[derive(Clone, Copy, Debug, PartialEq, Eq)]
pub enum Tier {
    Quick,
    Thorough,
}

impl Tier {
    pub fn name(&self) -> &'static str {
        match self {
            Tier::Quick => "quick",
            Tier::Thorough => "thorough",
        }
    }
    pub fn is_thorough(&self) -> bool {
        *self == Tier::Thorough
    }
}

pub fn seed() -> u64 {
    std::env::var("VERIF_SEED").ok().and_then(|s| s.parse::<i64>().ok()).map(|x| x as u64).unwrap_or(0)
}

pub fn threads() -> usize {
    std::env::var("VERIF_THREADS").ok().and_then(|s| s.parse().ok()).unwrap_or_else(|| {
        std::thread::available_parallelism().map(|n| n.get()).unwrap_or(8).min(16)
    })
}

// ------------------------------------------------------------------ findings

#[derive(Clone, Debug)]
pub struct Finding {
    pub property: String,
    pub key: String,
    pub status: String,
    pub note: String,
}

pub struct Findings {
    pub list: Vec<Finding>,
}

impl Findings {
    pub fn load() -> Findings {
        let p = verif_root().join("known_findings.jsonl");
        let mut list = Vec::new();
        if let Ok(s) = fs::read_to_string(&p) {
            for line in s.lines() {
                let line = line.trim();
                if line.is_empty() || line.starts_with('#') {
                    continue;
                }
                if let Ok(v) = serde_json::from_str::<Value>(line) {
                    list.push(Finding {
                        property: v["property"].as_str().unwrap_or("").to_string(),
                        key: v["key"].as_str().unwrap_or("").to_string(),
                        status: v["status"].as_str().unwrap_or("known").to_string(),
                        note: v["note"].as_str().unwrap_or("").to_string(),
                    });
                }
            }
        }
        Findings { list }
    }
    /// A key matches a listed finding if it is equal to it, or the listed key
    /// ends with '*' and is a prefix. Only status=known suppresses.
    pub fn is_known(&self, property: &str, key: &str) -> Option<&Finding> {
        self.list.iter().find(|f| {
            f.status == "known" && f.property == property && wild_match(&f.key, key)
        })
    }
}

/// `*` in the pattern matches any (possibly empty) substring.
pub fn wild_match(pat: &str, s: &str) -> bool {
    let parts: Vec<&str> = pat.split('*').collect();
    if parts.len() == 1 {
        return pat == s;
    }
    let mut pos = 0usize;
    for (i, p) in parts.iter().enumerate() {
        if i == 0 {
            if !s.starts_with(p) {
                return false;
            }
            pos = p.len();
        } else if i == parts.len() - 1 {
            return s.len() >= pos + p.len() && s[pos..].ends_with(p);
        } else {
            match s[pos..].find(p) {
                Some(k) => pos += k + p.len(),
                None => return false,
            }
        }
    }
    true
}

// ------------------------------------------------------------------ replay artefact

#[derive(Clone, Debug, Default)]
pub struct Replay {
    pub property: String,
    pub check: String,
    pub key: String,
    /// files to place in VerifFs: path -> bytes
    pub files: Vec<(String, Vec<u8>)>,
    /// read-answer script: (read index, kind, arg) kind in full|short|pending|err
    pub script: Vec<(usize, String, usize)>,
    /// statements: (session, sql). All but the last are setup.
    pub steps: Vec<(usize, String)>,
    /// schedule for the last statement (actor per step), if not sequential
    pub schedule: Option<Vec<u16>>,
    pub expected: String,
    pub observed: String,
    pub note: String,
}

impl Replay {
    pub fn to_json(&self) -> Value {
        json!({
            "property": self.property,
            "check": self.check,
            "key": self.key,
            "files": self.files.iter().map(|(p,b)| json!({"path":p,"hex":crate::val::hex(b)})).collect::<Vec<_>>(),
            "script": self.script.iter().map(|(i,k,a)| json!([i,k,a])).collect::<Vec<_>>(),
            "steps": self.steps.iter().map(|(s,q)| json!({"session":s,"sql":q})).collect::<Vec<_>>(),
            "schedule": self.schedule,
            "expected": self.expected,
            "observed": self.observed,
            "note": self.note,
            "how_to_replay": "/verif/bin/vcheck replay <this file>",
        })
    }
    pub fn from_json(v: &Value) -> Replay {
        Replay {
            property: v["property"].as_str().unwrap_or("").into(),
            check: v["check"].as_str().unwrap_or("").into(),
            key: v["key"].as_str().unwrap_or("").into(),
            files: v["files"].as_array().map(|a| a.iter().map(|f| (f["path"].as_str().unwrap_or("").to_string(), crate::val::unhex(f["hex"].as_str().unwrap_or("")))).collect()).unwrap_or_default(),
            script: v["script"].as_array().map(|a| a.iter().map(|e| (e[0].as_u64().unwrap_or(0) as usize, e[1].as_str().unwrap_or("full").to_string(), e[2].as_u64().unwrap_or(0) as usize)).collect()).unwrap_or_default(),
            steps: v["steps"].as_array().map(|a| a.iter().map(|s| (s["session"].as_u64().unwrap_or(0) as usize, s["sql"].as_str().unwrap_or("").to_string())).collect()).unwrap_or_default(),
            schedule: v["schedule"].as_array().map(|a| a.iter().map(|x| x.as_u64().unwrap_or(0) as u16).collect()),
            expected: v["expected"].as_str().unwrap_or("").into(),
            observed: v["observed"].as_str().unwrap_or("").into(),
            note: v["note"].as_str().unwrap_or("").into(),
        }
    }
}

fn fnv(s: &str) -> u64 {
    let mut h: u64 = 0xcbf29ce484222325;
    for b in s.bytes() {
        h ^= b as u64;
        h = h.wrapping_mul(0x100000001b3);
    }
    h
}

// ------------------------------------------------------------------ reporter

#[derive(Clone, Debug)]
pub struct Failure {
    pub key: String,
    pub replay: Replay,
}

/// Collects failures of one check run, decides the exit code, writes evidence.
pub struct Report {
    pub property: String,
    pub tier: Tier,
    pub level: &'static str,
    pub start: Instant,
    pub failures: Vec<Failure>,
    pub coverage: Map<String, Value>,
    pub assumptions: Vec<String>,
    pub machinery_errors: Vec<String>,
}

impl Report {
    pub fn new(property: &str, tier: Tier, level: &'static str) -> Report {
        Report {
            property: property.to_string(),
            tier,
            level,
            start: Instant::now(),
            failures: Vec::new(),
            coverage: Map::new(),
            assumptions: vec![
                "harness build profile: opt-level 3 + debug-assertions + overflow-checks, --cfg glaredb_verif".into(),
                "engine driven through the public SQL entry point with the harness as PipelineRuntime and FileSystem".into(),
            ],
            machinery_errors: Vec::new(),
        }
    }
    pub fn fail(&mut self, key: String, replay: Replay) {
        self.failures.push(Failure { key, replay });
    }
    pub fn extend(&mut self, f: Vec<Failure>) {
        self.failures.extend(f);
    }
    pub fn cov(&mut self, k: &str, v: Value) {
        self.coverage.insert(k.to_string(), v);
    }
    pub fn add_count(&mut self, k: &str, n: u64) {
        let cur = self.coverage.get(k).and_then(|v| v.as_u64()).unwrap_or(0);
        self.coverage.insert(k.to_string(), json!(cur + n));
    }
    pub fn assume(&mut self, s: &str) {
        self.assumptions.push(s.to_string());
    }

    /// Print verdict lines, write evidence, return exit code.
    pub fn finish(mut self) -> i32 {
        let findings = Findings::load();
        let mut by_key: BTreeMap<String, Vec<&Failure>> = BTreeMap::new();
        for f in &self.failures {
            by_key.entry(f.key.clone()).or_default().push(f);
        }
        if let Ok(p) = std::env::var("VERIF_DUMP_KEYS") {
            let mut t = String::new();
            for (k, v) in &by_key {
                t.push_str(&format!("{}\t{}\t{}\n", v.len(), k, one_line(&v[0].replay.observed, 200)));
            }
            let _ = fs::write(p, t);
        }
        let mut known_hit: Vec<String> = Vec::new();
        let mut violations = 0usize;
        let dir = verif_root().join("replays").join(&self.property);
        let _ = fs::create_dir_all(&dir);
        for (key, fs_) in &by_key {
            let first = fs_[0];
            let summary = format!(
                "{} :: {} :: observed {} (expected {}) [{} cases]",
                key,
                first.replay.steps.last().map(|s| s.1.as_str()).unwrap_or(first.replay.note.as_str()),
                first.replay.observed,
                first.replay.expected,
                fs_.len()
            );
            if findings.is_known(&self.property, key).is_some() {
                println!("KNOWN-FINDING: property={} {}", self.property, one_line(&summary, 400));
                known_hit.push(key.clone());
            } else {
                violations += 1;
                let path = dir.join(format!("{:016x}.json", fnv(&format!("{}|{}", key, first.replay.steps.last().map(|s| s.1.as_str()).unwrap_or("")))));
                let mut r = first.replay.clone();
                r.property = self.property.clone();
                r.key = key.clone();
                let _ = fs::write(&path, serde_json::to_string_pretty(&r.to_json()).unwrap());
                if violations <= 40 {
                    println!("VIOLATION property={} replay={}", self.property, path.display());
                    println!("  detail: {}", one_line(&summary, 600));
                }
            }
        }
        if violations > 40 {
            println!("  ... {} distinct violation keys in total (first 40 shown)", violations);
        }
        for m in &self.machinery_errors {
            println!("BROKEN-HARNESS property={} {}", self.property, one_line(m, 400));
        }
        let wall = self.start.elapsed().as_secs_f64();
        self.coverage.insert("known_findings_matched".into(), json!(known_hit));
        // listed findings of this property that nothing in this run matched (information for maintenance
        // of known_findings.jsonl; a tier may simply not reach them)
        let unmatched: Vec<String> = findings.list.iter().filter(|f| f.status == "known" && f.property == self.property && !by_key.keys().any(|k| wild_match(&f.key, k))).map(|f| f.key.clone()).collect();
        self.coverage.insert("known_patterns_unmatched_in_this_run".into(), json!(unmatched));
        self.coverage.insert("failing_cases_total".into(), json!(self.failures.len()));
        self.coverage.insert("distinct_failure_keys".into(), json!(by_key.len()));
        let ev = json!({
            "property_id": self.property,
            "tier": self.tier.name(),
            "seed": seed() as i64,
            "level": self.level,
            "coverage": Value::Object(self.coverage.clone()),
            "assumptions": self.assumptions,
            "wall_s": wall,
            "violations": violations,
        });
        let evdir = verif_root().join("evidence");
        let _ = fs::create_dir_all(&evdir);
        let evp = evdir.join(format!("{}.json", self.property));
        if !self.machinery_errors.is_empty() {
            // machinery failure: never presented as a verdict
            let _ = fs::write(&evp, serde_json::to_string_pretty(&ev).unwrap());
            return 2;
        }
        fs::write(&evp, serde_json::to_string_pretty(&ev).unwrap()).expect("write evidence");
        println!(
            "{} {}: {} in {:.1}s; violations={} known_findings={} evidence={}",
            self.property,
            self.tier.name(),
            if violations == 0 { "HELD on everything explored" } else { "VIOLATED" },
            wall,
            violations,
            known_hit.len(),
            evp.display()
        );
        if violations > 0 { 1 } else { 0 }
    }
}

pub fn one_line(s: &str, max: usize) -> String {
    let mut t: String = s.chars().map(|c| if c == '\n' || c == '\r' { ' ' } else { c }).collect();
    if t.chars().count() > max {
        t = t.chars().take(max).collect::<String>() + "...";
    }
    t
}

/// First line of a message with digit runs replaced by N, max 60 chars.
pub fn msg_template(msg: &str) -> String {
    let mut m = String::new();
    let mut last_digit = false;
    for c in msg.lines().next().unwrap_or("").chars().take(60) {
        if c.is_ascii_digit() {
            if !last_digit {
                m.push('N');
            }
            last_digit = true;
        } else {
            m.push(if c == '|' { '/' } else { c });
            last_digit = false;
        }
    }
    m
}

/// Turn a panic location + message into a stable class string.
pub fn panic_class(loc: &str, msg: &str) -> String {
    // strip numbers from the message so that index values do not split keys
    let mut m = String::new();
    let mut last_digit = false;
    for c in msg.lines().next().unwrap_or("").chars().take(80) {
        if c.is_ascii_digit() {
            if !last_digit {
                m.push('N');
            }
            last_digit = true;
        } else {
            m.push(c);
            last_digit = false;
        }
    }
    // drop line number (robust to unrelated edits in the file)
    let file = loc.rsplit_once(':').map(|x| x.0).unwrap_or(loc);
    format!("panic:{file}:{m}")
}

// ------------------------------------------------------------------ parallel runner

/// Run `f(state, item_index)` for every index in 0..n on `threads` worker
/// threads, each with its own state made by `mk`. Results are returned in index
/// order. Deterministic regardless of thread count as long as f is a function of
/// (fresh-enough state, index).
pub fn par_run<S, R, MK, F>(n: usize, mk: MK, f: F) -> Vec<R>
where
    R: Send,
    MK: Fn() -> S + Sync,
    F: Fn(&mut S, usize) -> R + Sync,
{
    let nthreads = threads().min(n.max(1));
    let next = AtomicUsize::new(0);
    let rot = (seed() as usize) % n.max(1);
    let mut out: Vec<Option<R>> = (0..n).map(|_| None).collect();
    let results: Vec<Vec<(usize, R)>> = std::thread::scope(|sc| {
        let mut hs = Vec::new();
        for _ in 0..nthreads {
            let next = &next;
            let mk = &mk;
            let f = &f;
            hs.push(
                std::thread::Builder::new()
                    .stack_size(256 << 20)
                    .spawn_scoped(sc, move || {
                        crate::drv::set_quiet(true);
                        let mut st = mk();
                        let mut local = Vec::new();
                        loop {
                            let k = next.fetch_add(1, Ordering::SeqCst);
                            if k >= n {
                                break;
                            }
                            // the seed only rotates the visiting order
                            let i = (k + rot) % n;
                            local.push((i, f(&mut st, i)));
                        }
                        local
                    })
                    .unwrap(),
            );
        }
        hs.into_iter()
            .map(|h| match h.join() {
                Ok(v) => v,
                Err(e) => {
                    let msg = e.downcast_ref::<String>().cloned().or_else(|| e.downcast_ref::<&str>().map(|s| s.to_string())).unwrap_or_default();
                    eprintln!("BROKEN-HARNESS: worker thread died: {msg}");
                    std::process::exit(2);
                }
            })
            .collect()
    });
    for v in results {
        for (i, r) in v {
            out[i] = Some(r);
        }
    }
    out.into_iter().map(|x| x.unwrap()).collect()
}

/// Pick up to 3 representative samples (first, middle, last).
pub fn samples<T: Clone>(v: &[T]) -> Vec<T> {
    let mut idx = BTreeSet::new();
    if !v.is_empty() {
        idx.insert(0);
        idx.insert(v.len() / 2);
        idx.insert(v.len() - 1);
    }
    idx.into_iter().map(|i| v[i].clone()).collect()
}
