//! Driver: a GlareDB engine whose scheduler and filesystem are the harness.
use std::cell::RefCell;
use std::future::Future;
use std::panic::{AssertUnwindSafe, catch_unwind};
use std::pin::Pin;
use std::sync::Arc;
use std::sync::atomic::{AtomicBool, AtomicUsize, Ordering};
use std::task::{Context, Poll, Wake, Waker};
use std::time::Duration;

use glaredb_core::arrays::batch::Batch;
use glaredb_core::arrays::field::ColumnSchema;
use glaredb_core::engine::Engine;
use glaredb_core::engine::session::Session;
use glaredb_core::engine::single_user::SingleUserEngine;
use glaredb_core::execution::partition_pipeline::ExecutablePartitionPipeline;
use glaredb_core::runtime::filesystem::dispatch::FileSystemDispatch;
use glaredb_core::runtime::pipeline::{ErrorSink, PipelineRuntime, QueryHandle};
use glaredb_core::runtime::profile_buffer::{ProfileBuffer, ProfileSink};
use glaredb_core::runtime::system::SystemRuntime;
use glaredb_core::runtime::time::RuntimeInstant;
use glaredb_error::DbError;
use parking_lot::Mutex;

use crate::val::{Row, Val, from_scalar};
use crate::vfs::VerifFs;

// ---------------------------------------------------------------- panic capture

thread_local! {
    static LAST_PANIC: RefCell<Option<(String, String)>> = const { RefCell::new(None) };
    static QUIET: RefCell<bool> = const { RefCell::new(false) };
}

pub fn install_panic_hook() {
    static ONCE: std::sync::Once = std::sync::Once::new();
    ONCE.call_once(|| {
        let prev = std::panic::take_hook();
        std::panic::set_hook(Box::new(move |info| {
            let loc = info
                .location()
                .map(|l| format!("{}:{}", l.file(), l.line()))
                .unwrap_or_else(|| "?".into());
            let msg = if let Some(s) = info.payload().downcast_ref::<&str>() {
                s.to_string()
            } else if let Some(s) = info.payload().downcast_ref::<String>() {
                s.clone()
            } else {
                "<non-string panic>".into()
            };
            let quiet = QUIET.with(|q| *q.borrow());
            LAST_PANIC.with(|p| *p.borrow_mut() = Some((loc, msg)));
            if !quiet {
                prev(info);
            }
        }));
    });
}

pub fn set_quiet(q: bool) {
    QUIET.with(|x| *x.borrow_mut() = q);
}

pub fn take_panic_pub() -> (String, String) {
    take_panic()
}

fn take_panic() -> (String, String) {
    LAST_PANIC
        .with(|p| p.borrow_mut().take())
        .unwrap_or_else(|| ("?".into(), "?".into()))
}

/// Shorten a source path to start at `crates/` so keys are stable.
pub fn short_loc(loc: &str) -> String {
    match loc.find("crates/") {
        Some(i) => loc[i..].to_string(),
        None => match loc.find("/rustc/") {
            Some(_) => format!("std:{}", loc.rsplit('/').next().unwrap_or(loc)),
            None => loc.to_string(),
        },
    }
}

// ---------------------------------------------------------------- runtime impls

#[derive(Debug, Clone, Copy)]
pub struct VInstant;
impl RuntimeInstant for VInstant {
    fn now() -> Self {
        VInstant
    }
    fn duration_since(&self, _earlier: Self) -> Duration {
        Duration::ZERO
    }
}

#[derive(Debug, Clone)]
pub struct VerifRuntime {
    dispatch: Arc<FileSystemDispatch>,
}

impl VerifRuntime {
    pub fn for_fs(fs: VerifFs) -> VerifRuntime {
        let mut dispatch = FileSystemDispatch::empty();
        dispatch.register_filesystem(fs);
        VerifRuntime { dispatch: Arc::new(dispatch) }
    }
}

impl SystemRuntime for VerifRuntime {
    type Instant = VInstant;
    fn filesystem_dispatch(&self) -> &FileSystemDispatch {
        &self.dispatch
    }
}

#[derive(Debug)]
pub struct VQueryHandle {
    profiles: ProfileBuffer,
    pub canceled: AtomicBool,
}

impl QueryHandle for VQueryHandle {
    fn cancel(&self) {
        self.canceled.store(true, Ordering::SeqCst);
    }
    fn get_profile_buffer(&self) -> &ProfileBuffer {
        &self.profiles
    }
}

pub struct Spawned {
    pub pipelines: Vec<ExecutablePartitionPipeline>,
    pub sinks: Vec<ProfileSink>,
    pub errors: Arc<dyn ErrorSink>,
    pub handle: Arc<VQueryHandle>,
}

#[derive(Clone)]
pub struct VerifExecutor {
    spawned: Arc<Mutex<Vec<Spawned>>>,
    default_partitions: usize,
}

impl std::fmt::Debug for VerifExecutor {
    fn fmt(&self, f: &mut std::fmt::Formatter<'_>) -> std::fmt::Result {
        write!(f, "VerifExecutor")
    }
}

impl PipelineRuntime for VerifExecutor {
    fn default_partitions(&self) -> usize {
        self.default_partitions
    }
    fn spawn_pipelines(
        &self,
        pipelines: Vec<ExecutablePartitionPipeline>,
        errors: Arc<dyn ErrorSink>,
    ) -> Arc<dyn QueryHandle> {
        let (profiles, sinks) = ProfileBuffer::new(pipelines.len());
        let sinks: Vec<ProfileSink> = sinks.into_iter().collect();
        let handle = Arc::new(VQueryHandle { profiles, canceled: AtomicBool::new(false) });
        self.spawned.lock().push(Spawned { pipelines, sinks, errors, handle: handle.clone() });
        handle
    }
}

// ---------------------------------------------------------------- outcomes

#[derive(Clone, Debug, PartialEq, Eq)]
pub struct RowsOut {
    pub names: Vec<String>,
    /// announced types (output_schema), rendered
    pub types: Vec<String>,
    pub rows: Vec<Row>,
    /// per returned batch: rendered `Array::datatype()` of each array
    pub batch_types: Vec<Vec<String>>,
    /// per column: set of value variant tags seen (non-null)
    pub val_tags: Vec<Vec<String>>,
    pub batch_sizes: Vec<usize>,
}

#[derive(Clone, Copy, Debug, PartialEq, Eq, Hash)]
pub enum Phase {
    /// error before any pipeline was spawned (parse/bind/plan)
    Plan,
    /// error after pipelines were spawned (run time)
    Exec,
}

#[derive(Clone, Debug, PartialEq, Eq)]
pub enum Outcome {
    Rows(RowsOut),
    Error { phase: Phase, msg: String },
    Panic { loc: String, msg: String },
    /// no enabled actor while the client has not finished / step horizon / wall limit
    Hang { detail: String },
    /// the statement killed the process (stack overflow, allocation failure, abort)
    Abort { detail: String },
}

impl Outcome {
    pub fn class(&self) -> &'static str {
        match self {
            Outcome::Rows(_) => "rows",
            Outcome::Error { phase: Phase::Plan, .. } => "error-plan",
            Outcome::Error { phase: Phase::Exec, .. } => "error-exec",
            Outcome::Panic { .. } => "panic",
            Outcome::Hang { .. } => "hang",
            Outcome::Abort { .. } => "abort",
        }
    }
    pub fn is_rows(&self) -> bool {
        matches!(self, Outcome::Rows(_))
    }
    pub fn is_error(&self) -> bool {
        matches!(self, Outcome::Error { .. })
    }
    pub fn rows(&self) -> Option<&RowsOut> {
        match self {
            Outcome::Rows(r) => Some(r),
            _ => None,
        }
    }
    pub fn brief(&self) -> String {
        match self {
            Outcome::Rows(r) => format!(
                "rows names={:?} types={:?} {}",
                r.names,
                r.types,
                crate::val::fmt_rows(&r.rows, 12)
            ),
            Outcome::Error { phase, msg } => {
                format!("error({phase:?}): {}", msg.lines().next().unwrap_or(""))
            }
            Outcome::Panic { loc, msg } => {
                format!("PANIC at {loc}: {}", msg.lines().next().unwrap_or(""))
            }
            Outcome::Hang { detail } => format!("HANG: {detail}"),
            Outcome::Abort { detail } => format!("ABORT: {detail}"),
        }
    }
    pub fn not_implemented(&self) -> bool {
        match self {
            Outcome::Error { msg, .. } => {
                let m = msg.to_ascii_lowercase();
                m.contains("not implemented") || m.contains("not yet implemented") || m.contains("unimplemented") || m.contains("not supported") || m.contains("unsupported")
            }
            _ => false,
        }
    }
}

// ---------------------------------------------------------------- scheduling

/// What the scheduler sees at each step.
pub struct PickCtx<'a> {
    /// actors that are woken and not done, ascending; actor 0 is the client
    pub enabled: &'a [usize],
    /// actors that exist, are not done and are parked (not woken)
    pub parked: &'a [usize],
    pub step: usize,
}

pub trait Sched {
    /// Return the actor to poll next. Must be a member of enabled or parked
    /// (parked => spurious wake).
    fn pick(&mut self, cx: &PickCtx<'_>) -> usize;
}

/// Default schedule: lowest-index enabled task first, client last.
pub struct Sequential;
impl Sched for Sequential {
    fn pick(&mut self, cx: &PickCtx<'_>) -> usize {
        default_pick(cx.enabled)
    }
}

pub fn default_pick(enabled: &[usize]) -> usize {
    for &a in enabled {
        if a != 0 {
            return a;
        }
    }
    0
}

struct WakeFlag {
    woken: AtomicBool,
    count: AtomicUsize,
}
impl Wake for WakeFlag {
    fn wake(self: Arc<Self>) {
        self.woken.store(true, Ordering::SeqCst);
        self.count.fetch_add(1, Ordering::SeqCst);
    }
    fn wake_by_ref(self: &Arc<Self>) {
        self.woken.store(true, Ordering::SeqCst);
        self.count.fetch_add(1, Ordering::SeqCst);
    }
}

struct Task {
    pipeline: ExecutablePartitionPipeline,
    sink: Option<ProfileSink>,
    errors: Arc<dyn ErrorSink>,
    handle: Arc<VQueryHandle>,
    flag: Arc<WakeFlag>,
    done: bool,
    polls: usize,
}

#[derive(Clone, Debug, Default)]
pub struct RunStats {
    pub steps: usize,
    pub n_tasks: usize,
    /// actor chosen at each step
    pub trace: Vec<u16>,
    /// per step: number of enabled actors
    pub widths: Vec<u8>,
    /// per step: poll result class (P pending, D done, E error, R client ready)
    pub events: Vec<u8>,
    /// tasks that returned Err at least once
    pub task_errors: usize,
    /// a task that had returned Ready(Ok) was polled again (only possible by duplicate-wake deviation)
    pub repoll_done: usize,
    pub drained_steps: usize,
}

pub struct RunResult {
    pub outcome: Outcome,
    pub stats: RunStats,
}

type ClientOut = Result<(ColumnSchema, Vec<Batch>), DbError>;

pub struct Driver {
    pub sue: SingleUserEngine<VerifExecutor, VerifRuntime>,
    extra: Vec<Arc<futures::lock::Mutex<Session<VerifExecutor, VerifRuntime>>>>,
    pub fs: VerifFs,
    exec: VerifExecutor,
    pub horizon: usize,
    /// set after a panic: engine state may be inconsistent; rebuild.
    pub dirty: bool,
    pub queries_run: usize,
    /// hash of the SET / RESET statements executed so far (part of the supervisor's statement key)
    pub cfg_hash: u64,
}

impl Driver {
    pub fn new() -> Driver {
        Self::with_fs(VerifFs::new())
    }

    pub fn with_fs(fs: VerifFs) -> Driver {
        install_panic_hook();
        let mut dispatch = FileSystemDispatch::empty();
        dispatch.register_filesystem(fs.clone());
        let rt = VerifRuntime { dispatch: Arc::new(dispatch) };
        let exec = VerifExecutor { spawned: Arc::new(Mutex::new(Vec::new())), default_partitions: 1 };
        let sue = SingleUserEngine::try_new(exec.clone(), rt).expect("engine");
        sue.register_extension(glaredb_ext_csv::extension::CsvExtension).expect("csv ext");
        sue.register_extension(glaredb_ext_parquet::extension::ParquetExtension).expect("parquet ext");
        Driver { sue, extra: Vec::new(), fs, exec, horizon: 200_000, dirty: false, queries_run: 0, cfg_hash: 0 }
    }

    pub fn engine(&self) -> &Engine<VerifExecutor, VerifRuntime> {
        &self.sue.engine
    }

    /// Create an additional session on the same engine; returns its index (>=1).
    pub fn new_session(&mut self) -> usize {
        let s = self.sue.engine.new_session().expect("session");
        self.extra.push(Arc::new(futures::lock::Mutex::new(s)));
        self.extra.len()
    }

    fn client_future(
        &self,
        sess: usize,
        sql: &str,
        phase: Arc<AtomicUsize>,
    ) -> Pin<Box<dyn Future<Output = ClientOut>>> {
        let sql = sql.to_string();
        if sess == 0 {
            let s = self.sue.session().clone();
            Box::pin(async move {
                let mut r = s.query(&sql).await?;
                phase.store(1, Ordering::SeqCst);
                let schema = r.output_schema.clone();
                let batches = r.output.collect().await?;
                Ok((schema, batches))
            })
        } else {
            let s = self.extra[sess - 1].clone();
            Box::pin(async move {
                let mut stmts = glaredb_parser::parser::parse(&sql)?;
                if stmts.len() != 1 {
                    return Err(DbError::new(format!("Expected 1 statement, got {}", stmts.len())));
                }
                let stmt = stmts.pop().unwrap();
                let mut r = {
                    let mut g = s.lock().await;
                    g.prepare("", stmt)?;
                    g.bind("", "").await?;
                    g.execute("").await?
                };
                phase.store(1, Ordering::SeqCst);
                let schema = r.output_schema.clone();
                let batches = r.output.collect().await?;
                Ok((schema, batches))
            })
        }
    }

    pub fn q(&mut self, sql: &str) -> Outcome {
        self.run(0, sql, &mut Sequential).outcome
    }

    pub fn q_in(&mut self, sess: usize, sql: &str) -> Outcome {
        self.run(sess, sql, &mut Sequential).outcome
    }

    /// Run and expect success (setup statements).
    pub fn must(&mut self, sql: &str) -> RowsOut {
        match self.q(sql) {
            Outcome::Rows(r) => r,
            o => panic!("harness setup statement failed: {sql}: {}", o.brief()),
        }
    }

    /// Execute one statement under the given scheduler.
    pub fn run(&mut self, sess: usize, sql: &str, sched: &mut dyn Sched) -> RunResult {
        // the supervisor's key of a statement: its text, the files it can see and the session settings in effect
        let ctx = self.fs.state_hash() ^ self.cfg_hash;
        if let Some(kind) = crate::guard::skipped(sql, ctx) {
            let outcome = if kind == "abort" { Outcome::Abort { detail: "the statement killed the process in an earlier attempt of this run (recorded by the supervisor)".into() } } else { Outcome::Hang { detail: "wall limit exceeded inside a single poll in an earlier attempt of this run (recorded by the watchdog)".into() } };
            return RunResult { outcome, stats: RunStats::default() };
        }
        crate::guard::enter(sql, ctx);
        let r = self.run_inner(sess, sql, sched);
        crate::guard::leave();
        let head = sql.trim_start().get(..6).unwrap_or("").to_ascii_uppercase();
        if (head.starts_with("SET ") || head.starts_with("RESET")) && r.outcome.is_rows() {
            let mut h = self.cfg_hash ^ 0xcbf29ce484222325;
            for b in sql.bytes() {
                h ^= b as u64;
                h = h.wrapping_mul(0x100000001b3);
            }
            self.cfg_hash = h;
        }
        r
    }

    fn run_inner(&mut self, sess: usize, sql: &str, sched: &mut dyn Sched) -> RunResult {
        self.queries_run += 1;
        self.exec.spawned.lock().clear();
        let phase = Arc::new(AtomicUsize::new(0));
        let mut client: Option<Pin<Box<dyn Future<Output = ClientOut>>>>;
        let mut client_res: Option<ClientOut> = None;
        let client_flag = Arc::new(WakeFlag { woken: AtomicBool::new(true), count: AtomicUsize::new(0) });
        let mut tasks: Vec<Task> = Vec::new();
        let mut stats = RunStats::default();
        let mut spawned_any = false;

        // build the future inside catch_unwind (parse happens at first poll anyway)
        let built = catch_unwind(AssertUnwindSafe(|| self.client_future(sess, sql, phase.clone())));
        match built {
            Ok(f) => client = Some(f),
            Err(_) => {
                let (loc, msg) = take_panic();
                self.dirty = true;
                return RunResult { outcome: Outcome::Panic { loc: short_loc(&loc), msg }, stats };
            }
        }

        let mut enabled: Vec<usize> = Vec::new();
        let mut parked: Vec<usize> = Vec::new();
        let outcome: Outcome;
        loop {
            // I/O completions arrive between steps.
            self.fs.flush_pending();
            // adopt newly spawned pipelines as tasks
            {
                let mut sp = self.exec.spawned.lock();
                for s in sp.drain(..) {
                    spawned_any = true;
                    let Spawned { pipelines, sinks, errors, handle } = s;
                    for (p, sink) in pipelines.into_iter().zip(sinks) {
                        tasks.push(Task {
                            pipeline: p,
                            sink: Some(sink),
                            errors: errors.clone(),
                            handle: handle.clone(),
                            flag: Arc::new(WakeFlag { woken: AtomicBool::new(true), count: AtomicUsize::new(0) }),
                            done: false,
                            polls: 0,
                        });
                    }
                }
            }
            stats.n_tasks = tasks.len();

            enabled.clear();
            parked.clear();
            let client_done = client_res.is_some();
            if !client_done {
                if client_flag.woken.load(Ordering::SeqCst) { enabled.push(0) } else { parked.push(0) }
            }
            for (i, t) in tasks.iter().enumerate() {
                if t.done {
                    continue;
                }
                if t.flag.woken.load(Ordering::SeqCst) { enabled.push(i + 1) } else { parked.push(i + 1) }
            }

            if client_done {
                // drain: keep running woken tasks to quiescence like a pool would
                if enabled.is_empty() || stats.drained_steps > 10_000 {
                    outcome = self.finish(client_res.take().unwrap(), &phase, spawned_any);
                    break;
                }
                stats.drained_steps += 1;
            } else if enabled.is_empty() {
                let detail = format!(
                    "no enabled actor; client parked; {} tasks parked (indices {:?}) after {} steps",
                    parked.len().saturating_sub(1),
                    parked,
                    stats.steps
                );
                outcome = Outcome::Hang { detail };
                self.dirty = true;
                break;
            }
            if stats.steps >= self.horizon {
                outcome = Outcome::Hang { detail: format!("step horizon {} reached", self.horizon) };
                self.dirty = true;
                break;
            }

            let pick = if client_done {
                enabled[0]
            } else {
                sched.pick(&PickCtx { enabled: &enabled, parked: &parked, step: stats.steps })
            };
            stats.steps += 1;
            stats.trace.push(pick as u16);
            stats.widths.push(enabled.len().min(255) as u8);

            if pick == 0 {
                client_flag.woken.store(false, Ordering::SeqCst);
                let waker: Waker = client_flag.clone().into();
                let mut cx = Context::from_waker(&waker);
                let fut = client.as_mut().unwrap();
                let r = catch_unwind(AssertUnwindSafe(|| fut.as_mut().poll(&mut cx)));
                match r {
                    Ok(Poll::Ready(res)) => {
                        stats.events.push(b'R');
                        client_res = Some(res);
                        client = None;
                    }
                    Ok(Poll::Pending) => stats.events.push(b'p'),
                    Err(_) => {
                        let (loc, msg) = take_panic();
                        self.dirty = true;
                        outcome = Outcome::Panic { loc: short_loc(&loc), msg };
                        // leak the future: its state is mid-panic
                        std::mem::forget(client.take());
                        break;
                    }
                }
            } else {
                let t = &mut tasks[pick - 1];
                t.flag.woken.store(false, Ordering::SeqCst);
                if t.handle.canceled.load(Ordering::SeqCst) {
                    // mirrors TaskState::schedule on a canceled query
                    t.errors.set_error(DbError::new("Query canceled"));
                    stats.events.push(b'C');
                    continue;
                }
                if t.done {
                    stats.repoll_done += 1;
                }
                t.polls += 1;
                let waker: Waker = t.flag.clone().into();
                let mut cx = Context::from_waker(&waker);
                let r = catch_unwind(AssertUnwindSafe(|| t.pipeline.poll_execute::<VInstant>(&mut cx)));
                match r {
                    Ok(Poll::Ready(Ok(prof))) => {
                        stats.events.push(b'D');
                        if let Some(s) = t.sink.take() {
                            s.put(prof);
                        }
                        t.done = true;
                    }
                    Ok(Poll::Ready(Err(e))) => {
                        stats.events.push(b'E');
                        stats.task_errors += 1;
                        t.errors.set_error(e);
                    }
                    Ok(Poll::Pending) => stats.events.push(b'P'),
                    Err(_) => {
                        let (loc, msg) = take_panic();
                        self.dirty = true;
                        outcome = Outcome::Panic { loc: short_loc(&loc), msg };
                        std::mem::forget(client.take());
                        break;
                    }
                }
            }
        }
        // tasks may hold engine state; dropping them is what the pool does too
        let dropped = catch_unwind(AssertUnwindSafe(move || drop(tasks)));
        if dropped.is_err() {
            let _ = take_panic();
            self.dirty = true;
        }
        RunResult { outcome, stats }
    }

    fn finish(&mut self, res: ClientOut, phase: &AtomicUsize, spawned_any: bool) -> Outcome {
        match res {
            Ok((schema, batches)) => {
                let r = catch_unwind(AssertUnwindSafe(|| extract(&schema, &batches)));
                match r {
                    Ok(Ok(rows)) => Outcome::Rows(rows),
                    Ok(Err(e)) => Outcome::Error { phase: Phase::Exec, msg: format!("result extraction: {e}") },
                    Err(_) => {
                        let (loc, msg) = take_panic();
                        self.dirty = true;
                        Outcome::Panic { loc: short_loc(&loc), msg }
                    }
                }
            }
            Err(e) => {
                let ph = if phase.load(Ordering::SeqCst) == 0 && !spawned_any { Phase::Plan } else { Phase::Exec };
                Outcome::Error { phase: ph, msg: e.to_string() }
            }
        }
    }
}

pub fn extract(schema: &ColumnSchema, batches: &[Batch]) -> Result<RowsOut, DbError> {
    let names: Vec<String> = schema.fields.iter().map(|f| f.name.clone()).collect();
    let types: Vec<String> = schema.fields.iter().map(|f| f.datatype.to_string()).collect();
    let ncols = names.len();
    let mut rows = Vec::new();
    let mut batch_types = Vec::new();
    let mut batch_sizes = Vec::new();
    let mut val_tags: Vec<Vec<String>> = vec![Vec::new(); ncols];
    for b in batches {
        batch_types.push(b.arrays().iter().map(|a| a.datatype().to_string()).collect::<Vec<_>>());
        batch_sizes.push(b.num_rows());
        let ncb = b.arrays().len();
        for i in 0..b.num_rows() {
            let mut row: Vec<Val> = Vec::with_capacity(ncb);
            for (c, a) in b.arrays().iter().enumerate() {
                let sv = a.get_value(i)?;
                let (v, tag) = from_scalar(&sv);
                if !v.is_null() && c < ncols && !val_tags[c].contains(&tag) {
                    val_tags[c].push(tag);
                }
                row.push(v);
            }
            rows.push(row);
        }
    }
    Ok(RowsOut { names, types, rows, batch_types, val_tags, batch_sizes })
}

/// SQL string literal.
pub fn sql_str(s: &str) -> String {
    format!("'{}'", s.replace('\'', "''"))
}
