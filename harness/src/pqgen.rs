//! pqgen: an independent minimal Parquet writer, written from the format
//! specification (not from the repository's decoders). Metadata is serialised
//! with an own Thrift compact-protocol encoder; the engine reads it with its own
//! slice decoder, so the encode and decode paths are disjoint.
use crate::val::Val;

// ------------------------------------------------------------------ thrift compact protocol

#[derive(Default)]
pub struct Tw {
    pub buf: Vec<u8>,
    last: Vec<i16>,
    cur: i16,
    /// (field path, start, end) of every integer field value written
    pub marks: Vec<(String, usize, usize)>,
}

const T_TRUE: u8 = 1;
const T_FALSE: u8 = 2;
const T_I16: u8 = 4;
const T_I32: u8 = 5;
const T_I64: u8 = 6;
const T_BINARY: u8 = 8;
const T_LIST: u8 = 9;
const T_STRUCT: u8 = 12;

fn varint(buf: &mut Vec<u8>, mut v: u64) {
    loop {
        let b = (v & 0x7f) as u8;
        v >>= 7;
        if v == 0 {
            buf.push(b);
            break;
        }
        buf.push(b | 0x80);
    }
}

fn zigzag(v: i64) -> u64 {
    ((v << 1) ^ (v >> 63)) as u64
}

impl Tw {
    pub fn new() -> Tw {
        Tw::default()
    }
    fn field(&mut self, id: i16, ty: u8) {
        let delta = id - self.cur;
        if delta > 0 && delta <= 15 {
            self.buf.push(((delta as u8) << 4) | ty);
        } else {
            self.buf.push(ty);
            varint(&mut self.buf, zigzag(id as i64));
        }
        self.cur = id;
    }
    fn mark(&mut self, id: i16, start: usize) {
        let mut path: Vec<String> = self.last.iter().skip(1).map(|x| x.to_string()).collect();
        path.push(id.to_string());
        self.marks.push((path.join("."), start, self.buf.len()));
    }
    pub fn i32(&mut self, id: i16, v: i32) {
        self.field(id, T_I32);
        let st = self.buf.len();
        varint(&mut self.buf, zigzag(v as i64));
        self.mark(id, st);
    }
    pub fn i16(&mut self, id: i16, v: i16) {
        self.field(id, T_I16);
        let st = self.buf.len();
        varint(&mut self.buf, zigzag(v as i64));
        self.mark(id, st);
    }
    pub fn i64(&mut self, id: i16, v: i64) {
        self.field(id, T_I64);
        let st = self.buf.len();
        varint(&mut self.buf, zigzag(v));
        self.mark(id, st);
    }
    pub fn bool(&mut self, id: i16, v: bool) {
        self.field(id, if v { T_TRUE } else { T_FALSE });
    }
    pub fn binary(&mut self, id: i16, v: &[u8]) {
        self.field(id, T_BINARY);
        varint(&mut self.buf, v.len() as u64);
        self.buf.extend_from_slice(v);
    }
    pub fn struct_begin(&mut self, id: i16) {
        self.field(id, T_STRUCT);
        self.last.push(self.cur);
        self.cur = 0;
    }
    pub fn struct_end(&mut self) {
        self.buf.push(0);
        self.cur = self.last.pop().unwrap_or(0);
    }
    pub fn list_begin(&mut self, id: i16, elem: u8, n: usize) {
        self.field(id, T_LIST);
        if n < 15 {
            self.buf.push(((n as u8) << 4) | elem);
        } else {
            self.buf.push(0xF0 | elem);
            varint(&mut self.buf, n as u64);
        }
    }
    /// element of a list<struct>
    pub fn elem_struct_begin(&mut self) {
        self.last.push(self.cur);
        self.cur = 0;
    }
    pub fn elem_i32(&mut self, v: i32) {
        varint(&mut self.buf, zigzag(v as i64));
    }
    pub fn elem_binary(&mut self, v: &[u8]) {
        varint(&mut self.buf, v.len() as u64);
        self.buf.extend_from_slice(v);
    }
    pub fn end_root(&mut self) {
        self.buf.push(0);
    }
}

// ------------------------------------------------------------------ model of a file

#[derive(Clone, Copy, Debug, PartialEq, Eq)]
pub enum Phys {
    Boolean = 0,
    Int32 = 1,
    Int64 = 2,
    Float = 4,
    Double = 5,
    ByteArray = 6,
}

#[derive(Clone, Copy, Debug, PartialEq, Eq)]
pub enum Logical {
    None,
    Utf8,
    Int8,
    Int16,
    UInt8,
    UInt16,
    UInt32,
    UInt64,
    Date,
    Decimal(u32, u32),
    TimestampMillis,
    TimestampMicros,
}

#[derive(Clone, Copy, Debug, PartialEq, Eq)]
pub enum Enc {
    Plain,
    /// dictionary page + RLE_DICTIONARY data pages (or PLAIN_DICTIONARY ids when `old_dict_id`)
    Dict,
    /// RLE for booleans
    Rle,
    DeltaBinaryPacked,
    DeltaLengthByteArray,
    DeltaByteArray,
    ByteStreamSplit,
}

#[derive(Clone, Copy, Debug, PartialEq, Eq)]
pub enum Codec {
    None = 0,
    Snappy = 1,
    Gzip = 2,
    Zstd = 6,
}

#[derive(Clone, Copy, Debug, PartialEq, Eq)]
pub enum LevelMode {
    Rle,
    BitPacked,
    Mixed,
}

#[derive(Clone, Copy, Debug, PartialEq, Eq)]
pub enum StatsMode {
    Absent,
    Exact,
    /// min/max widened and flagged inexact
    Inexact,
    /// only the deprecated min/max fields
    DeprecatedOnly,
}

/// A physical value.
#[derive(Clone, Debug, PartialEq)]
pub enum PV {
    Bool(bool),
    I32(i32),
    I64(i64),
    F32(f32),
    F64(f64),
    Bytes(Vec<u8>),
}

#[derive(Clone, Debug)]
pub struct Column {
    pub name: String,
    pub phys: Phys,
    pub logical: Logical,
    pub optional: bool,
    /// one entry per row of the file
    pub values: Vec<Option<PV>>,
    pub enc: Enc,
    pub old_dict_id: bool,
    pub v2: bool,
    pub codec: Codec,
    pub levels: LevelMode,
    pub stats: StatsMode,
    /// rows per page, within each row group (repeated cyclically)
    pub page_rows: Vec<usize>,
}

#[derive(Clone, Debug, Default)]
pub struct Layout {
    /// integer metadata fields: (kind "footer"/"page", field path, absolute start, absolute end)
    pub int_fields: Vec<(String, String, usize, usize)>,
    /// (start, end) of every page header
    pub page_headers: Vec<(usize, usize)>,
    /// (start, end) of every page body (levels + values)
    pub page_bodies: Vec<(usize, usize)>,
    pub footer: (usize, usize),
}

// ------------------------------------------------------------------ encoders

fn bit_width(max: u64) -> u8 {
    (64 - max.leading_zeros()) as u8
}

struct BitWriter {
    buf: Vec<u8>,
    acc: u128,
    n: u32,
}
impl BitWriter {
    fn new() -> Self {
        BitWriter { buf: vec![], acc: 0, n: 0 }
    }
    fn put(&mut self, v: u64, width: u8) {
        if width == 0 {
            return;
        }
        let mask = if width >= 64 { u64::MAX } else { (1u64 << width) - 1 };
        self.acc |= ((v & mask) as u128) << self.n;
        self.n += width as u32;
        while self.n >= 8 {
            self.buf.push((self.acc & 0xff) as u8);
            self.acc >>= 8;
            self.n -= 8;
        }
    }
    fn finish(mut self) -> Vec<u8> {
        if self.n > 0 {
            self.buf.push((self.acc & 0xff) as u8);
        }
        self.buf
    }
}

/// RLE / bit-packed hybrid (no length prefix).
pub fn rle_hybrid(vals: &[u64], width: u8, mode: LevelMode) -> Vec<u8> {
    let mut out = Vec::new();
    let byte_w = (width as usize).div_ceil(8);
    let put_rle = |out: &mut Vec<u8>, v: u64, count: usize| {
        varint(out, (count as u64) << 1);
        out.extend_from_slice(&v.to_le_bytes()[..byte_w]);
    };
    let put_packed = |out: &mut Vec<u8>, vs: &[u64]| {
        // vs.len() is padded to a multiple of 8
        let groups = vs.len().div_ceil(8);
        varint(out, ((groups as u64) << 1) | 1);
        let mut bw = BitWriter::new();
        for i in 0..groups * 8 {
            bw.put(vs.get(i).copied().unwrap_or(0), width);
        }
        out.extend(bw.finish());
    };
    match mode {
        LevelMode::Rle => {
            let mut i = 0;
            while i < vals.len() {
                let mut j = i + 1;
                while j < vals.len() && vals[j] == vals[i] {
                    j += 1;
                }
                put_rle(&mut out, vals[i], j - i);
                i = j;
            }
        }
        LevelMode::BitPacked => {
            // bit-packed runs may only be padded at the very end
            if !vals.is_empty() {
                put_packed(&mut out, vals);
            }
        }
        LevelMode::Mixed => {
            // first 8 values bit-packed (if there are at least 8), the rest as RLE runs
            let mut i = 0;
            if vals.len() >= 8 {
                put_packed(&mut out, &vals[..8]);
                i = 8;
            }
            while i < vals.len() {
                let mut j = i + 1;
                while j < vals.len() && vals[j] == vals[i] {
                    j += 1;
                }
                put_rle(&mut out, vals[i], j - i);
                i = j;
            }
        }
    }
    out
}

fn delta_binary_packed(vals: &[i64], is32: bool) -> Vec<u8> {
    let mut out = Vec::new();
    let block = 128usize;
    let minis = 4usize;
    let per_mini = block / minis;
    varint(&mut out, block as u64);
    varint(&mut out, minis as u64);
    varint(&mut out, vals.len() as u64);
    let first = vals.first().copied().unwrap_or(0);
    varint(&mut out, zigzag(first));
    if vals.len() <= 1 {
        return out;
    }
    let sub = |a: i64, b: i64| -> i64 { if is32 { (a as i32).wrapping_sub(b as i32) as i64 } else { a.wrapping_sub(b) } };
    let deltas: Vec<i64> = vals.windows(2).map(|w| sub(w[1], w[0])).collect();
    for blk in deltas.chunks(block) {
        let min = *blk.iter().min().unwrap();
        varint(&mut out, zigzag(min));
        let rel: Vec<u64> = blk.iter().map(|d| if is32 { (sub(*d, min) as i32) as u32 as u64 } else { sub(*d, min) as u64 }).collect();
        let mut widths = vec![0u8; minis];
        for (m, ch) in rel.chunks(per_mini).enumerate() {
            widths[m] = bit_width(*ch.iter().max().unwrap());
        }
        out.extend_from_slice(&widths);
        for (m, ch) in rel.chunks(per_mini).enumerate() {
            let mut bw = BitWriter::new();
            for i in 0..per_mini {
                bw.put(ch.get(i).copied().unwrap_or(0), widths[m]);
            }
            let bytes = bw.finish();
            // exactly per_mini * width / 8 bytes
            let want = per_mini * widths[m] as usize / 8;
            out.extend_from_slice(&bytes[..want.min(bytes.len())]);
            for _ in bytes.len()..want {
                out.push(0);
            }
        }
    }
    out
}

fn plain(phys: Phys, vals: &[&PV]) -> Vec<u8> {
    let mut out = Vec::new();
    match phys {
        Phys::Boolean => {
            let mut bw = BitWriter::new();
            for v in vals {
                if let PV::Bool(b) = v {
                    bw.put(*b as u64, 1);
                }
            }
            out = bw.finish();
        }
        _ => {
            for v in vals {
                match v {
                    PV::I32(x) => out.extend_from_slice(&x.to_le_bytes()),
                    PV::I64(x) => out.extend_from_slice(&x.to_le_bytes()),
                    PV::F32(x) => out.extend_from_slice(&x.to_le_bytes()),
                    PV::F64(x) => out.extend_from_slice(&x.to_le_bytes()),
                    PV::Bytes(b) => {
                        out.extend_from_slice(&(b.len() as u32).to_le_bytes());
                        out.extend_from_slice(b);
                    }
                    PV::Bool(_) => {}
                }
            }
        }
    }
    out
}

fn as_i64(v: &PV) -> i64 {
    match v {
        PV::I32(x) => *x as i64,
        PV::I64(x) => *x,
        _ => 0,
    }
}

fn encode_values(phys: Phys, enc: Enc, vals: &[&PV], dict: &[PV]) -> Vec<u8> {
    match enc {
        Enc::Plain => plain(phys, vals),
        Enc::Dict => {
            let idx: Vec<u64> = vals.iter().map(|v| dict.iter().position(|d| stat_bytes(d) == stat_bytes(v)).unwrap() as u64).collect();
            let w = bit_width(dict.len().saturating_sub(1) as u64);
            let mut out = vec![w];
            out.extend(rle_hybrid(&idx, w, LevelMode::Mixed));
            out
        }
        Enc::Rle => {
            let bits: Vec<u64> = vals.iter().map(|v| matches!(v, PV::Bool(true)) as u64).collect();
            let body = rle_hybrid(&bits, 1, LevelMode::Mixed);
            let mut out = (body.len() as u32).to_le_bytes().to_vec();
            out.extend(body);
            out
        }
        Enc::DeltaBinaryPacked => delta_binary_packed(&vals.iter().map(|v| as_i64(v)).collect::<Vec<_>>(), phys == Phys::Int32),
        Enc::DeltaLengthByteArray => {
            let lens: Vec<i64> = vals.iter().map(|v| if let PV::Bytes(b) = v { b.len() as i64 } else { 0 }).collect();
            let mut out = delta_binary_packed(&lens, true);
            for v in vals {
                if let PV::Bytes(b) = v {
                    out.extend_from_slice(b);
                }
            }
            out
        }
        Enc::DeltaByteArray => {
            let mut prefixes = Vec::new();
            let mut suffixes: Vec<Vec<u8>> = Vec::new();
            let mut prev: Vec<u8> = Vec::new();
            for v in vals {
                if let PV::Bytes(b) = v {
                    let p = prev.iter().zip(b.iter()).take_while(|(x, y)| x == y).count();
                    prefixes.push(p as i64);
                    suffixes.push(b[p..].to_vec());
                    prev = b.clone();
                }
            }
            let mut out = delta_binary_packed(&prefixes, true);
            let lens: Vec<i64> = suffixes.iter().map(|s| s.len() as i64).collect();
            out.extend(delta_binary_packed(&lens, true));
            for s in suffixes {
                out.extend(s);
            }
            out
        }
        Enc::ByteStreamSplit => {
            let p = plain(phys, vals);
            let k = match phys {
                Phys::Int32 | Phys::Float => 4,
                _ => 8,
            };
            let n = p.len() / k;
            let mut out = vec![0u8; p.len()];
            for i in 0..n {
                for b in 0..k {
                    out[b * n + i] = p[i * k + b];
                }
            }
            out
        }
    }
}

fn compress(codec: Codec, data: &[u8]) -> Vec<u8> {
    match codec {
        Codec::None => data.to_vec(),
        Codec::Snappy => snap::raw::Encoder::new().compress_vec(data).expect("snappy"),
        Codec::Gzip => {
            use std::io::Write;
            let mut e = flate2::write::GzEncoder::new(Vec::new(), flate2::Compression::default());
            e.write_all(data).unwrap();
            e.finish().unwrap()
        }
        Codec::Zstd => zstd::bulk::compress(data, 1).expect("zstd"),
    }
}

fn enc_id(e: Enc, old: bool) -> i32 {
    match e {
        Enc::Plain => 0,
        Enc::Dict => {
            if old { 2 } else { 8 }
        }
        Enc::Rle => 3,
        Enc::DeltaBinaryPacked => 5,
        Enc::DeltaLengthByteArray => 6,
        Enc::DeltaByteArray => 7,
        Enc::ByteStreamSplit => 9,
    }
}

fn converted_id(l: Logical) -> Option<i32> {
    Some(match l {
        Logical::None => return None,
        Logical::Utf8 => 0,
        Logical::Decimal(..) => 5,
        Logical::Date => 6,
        Logical::TimestampMillis => 9,
        Logical::TimestampMicros => 10,
        Logical::UInt8 => 11,
        Logical::UInt16 => 12,
        Logical::UInt32 => 13,
        Logical::UInt64 => 14,
        Logical::Int8 => 15,
        Logical::Int16 => 16,
    })
}

fn stat_bytes(v: &PV) -> Vec<u8> {
    match v {
        PV::Bool(b) => vec![*b as u8],
        PV::I32(x) => x.to_le_bytes().to_vec(),
        PV::I64(x) => x.to_le_bytes().to_vec(),
        PV::F32(x) => x.to_le_bytes().to_vec(),
        PV::F64(x) => x.to_le_bytes().to_vec(),
        PV::Bytes(b) => b.clone(),
    }
}

fn pv_cmp(a: &PV, b: &PV, unsigned: bool) -> std::cmp::Ordering {
    match (a, b) {
        (PV::Bool(x), PV::Bool(y)) => x.cmp(y),
        (PV::I32(x), PV::I32(y)) => {
            if unsigned { (*x as u32).cmp(&(*y as u32)) } else { x.cmp(y) }
        }
        (PV::I64(x), PV::I64(y)) => {
            if unsigned { (*x as u64).cmp(&(*y as u64)) } else { x.cmp(y) }
        }
        (PV::F32(x), PV::F32(y)) => x.partial_cmp(y).unwrap_or(std::cmp::Ordering::Equal),
        (PV::F64(x), PV::F64(y)) => x.partial_cmp(y).unwrap_or(std::cmp::Ordering::Equal),
        (PV::Bytes(x), PV::Bytes(y)) => x.cmp(y),
        _ => std::cmp::Ordering::Equal,
    }
}

fn write_statistics(tw: &mut Tw, id: i16, col: &Column, vals: &[&Option<PV>]) {
    if col.stats == StatsMode::Absent {
        return;
    }
    // the deprecated min/max fields were defined (and filled by old writers) with signed comparison of the
    // physical value, whatever the logical type; min_value/max_value use the logical type's order
    let unsigned = matches!(col.logical, Logical::UInt8 | Logical::UInt16 | Logical::UInt32 | Logical::UInt64) && col.stats != StatsMode::DeprecatedOnly;
    let non_null: Vec<&PV> = vals.iter().filter_map(|v| v.as_ref()).filter(|v| !matches!(v, PV::F32(x) if x.is_nan()) && !matches!(v, PV::F64(x) if x.is_nan())).collect();
    let nulls = vals.iter().filter(|v| v.is_none()).count() as i64;
    tw.struct_begin(id);
    let dep = col.stats == StatsMode::DeprecatedOnly;
    let cmp = |a: &&&PV, b: &&&PV| match (**a, **b) {
        // old writers compared byte arrays as signed bytes
        (PV::Bytes(x), PV::Bytes(y)) if dep => x.iter().map(|c| *c as i8).cmp(y.iter().map(|c| *c as i8)),
        (x, y) => pv_cmp(x, y, unsigned),
    };
    if let (Some(mn), Some(mx)) = (non_null.iter().min_by(cmp), non_null.iter().max_by(cmp)) {
        let (mut mnb, mut mxb) = (stat_bytes(mn), stat_bytes(mx));
        if col.stats == StatsMode::Inexact {
            if let (PV::Bytes(_), PV::Bytes(_)) = (mn, mx) {
                // truncated string statistics: a shorter lower bound, an incremented upper bound
                mnb.truncate(1);
                mxb.truncate(1);
                if let Some(l) = mxb.last_mut() {
                    *l = l.saturating_add(1);
                }
            }
        }
        match col.stats {
            StatsMode::DeprecatedOnly => {
                // the deprecated fields use signed comparison; only valid for signed / non-string columns
                tw.binary(1, &mxb);
                tw.binary(2, &mnb);
                tw.i64(3, nulls);
            }
            _ => {
                tw.i64(3, nulls);
                tw.binary(5, &mxb);
                tw.binary(6, &mnb);
                if col.stats == StatsMode::Inexact {
                    tw.bool(7, false);
                    tw.bool(8, false);
                } else {
                    tw.bool(7, true);
                    tw.bool(8, true);
                }
            }
        }
    } else {
        tw.i64(3, nulls);
    }
    tw.struct_end();
}

/// Write a file with the given columns (all the same length) split into row groups.
pub fn write_file(cols: &[Column], row_group_rows: &[usize]) -> (Vec<u8>, Layout) {
    let mut out: Vec<u8> = b"PAR1".to_vec();
    let mut layout = Layout::default();
    let nrows = cols.first().map(|c| c.values.len()).unwrap_or(0);
    // row group boundaries
    let mut rgs: Vec<(usize, usize)> = Vec::new();
    let mut start = 0;
    let mut k = 0;
    while start < nrows || (nrows == 0 && rgs.is_empty()) {
        let n = row_group_rows[k % row_group_rows.len()].max(1).min(nrows - start).max(if nrows == 0 { 0 } else { 1 });
        rgs.push((start, start + n));
        start += n;
        k += 1;
        if nrows == 0 {
            break;
        }
    }
    struct ChunkMeta {
        offset: usize,
        dict_offset: Option<usize>,
        total_comp: usize,
        total_uncomp: usize,
        num_values: usize,
        encodings: Vec<i32>,
    }
    let mut chunk_meta: Vec<Vec<ChunkMeta>> = Vec::new();
    for &(rs, re) in &rgs {
        let mut metas = Vec::new();
        for col in cols {
            let vals = &col.values[rs..re];
            let chunk_start = out.len();
            let mut total_uncomp = 0usize;
            // dictionary
            let mut dict: Vec<PV> = Vec::new();
            let mut dict_offset = None;
            let mut encodings = vec![enc_id(col.enc, col.old_dict_id), 3];
            if col.enc == Enc::Dict {
                for v in vals.iter().flatten() {
                    // bitwise identity (NaN is a dictionary entry like any other value)
                    if !dict.iter().any(|d| stat_bytes(d) == stat_bytes(v)) {
                        dict.push(v.clone());
                    }
                }
                let body = plain(col.phys, &dict.iter().collect::<Vec<_>>());
                let comp = compress(col.codec, &body);
                let mut tw = Tw::new();
                tw.i32(1, 2); // DICTIONARY_PAGE
                tw.i32(2, body.len() as i32);
                tw.i32(3, comp.len() as i32);
                tw.struct_begin(7);
                tw.i32(1, dict.len() as i32);
                tw.i32(2, if col.old_dict_id { 2 } else { 0 });
                tw.struct_end();
                tw.end_root();
                dict_offset = Some(out.len());
                for (p, a, b) in &tw.marks {
                    layout.int_fields.push(("dictpage".into(), p.clone(), out.len() + a, out.len() + b));
                }
                layout.page_headers.push((out.len(), out.len() + tw.buf.len()));
                total_uncomp += tw.buf.len() + body.len();
                out.extend(&tw.buf);
                layout.page_bodies.push((out.len(), out.len() + comp.len()));
                out.extend(comp);
                encodings.push(0);
            }
            let data_offset = out.len();
            // pages
            let mut p = 0usize;
            let mut pk = 0usize;
            let mut first = true;
            while p < vals.len() || (first && vals.is_empty()) {
                first = false;
                let n = col.page_rows[pk % col.page_rows.len()].max(1).min(vals.len() - p);
                pk += 1;
                let page_vals = &vals[p..p + n];
                p += n;
                let present: Vec<&PV> = page_vals.iter().filter_map(|v| v.as_ref()).collect();
                let values_bytes = encode_values(col.phys, col.enc, &present, &dict);
                let defs: Vec<u64> = page_vals.iter().map(|v| v.is_some() as u64).collect();
                let def_bytes = if col.optional { rle_hybrid(&defs, 1, col.levels) } else { vec![] };
                let mut tw = Tw::new();
                let (body_uncomp_len, body): (usize, Vec<u8>);
                if !col.v2 {
                    let mut raw = Vec::new();
                    if col.optional {
                        raw.extend_from_slice(&(def_bytes.len() as u32).to_le_bytes());
                        raw.extend(&def_bytes);
                    }
                    raw.extend(&values_bytes);
                    let comp = compress(col.codec, &raw);
                    tw.i32(1, 0); // DATA_PAGE
                    tw.i32(2, raw.len() as i32);
                    tw.i32(3, comp.len() as i32);
                    tw.struct_begin(5);
                    tw.i32(1, n as i32);
                    tw.i32(2, enc_id(col.enc, col.old_dict_id));
                    tw.i32(3, 3);
                    tw.i32(4, 3);
                    tw.struct_end();
                    body_uncomp_len = raw.len();
                    body = comp;
                } else {
                    let comp_vals = compress(col.codec, &values_bytes);
                    let mut b = def_bytes.clone();
                    b.extend(&comp_vals);
                    tw.i32(1, 3); // DATA_PAGE_V2
                    tw.i32(2, (def_bytes.len() + values_bytes.len()) as i32);
                    tw.i32(3, b.len() as i32);
                    tw.struct_begin(8);
                    tw.i32(1, n as i32);
                    tw.i32(2, (n - present.len()) as i32);
                    tw.i32(3, n as i32);
                    tw.i32(4, enc_id(col.enc, col.old_dict_id));
                    tw.i32(5, def_bytes.len() as i32);
                    tw.i32(6, 0);
                    tw.bool(7, col.codec != Codec::None);
                    tw.struct_end();
                    body_uncomp_len = def_bytes.len() + values_bytes.len();
                    body = b;
                }
                tw.end_root();
                for (p, a, b) in &tw.marks {
                    layout.int_fields.push(("page".into(), p.clone(), out.len() + a, out.len() + b));
                }
                layout.page_headers.push((out.len(), out.len() + tw.buf.len()));
                total_uncomp += tw.buf.len() + body_uncomp_len;
                out.extend(&tw.buf);
                layout.page_bodies.push((out.len(), out.len() + body.len()));
                out.extend(body);
            }
            metas.push(ChunkMeta { offset: data_offset, dict_offset, total_comp: out.len() - chunk_start, total_uncomp, num_values: vals.len(), encodings });
        }
        chunk_meta.push(metas);
    }
    // footer
    let footer_start = out.len();
    let mut tw = Tw::new();
    tw.i32(1, 2);
    tw.list_begin(2, T_STRUCT, cols.len() + 1);
    // root
    tw.elem_struct_begin();
    tw.binary(4, b"schema");
    tw.i32(5, cols.len() as i32);
    tw.struct_end();
    for c in cols {
        tw.elem_struct_begin();
        tw.i32(1, c.phys as i32);
        tw.i32(3, if c.optional { 1 } else { 0 });
        tw.binary(4, c.name.as_bytes());
        if let Some(ct) = converted_id(c.logical) {
            tw.i32(6, ct);
        }
        if let Logical::Decimal(p, s) = c.logical {
            tw.i32(7, s as i32);
            tw.i32(8, p as i32);
        }
        tw.struct_end();
    }
    tw.i64(3, nrows as i64);
    tw.list_begin(4, T_STRUCT, rgs.len());
    for (ri, &(rs, re)) in rgs.iter().enumerate() {
        tw.elem_struct_begin();
        tw.list_begin(1, T_STRUCT, cols.len());
        let mut total = 0i64;
        for (ci, c) in cols.iter().enumerate() {
            let m = &chunk_meta[ri][ci];
            total += m.total_comp as i64;
            tw.elem_struct_begin();
            tw.i64(2, m.dict_offset.unwrap_or(m.offset) as i64);
            tw.struct_begin(3);
            tw.i32(1, c.phys as i32);
            tw.list_begin(2, T_I32, m.encodings.len());
            for e in &m.encodings {
                tw.elem_i32(*e);
            }
            tw.list_begin(3, T_BINARY, 1);
            tw.elem_binary(c.name.as_bytes());
            tw.i32(4, c.codec as i32);
            tw.i64(5, m.num_values as i64);
            tw.i64(6, m.total_uncomp as i64);
            tw.i64(7, m.total_comp as i64);
            tw.i64(9, m.offset as i64);
            if let Some(d) = m.dict_offset {
                tw.i64(11, d as i64);
            }
            let vals: Vec<&Option<PV>> = c.values[rs..re].iter().collect();
            write_statistics(&mut tw, 12, c, &vals);
            tw.struct_end();
            tw.struct_end();
        }
        tw.i64(2, total);
        tw.i64(3, (re - rs) as i64);
        tw.i16(7, ri as i16);
        tw.struct_end();
    }
    tw.binary(6, b"verif pqgen");
    tw.end_root();
    for (p, a, b) in &tw.marks {
        layout.int_fields.push(("footer".into(), p.clone(), footer_start + a, footer_start + b));
    }
    out.extend(&tw.buf);
    let flen = (out.len() - footer_start) as u32;
    out.extend_from_slice(&flen.to_le_bytes());
    out.extend_from_slice(b"PAR1");
    layout.footer = (footer_start, footer_start + flen as usize);
    (out, layout)
}

/// The engine value a physical value is expected to be read as.
pub fn expected_val(phys: Phys, logical: Logical, v: &Option<PV>) -> Val {
    let v = match v {
        None => return Val::Null,
        Some(v) => v,
    };
    match (v, logical) {
        (PV::Bool(b), _) => Val::Bool(*b),
        (PV::I32(x), Logical::Date) => Val::Date32(*x),
        (PV::I32(x), Logical::Decimal(p, s)) => Val::Dec(*x as i128, p as u8, s as i8),
        (PV::I32(x), Logical::UInt8 | Logical::UInt16 | Logical::UInt32) => Val::Int((*x as u32) as i128),
        (PV::I32(x), _) => Val::Int(*x as i128),
        (PV::I64(x), Logical::Decimal(p, s)) => Val::Dec(*x as i128, p as u8, s as i8),
        (PV::I64(x), Logical::UInt64) => Val::Int((*x as u64) as i128),
        (PV::I64(x), Logical::TimestampMillis) => Val::Ts(1, *x),
        (PV::I64(x), Logical::TimestampMicros) => Val::Ts(2, *x),
        (PV::I64(x), _) => Val::Int(*x as i128),
        (PV::F32(x), _) => Val::F32(x.to_bits()),
        (PV::F64(x), _) => Val::F64(x.to_bits()),
        (PV::Bytes(b), Logical::Utf8) => Val::Str(String::from_utf8_lossy(b).to_string()),
        (PV::Bytes(b), _) => Val::Bytes(b.clone()),
    }
    .norm_phys(phys)
}

trait NormPhys {
    fn norm_phys(self, phys: Phys) -> Val;
}
impl NormPhys for Val {
    fn norm_phys(self, _phys: Phys) -> Val {
        self
    }
}

/// Expected engine type name for a (physical, logical) pair, as documented for the Parquet integration.
pub fn expected_type(phys: Phys, logical: Logical) -> String {
    match (phys, logical) {
        (Phys::Boolean, _) => "Boolean".into(),
        (Phys::Int32, Logical::None) => "Int32".into(),
        (Phys::Int32, Logical::Int8) => "Int8".into(),
        (Phys::Int32, Logical::Int16) => "Int16".into(),
        (Phys::Int32, Logical::UInt8) => "UInt8".into(),
        (Phys::Int32, Logical::UInt16) => "UInt16".into(),
        (Phys::Int32, Logical::UInt32) => "UInt32".into(),
        (Phys::Int32, Logical::Date) => "Date32".into(),
        (Phys::Int32, Logical::Decimal(p, s)) => format!("Decimal64({p},{s})"),
        (Phys::Int64, Logical::None) => "Int64".into(),
        (Phys::Int64, Logical::UInt64) => "UInt64".into(),
        (Phys::Int64, Logical::Decimal(p, s)) => format!("Decimal64({p},{s})"),
        (Phys::Int64, Logical::TimestampMillis) => "Timestamp(ms)".into(),
        (Phys::Int64, Logical::TimestampMicros) => "Timestamp(μs)".into(),
        (Phys::Float, _) => "Float32".into(),
        (Phys::Double, _) => "Float64".into(),
        (Phys::ByteArray, Logical::Utf8) => "Utf8".into(),
        (Phys::ByteArray, _) => "Binary".into(),
        _ => "?".into(),
    }
}

/// Replace the zigzag-varint integer stored at [start, end) by `value`. The footer length is
/// corrected when the field lies inside the footer, so that only the targeted field "lies".
pub fn lie(file: &[u8], layout: &Layout, start: usize, end: usize, value: i64) -> Vec<u8> {
    let mut enc = Vec::new();
    varint(&mut enc, zigzag(value));
    let mut out = file[..start].to_vec();
    out.extend(&enc);
    out.extend(&file[end..]);
    if start >= layout.footer.0 && end <= layout.footer.1 {
        let n = out.len();
        let flen = (n - 8 - layout.footer.0) as u32;
        out[n - 8..n - 4].copy_from_slice(&flen.to_le_bytes());
    }
    out
}

pub fn decode_zigzag_varint(b: &[u8]) -> i64 {
    let mut v: u64 = 0;
    let mut shift = 0;
    for x in b {
        v |= ((x & 0x7f) as u64) << shift;
        shift += 7;
        if x & 0x80 == 0 {
            break;
        }
    }
    ((v >> 1) as i64) ^ -((v & 1) as i64)
}
