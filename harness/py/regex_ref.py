#!/usr/bin/env python3
"""Reference results for the regular-expression functions (Python's re), used by check C20.
stdin: JSON {"subjects": [...], "patterns": [...]}
stdout: JSON {"valid": [bool per pattern], "can_match_empty": [...], "like": [[...]], "count": ..., "instr": ..., "replace": ...}
Patterns that Python rejects are reported as invalid and are only checked for safety by the caller."""
import json, re, sys
inp = json.load(sys.stdin)
subs, pats = inp["subjects"], inp["patterns"]
out = {"valid": [], "empty": [], "like": [], "count": [], "instr": [], "replace": []}
for p in pats:
    try:
        rx = re.compile(p)
    except Exception:
        out["valid"].append(False); out["empty"].append(False)
        for k in ("like", "count", "instr", "replace"): out[k].append(None)
        continue
    out["valid"].append(True)
    out["empty"].append(rx.search("") is not None or any(m.end() == m.start() for s in subs[:50] for m in rx.finditer(s)))
    like, count, instr, repl = [], [], [], []
    for s in subs:
        m = rx.search(s)
        like.append(m is not None)
        count.append(len(rx.findall(s)) if True else 0)
        instr.append(m.start() + 1 if m else 0)
        repl.append(rx.sub("X", s, count=1))
    out["like"].append(like); out["count"].append(count); out["instr"].append(instr); out["replace"].append(repl)
json.dump(out, sys.stdout)
