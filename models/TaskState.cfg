SPECIFICATION Spec
INVARIANT TypeOK
INVARIANT WorkerIffRunning
INVARIANT PendingOnlyWhileRunning
INVARIANT NeverRunAgain
INVARIANT CompletedIsTrue
INVARIANT NoLostWake
