---------------------------- MODULE TaskState ----------------------------
(* Model of the thread-pool task state machine of
   crates/glaredb_rt_native/src/threaded/task.rs (TaskState::schedule, the worker
   loop it spawns, TaskState::execute) and handle.rs (ThreadedQueryHandle::cancel),
   for ONE task; tasks interact only through wake-ups, which are environment
   actions here (a wake-up may arrive at any time, any number of times).

   Every action below is one critical section of `sched_state` (or one poll) in
   the code; the action names are the labels hook H2 logs, so that every
   implementation trace recorded by the thread-level explorer can be replayed on
   the state graph TLC dumps (trace inclusion), and the graph's edges can be
   ticked off against the implementation traces (coverage).                   *)
EXTENDS Naturals

VARIABLES running, pending, completed, canceled,  \* ScheduleState in the code
          pc,        \* worker: "none" | "exec" (spawned / told to continue) | "polling" | "epi"
          res,       \* result of the last poll: "na" | "pending" | "done" | "err"
          done,      \* history: some poll returned Ready(Ok)
          owed,      \* history: a wake-up was accepted and no poll has begun since
          act        \* label of the last action

vars == <<running, pending, completed, canceled, pc, res, done, owed, act>>

Init == /\ running = FALSE /\ pending = FALSE /\ completed = FALSE /\ canceled = FALSE
        /\ pc = "none" /\ res = "na" /\ done = FALSE /\ owed = FALSE /\ act = "Init"

\* ---- TaskState::schedule (called by wakers, spawn_pipelines and cancel)
ScheduleCompleted ==
    /\ completed
    /\ act' = "ScheduleCompleted"
    /\ UNCHANGED <<running, pending, completed, canceled, pc, res, done, owed>>

ScheduleCanceled ==
    /\ ~completed /\ canceled
    /\ act' = "ScheduleCanceled"      \* sets the query error; the wake-up is dropped on purpose
    /\ UNCHANGED <<running, pending, completed, canceled, pc, res, done, owed>>

SchedulePending ==
    /\ ~completed /\ ~canceled /\ running
    /\ pending' = TRUE /\ owed' = TRUE
    /\ act' = "SchedulePending"
    /\ UNCHANGED <<running, completed, canceled, pc, res, done>>

ScheduleSpawn ==
    /\ ~completed /\ ~canceled /\ ~running
    /\ running' = TRUE /\ pc' = "exec" /\ owed' = TRUE
    /\ act' = "ScheduleSpawn"
    /\ UNCHANGED <<pending, completed, canceled, res, done>>

\* ---- worker loop
PollBegin ==
    /\ pc = "exec"
    /\ pc' = "polling" /\ owed' = FALSE
    /\ act' = "PollBegin"
    /\ UNCHANGED <<running, pending, completed, canceled, res, done>>

PollEnd(r, label) ==
    /\ pc = "polling"
    /\ pc' = "epi" /\ res' = r /\ done' = (done \/ r = "done")
    /\ act' = label
    /\ UNCHANGED <<running, pending, completed, canceled, owed>>

EpilogueContinue ==
    /\ pc = "epi" /\ pending /\ res # "done"
    /\ completed' = FALSE /\ pending' = FALSE /\ pc' = "exec"
    /\ act' = "EpilogueContinue"
    /\ UNCHANGED <<running, canceled, res, done, owed>>

EpilogueCompletedBreak ==
    /\ pc = "epi" /\ pending /\ res = "done"
    /\ completed' = TRUE /\ pending' = FALSE /\ pc' = "none"
    /\ act' = "EpilogueCompletedBreak"
    /\ UNCHANGED <<running, canceled, res, done, owed>>

EpilogueStop ==
    /\ pc = "epi" /\ ~pending
    /\ completed' = (res = "done") /\ running' = FALSE /\ pc' = "none"
    /\ act' = "EpilogueStop"
    /\ UNCHANGED <<pending, canceled, res, done, owed>>

\* ---- ThreadedQueryHandle::cancel (first critical section; it then calls schedule)
CancelSet ==
    /\ ~canceled
    /\ canceled' = TRUE
    /\ act' = "CancelSet"
    /\ UNCHANGED <<running, pending, completed, pc, res, done, owed>>

Next == \/ ScheduleCompleted \/ ScheduleCanceled \/ SchedulePending \/ ScheduleSpawn
        \/ PollBegin
        \/ PollEnd("pending", "PollPending") \/ PollEnd("done", "PollDone") \/ PollEnd("err", "PollErr")
        \/ EpilogueContinue \/ EpilogueCompletedBreak \/ EpilogueStop
        \/ CancelSet

Spec == Init /\ [][Next]_vars

\* ---- safety properties of C04 at this level
TypeOK == /\ pc \in {"none", "exec", "polling", "epi"}
          /\ res \in {"na", "pending", "done", "err"}

\* a worker exists exactly while `running` says so (at most one worker per task)
WorkerIffRunning == (pc # "none") => running
PendingOnlyWhileRunning == pending => running
\* a finished task is never run again
NeverRunAgain == done => pc \notin {"exec", "polling"}
CompletedIsTrue == completed => done
\* no wake-up is lost: an accepted wake-up is followed by another poll unless the task finished
NoLostWake == (owed /\ ~done) => (pc = "exec" \/ pending)
=============================================================================
